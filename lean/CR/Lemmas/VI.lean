/-
Helper lemmas for the reachability value iteration of `CR/Model/Solver.lean`
(`stepReach`, `sweepReach`, `viReach`, `solveReach`) over a linearly ordered field.

Contents
* array read-back lemma for `setIfInBounds`/`getD`;
* `stepReach` is a max (clamped below by 0) / min (clamped above by 1) / weighted sum;
* `stepReach` is monotone, maps `[0,1]` vectors to `[0,1]`, and is non-expansive in the sup norm;
* generic invariant principles for the Gauss–Seidel sweep and for the `while diff > thr` loop;
* the change bound of one sweep and the Bellman residual after a sweep;
* what an `.ok` outcome of `solveReach` says; the search order contains no final state and no
  duplicates.
-/
import CR.Model.Solver
import Mathlib.Algebra.Order.Field.Basic
import Mathlib.Algebra.Order.Ring.Abs
import Mathlib.Algebra.Order.Group.MinMax
import Mathlib.Logic.Function.Iterate
import Mathlib.Tactic.Linarith

set_option linter.unusedSectionVars false

namespace CR.VI

open CR

/-! ### arrays -/

section Arr
variable {α : Type}

theorem getD_setIfInBounds (a : Array α) (i j : Nat) (v d : α) :
    (a.setIfInBounds i v).getD j d = if i = j ∧ i < a.size then v else a.getD j d := by
  simp only [Array.getD_eq_getD_getElem?, Array.getElem?_setIfInBounds]
  by_cases h : i = j
  · subst h
    by_cases h2 : i < a.size <;> simp [h2]
  · simp [h]

theorem getD_of_size_le (a : Array α) (j : Nat) (d : α) (h : a.size ≤ j) : a.getD j d = d := by
  simp [Array.getD, Nat.not_lt.mpr h]

end Arr

variable {K : Type} [Field K] [LinearOrder K] [IsStrictOrderedRing K]

theorem absv_eq_abs (x : K) : absv x = |x| := by
  unfold absv
  split
  · rw [abs_of_neg ‹_›]
  · rw [abs_of_nonneg (not_lt.mp ‹_›)]

/-! ### the three folds of `stepReach` -/

/-- running maximum of the successor values, started at `m0` -/
def maxOver (x : Array K) (row : List (Tr K)) (m0 : K) : K :=
  row.foldl (fun m t => max m (x.getD t.tgt 0)) m0

/-- running minimum of the successor values, started at `m0` -/
def minOver (x : Array K) (row : List (Tr K)) (m0 : K) : K :=
  row.foldl (fun m t => min m (x.getD t.tgt 0)) m0

/-- weighted sum of the successor values -/
def sumOver (x : Array K) (row : List (Tr K)) : K :=
  (row.map (fun t => x.getD t.tgt 0 * t.p)).sum

/-- total weight of a row -/
def psum (row : List (Tr K)) : K := (row.map (·.p)).sum

theorem foldl_max_eq (x : Array K) (row : List (Tr K)) (m0 : K) :
    row.foldl (fun m t => if x.getD t.tgt 0 > m then x.getD t.tgt 0 else m) m0
      = maxOver x row m0 := by
  unfold maxOver
  congr 1
  funext m t
  split_ifs with h
  · exact (max_eq_right (le_of_lt h)).symm
  · exact (max_eq_left (not_lt.mp h)).symm

theorem foldl_min_eq (x : Array K) (row : List (Tr K)) (m0 : K) :
    row.foldl (fun m t => if x.getD t.tgt 0 < m then x.getD t.tgt 0 else m) m0
      = minOver x row m0 := by
  unfold minOver
  congr 1
  funext m t
  split_ifs with h
  · exact (min_eq_right (le_of_lt h)).symm
  · exact (min_eq_left (not_lt.mp h)).symm

theorem foldl_sum_eq (x : Array K) (row : List (Tr K)) (v0 : K) :
    row.foldl (fun v t => v + x.getD t.tgt 0 * t.p) v0 = v0 + sumOver x row := by
  unfold sumOver
  induction row generalizing v0 with
  | nil => simp
  | cons t row ih =>
    simp only [List.foldl_cons, List.map_cons, List.sum_cons]
    rw [ih, add_assoc]

@[simp] theorem maxOver_nil (x : Array K) (m0 : K) : maxOver x [] m0 = m0 := rfl
@[simp] theorem maxOver_cons (x : Array K) (t : Tr K) (row : List (Tr K)) (m0 : K) :
    maxOver x (t :: row) m0 = maxOver x row (max m0 (x.getD t.tgt 0)) := rfl
@[simp] theorem minOver_nil (x : Array K) (m0 : K) : minOver x [] m0 = m0 := rfl
@[simp] theorem minOver_cons (x : Array K) (t : Tr K) (row : List (Tr K)) (m0 : K) :
    minOver x (t :: row) m0 = minOver x row (min m0 (x.getD t.tgt 0)) := rfl
@[simp] theorem sumOver_nil (x : Array K) : sumOver x [] = 0 := rfl
@[simp] theorem sumOver_cons (x : Array K) (t : Tr K) (row : List (Tr K)) :
    sumOver x (t :: row) = x.getD t.tgt 0 * t.p + sumOver x row := by
  simp [sumOver]
@[simp] theorem psum_nil : psum ([] : List (Tr K)) = 0 := rfl
@[simp] theorem psum_cons (t : Tr K) (row : List (Tr K)) : psum (t :: row) = t.p + psum row := by
  simp [psum]

/-! #### max -/

theorem le_maxOver_init (x : Array K) (row : List (Tr K)) (m0 : K) : m0 ≤ maxOver x row m0 := by
  induction row generalizing m0 with
  | nil => simp
  | cons t row ih => exact le_trans (le_max_left _ _) (ih _)

theorem le_maxOver_mem (x : Array K) (row : List (Tr K)) (m0 : K) (t : Tr K) (ht : t ∈ row) :
    x.getD t.tgt 0 ≤ maxOver x row m0 := by
  induction row generalizing m0 with
  | nil => simp at ht
  | cons u row ih =>
    rcases List.mem_cons.mp ht with rfl | h
    · exact le_trans (le_max_right _ _) (le_maxOver_init _ _ _)
    · exact ih _ h

theorem maxOver_attained (x : Array K) (row : List (Tr K)) (m0 : K) :
    maxOver x row m0 = m0 ∨ ∃ t ∈ row, maxOver x row m0 = x.getD t.tgt 0 := by
  induction row generalizing m0 with
  | nil => simp
  | cons u row ih =>
    rcases ih (max m0 (x.getD u.tgt 0)) with h | ⟨t, ht, h⟩
    · rcases max_choice m0 (x.getD u.tgt 0) with h2 | h2
      · left; rw [maxOver_cons, h, h2]
      · right; exact ⟨u, List.mem_cons_self, by rw [maxOver_cons, h, h2]⟩
    · right; exact ⟨t, List.mem_cons_of_mem _ ht, by rw [maxOver_cons]; exact h⟩

theorem maxOver_le (x : Array K) (row : List (Tr K)) (m0 c : K) (h0 : m0 ≤ c)
    (h : ∀ t ∈ row, x.getD t.tgt 0 ≤ c) : maxOver x row m0 ≤ c := by
  induction row generalizing m0 with
  | nil => simpa
  | cons u row ih =>
    exact ih _ (max_le h0 (h u List.mem_cons_self)) (fun t ht => h t (List.mem_cons_of_mem _ ht))

theorem maxOver_mono (x y : Array K) (row : List (Tr K)) (m0 m0' : K) (h0 : m0 ≤ m0')
    (h : ∀ t ∈ row, x.getD t.tgt 0 ≤ y.getD t.tgt 0) : maxOver x row m0 ≤ maxOver y row m0' :=
  maxOver_le x row m0 _ (le_trans h0 (le_maxOver_init _ _ _))
    (fun t ht => le_trans (h t ht) (le_maxOver_mem _ _ _ t ht))

theorem maxOver_nonexp (x y : Array K) (row : List (Tr K)) (m0 m0' e : K) (h0 : |m0 - m0'| ≤ e)
    (h : ∀ t ∈ row, |x.getD t.tgt 0 - y.getD t.tgt 0| ≤ e) :
    |maxOver x row m0 - maxOver y row m0'| ≤ e := by
  induction row generalizing m0 m0' with
  | nil => simpa
  | cons u row ih =>
    exact ih _ _ (le_trans (abs_max_sub_max_le_max _ _ _ _) (max_le h0 (h u List.mem_cons_self)))
      (fun t ht => h t (List.mem_cons_of_mem _ ht))

/-! #### min -/

theorem minOver_le_init (x : Array K) (row : List (Tr K)) (m0 : K) : minOver x row m0 ≤ m0 := by
  induction row generalizing m0 with
  | nil => simp
  | cons t row ih => exact le_trans (ih _) (min_le_left _ _)

theorem minOver_le_mem (x : Array K) (row : List (Tr K)) (m0 : K) (t : Tr K) (ht : t ∈ row) :
    minOver x row m0 ≤ x.getD t.tgt 0 := by
  induction row generalizing m0 with
  | nil => simp at ht
  | cons u row ih =>
    rcases List.mem_cons.mp ht with rfl | h
    · exact le_trans (minOver_le_init x row _) (min_le_right _ _)
    · exact ih _ h

theorem minOver_attained (x : Array K) (row : List (Tr K)) (m0 : K) :
    minOver x row m0 = m0 ∨ ∃ t ∈ row, minOver x row m0 = x.getD t.tgt 0 := by
  induction row generalizing m0 with
  | nil => simp
  | cons u row ih =>
    rcases ih (min m0 (x.getD u.tgt 0)) with h | ⟨t, ht, h⟩
    · rcases min_choice m0 (x.getD u.tgt 0) with h2 | h2
      · left; rw [minOver_cons, h, h2]
      · right; exact ⟨u, List.mem_cons_self, by rw [minOver_cons, h, h2]⟩
    · right; exact ⟨t, List.mem_cons_of_mem _ ht, by rw [minOver_cons]; exact h⟩

theorem le_minOver (x : Array K) (row : List (Tr K)) (m0 c : K) (h0 : c ≤ m0)
    (h : ∀ t ∈ row, c ≤ x.getD t.tgt 0) : c ≤ minOver x row m0 := by
  induction row generalizing m0 with
  | nil => simpa
  | cons u row ih =>
    exact ih _ (le_min h0 (h u List.mem_cons_self)) (fun t ht => h t (List.mem_cons_of_mem _ ht))

theorem minOver_mono (x y : Array K) (row : List (Tr K)) (m0 m0' : K) (h0 : m0 ≤ m0')
    (h : ∀ t ∈ row, x.getD t.tgt 0 ≤ y.getD t.tgt 0) : minOver x row m0 ≤ minOver y row m0' :=
  le_minOver y row m0' _ (le_trans (minOver_le_init _ _ _) h0)
    (fun t ht => le_trans (minOver_le_mem _ _ _ t ht) (h t ht))

theorem minOver_nonexp (x y : Array K) (row : List (Tr K)) (m0 m0' e : K) (h0 : |m0 - m0'| ≤ e)
    (h : ∀ t ∈ row, |x.getD t.tgt 0 - y.getD t.tgt 0| ≤ e) :
    |minOver x row m0 - minOver y row m0'| ≤ e := by
  induction row generalizing m0 m0' with
  | nil => simpa
  | cons u row ih =>
    exact ih _ _ (le_trans (abs_min_sub_min_le_max _ _ _ _) (max_le h0 (h u List.mem_cons_self)))
      (fun t ht => h t (List.mem_cons_of_mem _ ht))

/-! #### weighted sum -/

theorem psum_nonneg (row : List (Tr K)) (hp : ∀ t ∈ row, 0 ≤ t.p) : 0 ≤ psum row := by
  induction row with
  | nil => simp
  | cons u row ih =>
    have h1 := hp u List.mem_cons_self
    have h2 := ih (fun t ht => hp t (List.mem_cons_of_mem _ ht))
    simp only [psum_cons]; linarith

/-- the basic comparison: if `x ≤ y + e` on the successors then `Σ x·p ≤ Σ y·p + e·Σ p` -/
theorem sumOver_le_add (x y : Array K) (row : List (Tr K)) (e : K) (hp : ∀ t ∈ row, 0 ≤ t.p)
    (h : ∀ t ∈ row, x.getD t.tgt 0 ≤ y.getD t.tgt 0 + e) :
    sumOver x row ≤ sumOver y row + e * psum row := by
  induction row with
  | nil => simp
  | cons u row ih =>
    have h1 := hp u List.mem_cons_self
    have h2 := h u List.mem_cons_self
    have h3 := ih (fun t ht => hp t (List.mem_cons_of_mem _ ht))
      (fun t ht => h t (List.mem_cons_of_mem _ ht))
    have h4 : x.getD u.tgt 0 * u.p ≤ (y.getD u.tgt 0 + e) * u.p :=
      mul_le_mul_of_nonneg_right h2 h1
    simp only [sumOver_cons, psum_cons]
    linarith

theorem sumOver_mono (x y : Array K) (row : List (Tr K)) (hp : ∀ t ∈ row, 0 ≤ t.p)
    (h : ∀ t ∈ row, x.getD t.tgt 0 ≤ y.getD t.tgt 0) : sumOver x row ≤ sumOver y row := by
  have := sumOver_le_add x y row 0 hp (fun t ht => by simpa using h t ht)
  simpa using this

theorem sumOver_lower (x : Array K) (row : List (Tr K)) (a : K) (hp : ∀ t ∈ row, 0 ≤ t.p)
    (h : ∀ t ∈ row, a ≤ x.getD t.tgt 0) : a * psum row ≤ sumOver x row := by
  induction row with
  | nil => simp
  | cons u row ih =>
    have h1 := hp u List.mem_cons_self
    have h2 := h u List.mem_cons_self
    have h3 := ih (fun t ht => hp t (List.mem_cons_of_mem _ ht))
      (fun t ht => h t (List.mem_cons_of_mem _ ht))
    have h4 : a * u.p ≤ x.getD u.tgt 0 * u.p := mul_le_mul_of_nonneg_right h2 h1
    simp only [sumOver_cons, psum_cons]
    linarith

theorem sumOver_upper (x : Array K) (row : List (Tr K)) (b : K) (hp : ∀ t ∈ row, 0 ≤ t.p)
    (h : ∀ t ∈ row, x.getD t.tgt 0 ≤ b) : sumOver x row ≤ b * psum row := by
  induction row with
  | nil => simp
  | cons u row ih =>
    have h1 := hp u List.mem_cons_self
    have h2 := h u List.mem_cons_self
    have h3 := ih (fun t ht => hp t (List.mem_cons_of_mem _ ht))
      (fun t ht => h t (List.mem_cons_of_mem _ ht))
    have h4 : x.getD u.tgt 0 * u.p ≤ b * u.p := mul_le_mul_of_nonneg_right h2 h1
    simp only [sumOver_cons, psum_cons]
    linarith

theorem sumOver_nonexp (x y : Array K) (row : List (Tr K)) (e : K) (hp : ∀ t ∈ row, 0 ≤ t.p)
    (h : ∀ t ∈ row, |x.getD t.tgt 0 - y.getD t.tgt 0| ≤ e) :
    |sumOver x row - sumOver y row| ≤ e * psum row := by
  have h1 := sumOver_le_add x y row e hp (fun t ht => by
    have := (abs_le.mp (h t ht)).2; linarith)
  have h2 := sumOver_le_add y x row e hp (fun t ht => by
    have := (abs_le.mp (h t ht)).1; linarith)
  rw [abs_le]; constructor <;> linarith

/-! ### `stepReach` is the max / min / weighted sum -/

section Step
variable (o : Array Owner) (tl : Array (List (Tr K)))

theorem stepReach_p1 (x : Array K) (s : Nat) (h : o.getD s .prob = .p1) :
    stepReach o tl x s = maxOver x (tl.getD s []) 0 := by
  unfold stepReach
  simp only [h]
  exact foldl_max_eq _ _ _

theorem stepReach_p2 (x : Array K) (s : Nat) (h : o.getD s .prob = .p2) :
    stepReach o tl x s = minOver x (tl.getD s []) 1 := by
  unfold stepReach
  simp only [h]
  exact foldl_min_eq _ _ _

theorem stepReach_prob (x : Array K) (s : Nat) (h : o.getD s .prob = .prob) :
    stepReach o tl x s = sumOver x (tl.getD s []) := by
  unfold stepReach
  simp only [h]
  rw [foldl_sum_eq]; simp

/-- probabilities of the row of `s` are non-negative whenever `s` is probabilistic -/
def RowNonneg (s : Nat) : Prop := o.getD s .prob = .prob → ∀ t ∈ tl.getD s [], 0 ≤ t.p

/-- probabilities of the row of `s` sum to one whenever `s` is probabilistic -/
def RowSumOne (s : Nat) : Prop := o.getD s .prob = .prob → psum (tl.getD s []) = 1

variable {o tl}

theorem stepReach_mono {s : Nat} (hp : RowNonneg o tl s) (x y : Array K)
    (h : ∀ j, x.getD j 0 ≤ y.getD j 0) : stepReach o tl x s ≤ stepReach o tl y s := by
  cases ho : o.getD s .prob with
  | p1 => rw [stepReach_p1 o tl x s ho, stepReach_p1 o tl y s ho]
          exact maxOver_mono _ _ _ _ _ le_rfl (fun t _ => h _)
  | p2 => rw [stepReach_p2 o tl x s ho, stepReach_p2 o tl y s ho]
          exact minOver_mono _ _ _ _ _ le_rfl (fun t _ => h _)
  | prob => rw [stepReach_prob o tl x s ho, stepReach_prob o tl y s ho]
            exact sumOver_mono _ _ _ (hp ho) (fun t _ => h _)

theorem stepReach_nonneg {s : Nat} (hp : RowNonneg o tl s) (x : Array K)
    (h : ∀ j, 0 ≤ x.getD j 0) : 0 ≤ stepReach o tl x s := by
  cases ho : o.getD s .prob with
  | p1 => rw [stepReach_p1 o tl x s ho]; exact le_maxOver_init _ _ _
  | p2 => rw [stepReach_p2 o tl x s ho]; exact le_minOver _ _ _ _ zero_le_one (fun t _ => h _)
  | prob =>
    rw [stepReach_prob o tl x s ho]
    have := sumOver_lower x (tl.getD s []) 0 (hp ho) (fun t _ => h _)
    simpa using this

theorem stepReach_le_one {s : Nat} (hp : RowNonneg o tl s) (hs : RowSumOne o tl s) (x : Array K)
    (h : ∀ j, x.getD j 0 ≤ 1) : stepReach o tl x s ≤ 1 := by
  cases ho : o.getD s .prob with
  | p1 => rw [stepReach_p1 o tl x s ho]; exact maxOver_le _ _ _ _ zero_le_one (fun t _ => h _)
  | p2 => rw [stepReach_p2 o tl x s ho]; exact minOver_le_init _ _ _
  | prob =>
    rw [stepReach_prob o tl x s ho]
    have := sumOver_upper x (tl.getD s []) 1 (hp ho) (fun t _ => h _)
    rw [hs ho] at this
    simpa using this

/-- non-expansiveness in the sup norm -/
theorem stepReach_nonexp {s : Nat} (hp : RowNonneg o tl s) (hs : RowSumOne o tl s)
    (x y : Array K) (e : K) (h : ∀ j, |x.getD j 0 - y.getD j 0| ≤ e) :
    |stepReach o tl x s - stepReach o tl y s| ≤ e := by
  have he : 0 ≤ e := le_trans (abs_nonneg _) (h 0)
  cases ho : o.getD s .prob with
  | p1 => rw [stepReach_p1 o tl x s ho, stepReach_p1 o tl y s ho]
          exact maxOver_nonexp _ _ _ _ _ _ (by simpa using he) (fun t _ => h _)
  | p2 => rw [stepReach_p2 o tl x s ho, stepReach_p2 o tl y s ho]
          exact minOver_nonexp _ _ _ _ _ _ (by simpa using he) (fun t _ => h _)
  | prob =>
    rw [stepReach_prob o tl x s ho, stepReach_prob o tl y s ho]
    have := sumOver_nonexp x y (tl.getD s []) e (hp ho) (fun t _ => h _)
    rw [hs ho] at this
    simpa using this

/-- a state all of whose successors have value 0 has step value 0 (a Player-2 state needs a
non-empty row, otherwise its step value is the start value 1 of the running minimum) -/
theorem stepReach_eq_zero {s : Nat} (hp : RowNonneg o tl s)
    (hne : o.getD s .prob = .p2 → tl.getD s [] ≠ []) (x : Array K)
    (h : ∀ t ∈ tl.getD s [], x.getD t.tgt 0 = 0) : stepReach o tl x s = 0 := by
  cases ho : o.getD s .prob with
  | p1 =>
    rw [stepReach_p1 o tl x s ho]
    exact le_antisymm (maxOver_le _ _ _ _ le_rfl (fun t ht => le_of_eq (h t ht)))
      (le_maxOver_init _ _ _)
  | p2 =>
    rw [stepReach_p2 o tl x s ho]
    obtain ⟨t, ht⟩ := List.exists_mem_of_ne_nil _ (hne ho)
    exact le_antisymm (le_trans (minOver_le_mem _ _ _ t ht) (le_of_eq (h t ht)))
      (le_minOver _ _ _ _ zero_le_one (fun t ht => le_of_eq (h t ht).symm))
  | prob =>
    rw [stepReach_prob o tl x s ho]
    have h1 := sumOver_upper x (tl.getD s []) 0 (hp ho) (fun t ht => le_of_eq (h t ht))
    have h2 := sumOver_lower x (tl.getD s []) 0 (hp ho) (fun t ht => le_of_eq (h t ht).symm)
    rw [zero_mul] at h1 h2
    exact le_antisymm h1 h2

/-- outside both arrays the step function is the empty weighted sum -/
theorem stepReach_out_of_range {s : Nat} (ho : o.size ≤ s) (ht : tl.size ≤ s) (x : Array K) :
    stepReach o tl x s = 0 := by
  have h1 : o.getD s .prob = .prob := getD_of_size_le _ _ _ ho
  have h2 : tl.getD s [] = [] := getD_of_size_le _ _ _ ht
  rw [stepReach_prob o tl x s h1, h2]; rfl

end Step

/-! ### the Gauss–Seidel sweep -/

section Sweep
variable (o : Array Owner) (tl : Array (List (Tr K)))

/-- `sweepReach` started from an arbitrary accumulator -/
def sweepFrom (l : List Nat) (acc : Array K × K) : Array K × K :=
  l.foldl (fun (acc : Array K × K) s =>
    let nx := stepReach o tl acc.1 s
    let d := absv (nx - acc.1.getD s 0)
    (acc.1.setIfInBounds s nx, if d > acc.2 then d else acc.2)) acc

theorem sweepReach_eq (l : List Nat) (x : Array K) : sweepReach o tl l x = sweepFrom o tl l (x, 0) :=
  rfl

@[simp] theorem sweepFrom_nil (acc : Array K × K) : sweepFrom o tl [] acc = acc := rfl

theorem sweepFrom_cons (s : Nat) (l : List Nat) (acc : Array K × K) :
    sweepFrom o tl (s :: l) acc =
      sweepFrom o tl l (acc.1.setIfInBounds s (stepReach o tl acc.1 s),
        max acc.2 |stepReach o tl acc.1 s - acc.1.getD s 0|) := by
  unfold sweepFrom
  simp only [List.foldl_cons, absv_eq_abs]
  congr 2
  split_ifs with h
  · exact (max_eq_right (le_of_lt h)).symm
  · exact (max_eq_left (not_lt.mp h)).symm

variable {o tl}

/-- invariant principle for one sweep -/
theorem sweepFrom_inv (P : Array K → Prop) (l : List Nat)
    (hstep : ∀ x s, s ∈ l → P x → P (x.setIfInBounds s (stepReach o tl x s)))
    (acc : Array K × K) (h : P acc.1) : P (sweepFrom o tl l acc).1 := by
  induction l generalizing acc with
  | nil => simpa
  | cons s l ih =>
    rw [sweepFrom_cons]
    exact ih (fun x s' hs' => hstep x s' (List.mem_cons_of_mem _ hs')) _
      (hstep _ s List.mem_cons_self h)

theorem sweepReach_inv (P : Array K → Prop) (l : List Nat)
    (hstep : ∀ x s, s ∈ l → P x → P (x.setIfInBounds s (stepReach o tl x s)))
    (x : Array K) (h : P x) : P (sweepReach o tl l x).1 :=
  sweepFrom_inv P l hstep (x, 0) h

theorem sweepFrom_size (l : List Nat) (acc : Array K × K) :
    (sweepFrom o tl l acc).1.size = acc.1.size :=
  sweepFrom_inv (fun x => x.size = acc.1.size) l (fun x s _ h => by simpa using h) acc rfl

/-- coordinates outside the sweep list are not touched -/
theorem sweepFrom_untouched (l : List Nat) (acc : Array K × K) (j : Nat) (hj : j ∉ l) :
    (sweepFrom o tl l acc).1.getD j 0 = acc.1.getD j 0 :=
  sweepFrom_inv (fun x => x.getD j 0 = acc.1.getD j 0) l (fun x s hs h => by
    rw [getD_setIfInBounds]
    have : s ≠ j := fun e => hj (e ▸ hs)
    simp [this, h]) acc rfl

theorem sweepFrom_diff_ge (l : List Nat) (acc : Array K × K) : acc.2 ≤ (sweepFrom o tl l acc).2 := by
  induction l generalizing acc with
  | nil => simp
  | cons s l ih =>
    rw [sweepFrom_cons]
    exact le_trans (le_max_left _ _) (ih (_, _))

/-- the reported `diff` bounds the change of every coordinate (list without duplicates) -/
theorem sweepFrom_change_le (l : List Nat) (hnd : l.Nodup) (acc : Array K × K) (h0 : 0 ≤ acc.2)
    (j : Nat) : |(sweepFrom o tl l acc).1.getD j 0 - acc.1.getD j 0| ≤ (sweepFrom o tl l acc).2 := by
  induction l generalizing acc with
  | nil => simpa
  | cons s l ih =>
    rw [sweepFrom_cons]
    have hnd' := (List.nodup_cons.mp hnd)
    set acc1 : Array K × K := (acc.1.setIfInBounds s (stepReach o tl acc.1 s),
        max acc.2 |stepReach o tl acc.1 s - acc.1.getD s 0|) with hacc1
    have h01 : 0 ≤ acc1.2 := le_trans h0 (le_max_left _ _)
    have ih' := ih hnd'.2 acc1 h01
    by_cases hsj : s = j ∧ s < acc.1.size
    · obtain ⟨rfl, hlt⟩ := hsj
      rw [sweepFrom_untouched l acc1 s hnd'.1]
      have : acc1.1.getD s 0 = stepReach o tl acc.1 s := by
        rw [hacc1]; simp only []; rw [getD_setIfInBounds]; simp [hlt]
      rw [this]
      exact le_trans (le_max_right _ _) (sweepFrom_diff_ge l acc1)
    · have : acc1.1.getD j 0 = acc.1.getD j 0 := by
        rw [hacc1]; simp only []; rw [getD_setIfInBounds]; simp [hsj]
      rw [← this]; exact ih'

/-- the reported `diff` is attained: it is the start value or the change of a swept coordinate
(list without duplicates; swept indices beyond the array contribute `|0 - 0|`) -/
theorem sweepFrom_diff_attained (l : List Nat) (hnd : l.Nodup) (acc : Array K × K) (h0 : 0 ≤ acc.2)
    (hout : ∀ (x : Array K) s, acc.1.size ≤ s → stepReach o tl x s = 0) :
    (sweepFrom o tl l acc).2 = acc.2 ∨
      ∃ s ∈ l, s < acc.1.size ∧
        (sweepFrom o tl l acc).2 = |(sweepFrom o tl l acc).1.getD s 0 - acc.1.getD s 0| := by
  induction l generalizing acc with
  | nil => simp
  | cons s l ih =>
    rw [sweepFrom_cons]
    have hnd' := (List.nodup_cons.mp hnd)
    set acc1 : Array K × K := (acc.1.setIfInBounds s (stepReach o tl acc.1 s),
        max acc.2 |stepReach o tl acc.1 s - acc.1.getD s 0|) with hacc1
    have hsz : acc1.1.size = acc.1.size := by rw [hacc1]; simp
    have h01 : 0 ≤ acc1.2 := le_trans h0 (le_max_left _ _)
    have hd1 : acc1.2 = acc.2 ∨ (s < acc.1.size ∧
        acc1.2 = |stepReach o tl acc.1 s - acc.1.getD s 0|) := by
      by_cases hs : s < acc.1.size
      · rcases max_choice acc.2 |stepReach o tl acc.1 s - acc.1.getD s 0| with h2 | h2
        · left; rw [hacc1]; exact h2
        · right; exact ⟨hs, by rw [hacc1]; exact h2⟩
      · left
        have hs' : acc.1.size ≤ s := Nat.le_of_not_lt hs
        rw [hacc1]; simp only []
        rw [hout acc.1 s hs', getD_of_size_le _ _ _ hs']
        simpa using h0
    rcases ih hnd'.2 acc1 h01 (fun x s' hs' => hout x s' (by rw [← hsz]; exact hs'))
      with h | ⟨s', hs', hlt', h⟩
    · rcases hd1 with h2 | ⟨hs, h2⟩
      · left; rw [h, h2]
      · right
        refine ⟨s, List.mem_cons_self, hs, ?_⟩
        rw [sweepFrom_untouched l acc1 s hnd'.1, h]
        have : acc1.1.getD s 0 = stepReach o tl acc.1 s := by
          rw [hacc1]; simp only []; rw [getD_setIfInBounds]; simp [hs]
        rw [this, h2]
    · right
      refine ⟨s', List.mem_cons_of_mem _ hs', by rw [← hsz]; exact hlt', ?_⟩
      have hne : s ≠ s' := fun e => hnd'.1 (e ▸ hs')
      have : acc1.1.getD s' 0 = acc.1.getD s' 0 := by
        rw [hacc1]; simp only []; rw [getD_setIfInBounds]; simp [hne]
      rw [← this]; exact h

/-- Bellman residual after a sweep: every swept in-range coordinate of the result is within
the reported `diff` of its own `stepReach` value (needs non-expansiveness, i.e. `Σ p = 1`, `p ≥ 0`) -/
theorem sweepFrom_residual (l : List Nat) (hnd : l.Nodup) (acc : Array K × K) (h0 : 0 ≤ acc.2)
    (s : Nat) (hp : RowNonneg o tl s) (hs1 : RowSumOne o tl s) (hs : s ∈ l)
    (hlt : s < acc.1.size) :
    |stepReach o tl (sweepFrom o tl l acc).1 s - (sweepFrom o tl l acc).1.getD s 0|
      ≤ (sweepFrom o tl l acc).2 := by
  induction l generalizing acc with
  | nil => simp at hs
  | cons s0 l ih =>
    have hnd' := (List.nodup_cons.mp hnd)
    have hchange := sweepFrom_change_le (o := o) (tl := tl) (s0 :: l) hnd acc h0
    rw [sweepFrom_cons] at hchange ⊢
    set acc1 : Array K × K := (acc.1.setIfInBounds s0 (stepReach o tl acc.1 s0),
        max acc.2 |stepReach o tl acc.1 s0 - acc.1.getD s0 0|) with hacc1
    have h01 : 0 ≤ acc1.2 := le_trans h0 (le_max_left _ _)
    have hsz : acc1.1.size = acc.1.size := by rw [hacc1]; simp
    rcases List.mem_cons.mp hs with rfl | hs'
    · rw [sweepFrom_untouched l acc1 s hnd'.1]
      have : acc1.1.getD s 0 = stepReach o tl acc.1 s := by
        rw [hacc1]; simp only []; rw [getD_setIfInBounds]; simp [hlt]
      rw [this]
      exact stepReach_nonexp hp hs1 _ _ _ hchange
    · exact ih hnd'.2 acc1 h01 hs' (by rw [hsz]; exact hlt)

/-! #### sub-solutions: the sweep only increases them -/

/-- `x` is a sub-solution on `ord`: every listed in-range coordinate is at most its step value -/
def SubSol (o : Array Owner) (tl : Array (List (Tr K))) (ord : List Nat) (x : Array K) : Prop :=
  ∀ s ∈ ord, s < x.size → x.getD s 0 ≤ stepReach o tl x s

theorem subSol_step (ord : List Nat) (n : Nat) (hp : ∀ s ∈ ord, s < n → RowNonneg o tl s)
    (x : Array K) (hn : x.size = n) (s : Nat) (hs : s ∈ ord) (h : SubSol o tl ord x) :
    SubSol o tl ord (x.setIfInBounds s (stepReach o tl x s)) ∧
      ∀ j, x.getD j 0 ≤ (x.setIfInBounds s (stepReach o tl x s)).getD j 0 := by
  by_cases hlt : s < x.size
  · have hle : ∀ j, x.getD j 0 ≤ (x.setIfInBounds s (stepReach o tl x s)).getD j 0 := by
      intro j
      rw [getD_setIfInBounds]
      by_cases hc : s = j ∧ s < x.size
      · rw [if_pos hc]; obtain ⟨rfl, _⟩ := hc; exact h s hs hlt
      · rw [if_neg hc]
    refine ⟨?_, hle⟩
    intro s' hs' hlt'
    rw [Array.size_setIfInBounds] at hlt'
    have hmono := stepReach_mono (hp s' hs' (hn ▸ hlt')) _ _ hle
    refine le_trans ?_ hmono
    rw [getD_setIfInBounds]
    by_cases hc : s = s' ∧ s < x.size
    · rw [if_pos hc]; obtain ⟨rfl, _⟩ := hc; exact le_rfl
    · rw [if_neg hc]; exact h s' hs' hlt'
  · rw [Array.setIfInBounds_eq_of_size_le (Nat.le_of_not_lt hlt)]
    exact ⟨h, fun _ => le_rfl⟩

theorem subSol_sweep (ord : List Nat) (n : Nat) (hp : ∀ s ∈ ord, s < n → RowNonneg o tl s)
    (x : Array K) (hn : x.size = n) (h : SubSol o tl ord x) :
    (sweepReach o tl ord x).1.size = n ∧ SubSol o tl ord (sweepReach o tl ord x).1 ∧
      ∀ j, x.getD j 0 ≤ (sweepReach o tl ord x).1.getD j 0 := by
  refine sweepReach_inv
    (fun x' => x'.size = n ∧ SubSol o tl ord x' ∧ ∀ j, x.getD j 0 ≤ x'.getD j 0) ord ?_ x
    ⟨hn, h, fun _ => le_rfl⟩
  intro x' s hs ⟨hn', hsub, hle⟩
  have := subSol_step ord n hp x' hn' s hs hsub
  exact ⟨by simpa using hn', this.1, fun j => le_trans (hle j) (this.2 j)⟩

end Sweep

/-! ### the `while diff > thr` loop -/

section Loop
variable {o : Array Owner} {tl : Array (List (Tr K))}

/-- the vector part of one sweep -/
def sweepVec (o : Array Owner) (tl : Array (List (Tr K))) (ord : List Nat) (x : Array K) : Array K :=
  (sweepReach o tl ord x).1

/-- an `.ok` result of the loop is an iterate of the sweep; the loop either never ran or the
last sweep reported a `diff` that is not above the threshold -/
theorem viReach_spec (ord : List Nat) (thr : K) (fuel : Nat) (diff : K) (x : Array K) (i : Nat)
    (r : Array K × Nat) (h : viReach o tl ord thr fuel diff x i = .ok r) :
    ∃ k, r.2 = i + k ∧ r.1 = (sweepVec o tl ord)^[k] x ∧
      ((k = 0 ∧ ¬ diff > thr) ∨
        ∃ k', k = k' + 1 ∧ diff > thr ∧
          ¬ (sweepReach o tl ord ((sweepVec o tl ord)^[k'] x)).2 > thr) := by
  induction fuel generalizing diff x i with
  | zero =>
    unfold viReach at h
    split_ifs at h with hd
    injection h with h; subst h
    exact ⟨0, rfl, rfl, Or.inl ⟨rfl, hd⟩⟩
  | succ fuel ih =>
    unfold viReach at h
    split_ifs at h with hd
    · obtain ⟨k, hk1, hk2, hk3⟩ := ih _ _ _ h
      refine ⟨k + 1, by omega, ?_, Or.inr ?_⟩
      · rw [hk2, Function.iterate_succ_apply]; rfl
      · rcases hk3 with ⟨rfl, hnd⟩ | ⟨k', rfl, _, hnd⟩
        · exact ⟨0, rfl, hd, hnd⟩
        · refine ⟨k' + 1, rfl, hd, ?_⟩
          rw [Function.iterate_succ_apply]; exact hnd
    · injection h with h; subst h
      exact ⟨0, rfl, rfl, Or.inl ⟨rfl, hd⟩⟩

theorem iterate_inv {β : Type} (P : β → Prop) (f : β → β) (hf : ∀ x, P x → P (f x)) (k : Nat)
    (x : β) (hx : P x) : P (f^[k] x) := by
  induction k generalizing x with
  | zero => simpa
  | succ k ih => rw [Function.iterate_succ_apply]; exact ih _ (hf x hx)

/-- invariant principle for the loop -/
theorem viReach_inv (P : Array K → Prop) (ord : List Nat)
    (hsweep : ∀ x, P x → P (sweepVec o tl ord x)) (thr : K) (fuel : Nat) (diff : K)
    (x : Array K) (i : Nat) (r : Array K × Nat) (hx : P x)
    (h : viReach o tl ord thr fuel diff x i = .ok r) : P r.1 := by
  obtain ⟨k, _, hk, _⟩ := viReach_spec ord thr fuel diff x i r h
  rw [hk]
  exact iterate_inv P _ hsweep k x hx

end Loop

/-! ### the search order -/

theorem not_final_of_mem_reverseDfs (tl : List (List Nat)) (finals : List Nat) (s : Nat)
    (h : s ∈ reverseDfs tl finals) : s ∉ finals := by
  unfold reverseDfs at h
  simp only [List.mem_mergeSort, List.mem_filter] at h
  simpa using h.2

theorem dfsLoop_nodup (rev : Array (List Nat)) (stack acc : List Nat) (h : acc.Nodup) :
    (dfsLoop rev stack acc).Nodup := by
  induction stack, acc using dfsLoop.induct rev with
  | case1 acc => unfold dfsLoop; exact h
  | case2 acc s rest hc ih => unfold dfsLoop; rw [if_pos hc]; exact ih h
  | case3 acc s rest hc ih =>
    unfold dfsLoop; rw [if_neg hc]
    exact ih (List.nodup_cons.mpr ⟨by simpa using hc, h⟩)

theorem reverseDfs_nodup (tl : List (List Nat)) (finals : List Nat) :
    (reverseDfs tl finals).Nodup := by
  unfold reverseDfs
  have hall : ∀ (fs acc : List Nat), acc.Nodup →
      (fs.foldl (fun acc f => dfsLoop (revTable tl) [f] acc) acc).Nodup := by
    intro fs
    induction fs with
    | nil => intro acc h; simpa
    | cons f fs ih => intro acc h; exact ih _ (dfsLoop_nodup _ _ _ h)
  exact ((List.mergeSort_perm _ _).nodup_iff).mpr ((hall finals [] List.nodup_nil).filter _)

/-! ### what `.ok` of `solveReach` says -/

theorem checkGame_ok (g : Game K) (h : checkGame g = .ok ()) :
    g.tl.size = g.owners.size ∧ ∀ f ∈ g.finals, f < g.owners.size := by
  unfold checkGame at h
  simp only [bind, Except.bind, pure, Except.pure, throw, throwThe, MonadExceptOf.throw] at h
  split_ifs at h with h1 h2 h3 h4
  · split at h <;> simp at h
  · split at h <;> simp at h
  · refine ⟨by simpa using h1, fun f hf => ?_⟩
    simp only [List.any_eq_true, decide_eq_true_eq, not_exists, not_and] at h4
    exact Nat.lt_of_not_ge (h4 f hf)

theorem initStates_ok (g : Game K) (h : initStates g = .ok ()) :
    ∀ row ∈ g.tl, row ≠ [] := by
  unfold initStates at h
  simp only [bind, Except.bind, pure, Except.pure, throw, throwThe, MonadExceptOf.throw] at h
  split at h
  · exact absurd h (by simp)
  · split_ifs at h with h1
    intro row hr he
    apply h1
    simp only [Array.any_eq_true]
    obtain ⟨i, hi, hrow⟩ := Array.mem_iff_getElem.mp hr
    exact ⟨i, hi, by simp [hrow, he]⟩

/-- the initial vector: 1 on final states, 0 elsewhere -/
def initVec (g : Game K) : Array K :=
  (Array.range g.owners.size).map (fun s => if g.finals.contains s then 1 else 0)

theorem initVec_size (g : Game K) : (initVec g).size = g.owners.size := by simp [initVec]

theorem getD_initVec (g : Game K) (s : Nat) :
    (initVec g).getD s 0 = if s < g.owners.size ∧ g.finals.contains s then 1 else 0 := by
  unfold initVec
  by_cases h : s < g.owners.size
  · simp [Array.getD, h]
  · simp [Array.getD, h]

/-- the search order of the game -/
def gameOrder (g : Game K) : List Nat :=
  reverseDfs (g.tl.toList.map (fun row => row.map (·.tgt))) g.finals

theorem solveReach_ok {rnd : K → Int} {thr : K} {fuel : Nat} {prune : Bool} {g : Game K}
    {r : ReachOut K} (H : solveReach rnd thr fuel prune g = .ok r) :
    checkGame g = .ok () ∧ initStates g = .ok () ∧ r.order = gameOrder g ∧
      viReach g.owners g.tl (gameOrder g) thr fuel 1 (initVec g) 0 = .ok (r.probs, r.iters) := by
  unfold solveReach at H
  simp only [bind, Except.bind] at H
  split at H
  · exact absurd H (by simp)
  · rename_i u hcg
    split at H
    · exact absurd H (by simp)
    · rename_i u' his
      split at H
      · exact absurd H (by simp)
      · rename_i res hvi
        obtain ⟨reach, i⟩ := res
        split_ifs at H
        · simp only [pure, Except.pure] at H
          injection H with H
          subst H
          exact ⟨hcg, his, rfl, hvi⟩

end CR.VI
