/-
Helper lemmas for property C03 (conditioning on reachability: `prune_reachability`,
`prune_paths`, `prune_states`).  The property theorems themselves are in `CR.Props.C03`.
-/
import CR.Model.Solver
import Mathlib.Logic.Relation
import Mathlib.Data.List.Forall2
import Mathlib.Algebra.Order.Field.Basic
import Mathlib.Algebra.BigOperators.Group.List.Basic
import Mathlib.Tactic.Linarith

set_option linter.unusedSectionVars false
set_option linter.unusedSimpArgs false

namespace CR

/-! ### `mapM` in `Except` over lists -/

theorem mapM_except_ok {ε β γ : Type} (f : β → Except ε γ) :
    ∀ (l : List β) (out : List γ), l.mapM f = .ok out →
      List.Forall₂ (fun x y => f x = .ok y) l out := by
  intro l
  induction l with
  | nil =>
    intro out h
    rw [List.mapM_nil] at h
    cases h
    exact List.Forall₂.nil
  | cons a l ih =>
    intro out h
    rw [List.mapM_cons] at h
    cases hfa : f a with
    | error e => rw [hfa] at h; cases h
    | ok y =>
      rw [hfa] at h
      cases hl : l.mapM f with
      | error e => rw [hl] at h; cases h
      | ok ys =>
        rw [hl] at h
        cases h
        exact List.Forall₂.cons hfa (ih ys hl)

theorem mapM_except_error {ε β γ : Type} (f : β → Except ε γ) :
    ∀ (l : List β) (e : ε), l.mapM f = .error e → ∃ x ∈ l, f x = .error e := by
  intro l
  induction l with
  | nil => intro e h; rw [List.mapM_nil] at h; cases h
  | cons a l ih =>
    intro e h
    rw [List.mapM_cons] at h
    cases hfa : f a with
    | error e' =>
      rw [hfa] at h; cases h
      exact ⟨a, List.mem_cons_self, hfa⟩
    | ok y =>
      rw [hfa] at h
      cases hl : l.mapM f with
      | error e' =>
        rw [hl] at h; cases h
        obtain ⟨x, hx, hfx⟩ := ih e hl
        exact ⟨x, List.mem_cons_of_mem _ hx, hfx⟩
      | ok ys => rw [hl] at h; cases h

theorem forall₂_range {γ : Type} {R : Nat → γ → Prop} :
    ∀ (n : Nat) (out : List γ), List.Forall₂ R (List.range n) out →
      out.length = n ∧ ∀ i (h : i < out.length), R i out[i] := by
  intro n out h
  have hlen := h.length_eq
  rw [List.length_range] at hlen
  refine ⟨hlen.symm, ?_⟩
  intro i hi
  have := List.forall₂_iff_get.mp h
  have h2 := this.2 i (by rw [List.length_range]; omega) hi
  simpa using h2


/-! ### specification of the conditioned rows -/
section
variable {α : Type} [Add α] [Sub α] [Div α] [BEq α] [OfNat α 0] [OfNat α 1]

def dead (reach : Array α) (t : Tr α) : Bool := reach.getD t.tgt 0 == 0

def removedMass (reach : Array α) (row : List (Tr α)) : α :=
  ((row.filter (dead reach)).map (·.p)).foldl (· + ·) 0

def condRow (g : Game α) (strat : Array Strat) (reach : Array α) (s : Nat) : List (Tr α) :=
  let row := g.tl.getD s []
  match g.owners.getD s .prob with
  | .p2 => row
  | .p1 => (row.filter (fun t => ((strat.getD s none).getD []).contains t.act)).filter
              (fun t => !dead reach t)
  | .prob =>
      let live := row.filter (fun t => !dead reach t)
      if live.length = row.length then row
      else live.map (fun t => { t with p := t.p / (1 - removedMass reach row) })

theorem foldl_removed (reach : Array α) (row : List (Tr α)) (a : α) :
    row.foldl (fun acc t => if reach.getD t.tgt 0 == 0 then acc + t.p else acc) a
      = ((row.filter (dead reach)).map (·.p)).foldl (· + ·) a := by
  induction row generalizing a with
  | nil => rfl
  | cons t r ih =>
    by_cases h : dead reach t = true
    · have h' : (reach.getD t.tgt 0 == 0) = true := h
      simp only [List.foldl_cons, List.filter_cons, h, h', if_true, List.map_cons, ih]
    · have h' : ¬ (reach.getD t.tgt 0 == 0) = true := h
      simp only [List.foldl_cons, List.filter_cons, h, h', Bool.false_eq_true, if_false, ih]

/-- the probabilistic branch of `condRow` -/
def condProb (reach : Array α) (row : List (Tr α)) : List (Tr α) :=
  let live := row.filter (fun t => !dead reach t)
  if live.length = row.length then row
  else live.map (fun t => { t with p := t.p / (1 - removedMass reach row) })

theorem prunePathsProb_eq (reach : Array α) (row : List (Tr α)) :
    prunePathsProb reach row =
      if (row.filter (fun t => !dead reach t)).length = row.length then .ok row
      else if !(row.filter (fun t => !dead reach t)).isEmpty && ((1 : α) - removedMass reach row == 0)
        then .error .zeroDiv
      else .ok (condProb reach row) := by
  unfold prunePathsProb
  rw [foldl_removed]
  simp only [ne_eq, ite_not]
  by_cases hl : (row.filter (fun t => !dead reach t)).length = row.length
  · have hl' : (row.filter (fun t => !(reach.getD t.tgt 0 == 0))).length = row.length := hl
    rw [if_pos hl, if_pos hl']
  · have hl' : ¬ (row.filter (fun t => !(reach.getD t.tgt 0 == 0))).length = row.length := hl
    rw [if_neg hl, if_neg hl']
    unfold condProb
    rw [if_neg hl]
    rfl


theorem condProb_of_eq {reach : Array α} {row : List (Tr α)}
    (hl : (row.filter (fun t => !dead reach t)).length = row.length) :
    condProb reach row = row := by
  unfold condProb; rw [if_pos hl]

theorem prunePathsProb_ok {reach : Array α} {row out : List (Tr α)}
    (h : prunePathsProb reach row = .ok out) : out = condProb reach row := by
  rw [prunePathsProb_eq] at h
  by_cases hl : (row.filter (fun t => !dead reach t)).length = row.length
  · rw [if_pos hl] at h
    rw [condProb_of_eq hl]
    exact (Except.ok.inj h).symm
  · rw [if_neg hl] at h
    by_cases hz : (!(row.filter (fun t => !dead reach t)).isEmpty
        && ((1 : α) - removedMass reach row == 0)) = true
    · rw [if_pos hz] at h; exact absurd h (by simp)
    · rw [if_neg hz] at h; exact (Except.ok.inj h).symm

theorem prunePathsProb_error {reach : Array α} {row : List (Tr α)} {e : Err}
    (h : prunePathsProb reach row = .error e) :
    e = .zeroDiv ∧ (row.filter (fun t => !dead reach t)).length ≠ row.length ∧
      (row.filter (fun t => !dead reach t)).isEmpty = false ∧
      ((1 : α) - removedMass reach row == 0) = true := by
  rw [prunePathsProb_eq] at h
  by_cases hl : (row.filter (fun t => !dead reach t)).length = row.length
  · rw [if_pos hl] at h; exact absurd h (by simp)
  · rw [if_neg hl] at h
    by_cases hz : (!(row.filter (fun t => !dead reach t)).isEmpty
        && ((1 : α) - removedMass reach row == 0)) = true
    · rw [if_pos hz] at h
      rw [Bool.and_eq_true, Bool.not_eq_true'] at hz
      exact ⟨(Except.error.inj h).symm, hl, hz.1, hz.2⟩
    · rw [if_neg hz] at h; exact absurd h (by simp)

/-! ### `prune_reachability` and `prune_paths` row by row -/

/-- the per-state function mapped by `prunePaths` -/
def pruneRow (owners : Array Owner) (reach : Array α) (nodes : Array (List (Tr α))) (s : Nat) :
    Except Err (List (Tr α)) :=
  let row := nodes.getD s []
  match owners.getD s .prob with
  | .p1 => .ok (prunePathsP1 reach row)
  | .prob => prunePathsProb reach row
  | .p2 => .ok row

theorem prunePaths_eq (owners : Array Owner) (reach : Array α) (nodes : Array (List (Tr α))) :
    prunePaths owners reach nodes
      = List.toArray <$> (List.range nodes.size).mapM (pruneRow owners reach nodes) := by
  unfold prunePaths
  rw [Array.mapM_eq_mapM_toList, Array.toList_range]
  rfl

theorem getD_toArray {γ : Type} (l : List γ) (i : Nat) (d : γ) (h : i < l.length) :
    l.toArray.getD i d = l[i] := by
  simp [Array.getD, h]

theorem getD_of_lt {γ : Type} (a : Array γ) (i : Nat) (d : γ) (h : i < a.size) :
    a.getD i d = a[i] := by
  simp [Array.getD, h]

theorem getD_of_ge {γ : Type} (a : Array γ) (i : Nat) (d : γ) (h : a.size ≤ i) :
    a.getD i d = d := by
  simp [Array.getD, Nat.not_lt.mpr h]

theorem prunePaths_ok {owners : Array Owner} {reach : Array α} {nodes out : Array (List (Tr α))}
    (h : prunePaths owners reach nodes = .ok out) :
    out.size = nodes.size ∧
      ∀ s, s < nodes.size → pruneRow owners reach nodes s = .ok (out.getD s []) := by
  rw [prunePaths_eq] at h
  cases hl : (List.range nodes.size).mapM (pruneRow owners reach nodes) with
  | error e => rw [hl] at h; cases h
  | ok ys =>
    rw [hl] at h
    cases h
    obtain ⟨hlen, hget⟩ := forall₂_range _ _ (mapM_except_ok _ _ _ hl)
    refine ⟨by simpa using hlen, ?_⟩
    intro s hs
    rw [getD_toArray _ _ _ (by omega)]
    exact hget s (by omega)

theorem prunePaths_error {owners : Array Owner} {reach : Array α} {nodes : Array (List (Tr α))}
    {e : Err} (h : prunePaths owners reach nodes = .error e) :
    ∃ s, s < nodes.size ∧ pruneRow owners reach nodes s = .error e := by
  rw [prunePaths_eq] at h
  cases hl : (List.range nodes.size).mapM (pruneRow owners reach nodes) with
  | error e' =>
    rw [hl] at h; cases h
    obtain ⟨x, hx, hfx⟩ := mapM_except_error _ _ _ hl
    exact ⟨x, List.mem_range.mp hx, hfx⟩
  | ok ys => rw [hl] at h; cases h

theorem pruneReachability_size (owners : Array Owner) (strat : Array Strat)
    (nodes : Array (List (Tr α))) : (pruneReachability owners strat nodes).size = nodes.size := by
  unfold pruneReachability
  exact Array.size_mapIdx

theorem pruneReachability_getD (owners : Array Owner) (strat : Array Strat)
    (nodes : Array (List (Tr α))) (s : Nat) :
    (pruneReachability owners strat nodes).getD s [] =
      match owners.getD s .prob with
      | .p1 => (nodes.getD s []).filter (fun t => ((strat.getD s none).getD []).contains t.act)
      | _ => nodes.getD s [] := by
  by_cases hs : s < nodes.size
  · rw [getD_of_lt _ _ _ (by rw [pruneReachability_size]; exact hs), getD_of_lt _ _ _ hs]
    unfold pruneReachability
    rw [Array.getElem_mapIdx]
    cases owners.getD s .prob <;> rfl
  · have hs' : nodes.size ≤ s := Nat.le_of_not_lt hs
    rw [getD_of_ge _ _ _ (by rw [pruneReachability_size]; exact hs'), getD_of_ge _ _ _ hs']
    cases owners.getD s .prob <;> rfl

/-- what `check_game` guarantees about the two per-state lists -/
def Shape (g : Game α) : Prop := g.tl.size = g.owners.size

theorem condRow_of_ge {g : Game α} (hg : Shape g) (strat : Array Strat) (reach : Array α)
    {s : Nat} (hs : g.owners.size ≤ s) : condRow g strat reach s = [] := by
  unfold condRow
  rw [getD_of_ge _ _ _ (by rw [hg]; exact hs), getD_of_ge _ _ _ hs]
  rfl

/-- the array produced by `prune_reachability` followed by `prune_paths` is `condRow` row by row -/
theorem base_eq {g : Game α} (hg : Shape g) {strat : Array Strat} {reach : Array α}
    {base : Array (List (Tr α))}
    (h : prunePaths g.owners reach (pruneReachability g.owners strat g.tl) = .ok base) :
    base.size = g.owners.size ∧ ∀ s, base.getD s [] = condRow g strat reach s := by
  obtain ⟨hsz, hrow⟩ := prunePaths_ok h
  rw [pruneReachability_size] at hsz hrow
  refine ⟨hsz.trans hg, ?_⟩
  intro s
  by_cases hs : s < g.tl.size
  · have h1 := hrow s hs
    unfold pruneRow at h1
    rw [pruneReachability_getD] at h1
    unfold condRow
    cases ho : g.owners.getD s .prob with
    | p2 =>
      rw [ho] at h1
      simp only at h1 ⊢
      exact (Except.ok.inj h1).symm
    | p1 =>
      rw [ho] at h1
      simp only at h1 ⊢
      exact (Except.ok.inj h1).symm
    | prob =>
      rw [ho] at h1
      simp only at h1 ⊢
      rw [← prunePathsProb_ok h1]
      rfl
  · have hs' : g.owners.size ≤ s := by rw [← hg]; exact Nat.le_of_not_lt hs
    rw [condRow_of_ge hg _ _ hs', getD_of_ge _ _ _ (by rw [hsz, hg]; exact hs')]

/-- `prunePaths` can only fail with `zeroDiv` -/
theorem prunePaths_error_zeroDiv {owners : Array Owner} {reach : Array α}
    {nodes : Array (List (Tr α))} {e : Err} (h : prunePaths owners reach nodes = .error e) :
    e = .zeroDiv := by
  obtain ⟨s, _, hs⟩ := prunePaths_error h
  unfold pruneRow at hs
  cases ho : owners.getD s .prob with
  | p1 => rw [ho] at hs; cases hs
  | p2 => rw [ho] at hs; cases hs
  | prob =>
    rw [ho] at hs
    simp only at hs
    exact (prunePathsProb_error hs).1

--CONT
end
end CR
