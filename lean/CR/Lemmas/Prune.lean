/-
Helper lemmas for property C03 (conditioning on reachability: `prune_reachability`,
`prune_paths`, `prune_states`).  The property theorems themselves are in `CR.Props.C03`.
-/
import CR.Model.Solver
import Mathlib.Logic.Relation
import Mathlib.Data.List.Forall2
import Mathlib.Algebra.Order.Field.Basic
import Mathlib.Algebra.BigOperators.Group.List.Basic
import Mathlib.Algebra.Order.BigOperators.Group.List
import Mathlib.Tactic.Ring
import Mathlib.Tactic.Linarith

set_option linter.unusedSectionVars false
set_option linter.unusedSimpArgs false

namespace CR

deriving instance DecidableEq for Tr
deriving instance DecidableEq for Except

/-! ### `mapM` in `Except` over lists -/

theorem mapM_except_ok {ε β γ : Type} (f : β → Except ε γ) :
    ∀ (l : List β) (out : List γ), l.mapM f = .ok out →
      List.Forall₂ (fun x y => f x = .ok y) l out := by
  intro l
  induction l with
  | nil =>
    intro out h
    rw [List.mapM_nil] at h
    cases h
    exact List.Forall₂.nil
  | cons a l ih =>
    intro out h
    rw [List.mapM_cons] at h
    cases hfa : f a with
    | error e => rw [hfa] at h; cases h
    | ok y =>
      rw [hfa] at h
      cases hl : l.mapM f with
      | error e => rw [hl] at h; cases h
      | ok ys =>
        rw [hl] at h
        cases h
        exact List.Forall₂.cons hfa (ih ys hl)

theorem mapM_except_error {ε β γ : Type} (f : β → Except ε γ) :
    ∀ (l : List β) (e : ε), l.mapM f = .error e → ∃ x ∈ l, f x = .error e := by
  intro l
  induction l with
  | nil => intro e h; rw [List.mapM_nil] at h; cases h
  | cons a l ih =>
    intro e h
    rw [List.mapM_cons] at h
    cases hfa : f a with
    | error e' =>
      rw [hfa] at h; cases h
      exact ⟨a, List.mem_cons_self, hfa⟩
    | ok y =>
      rw [hfa] at h
      cases hl : l.mapM f with
      | error e' =>
        rw [hl] at h; cases h
        obtain ⟨x, hx, hfx⟩ := ih e hl
        exact ⟨x, List.mem_cons_of_mem _ hx, hfx⟩
      | ok ys => rw [hl] at h; cases h

theorem forall₂_range {γ : Type} {R : Nat → γ → Prop} :
    ∀ (n : Nat) (out : List γ), List.Forall₂ R (List.range n) out →
      out.length = n ∧ ∀ i (h : i < out.length), R i out[i] := by
  intro n out h
  have hlen := h.length_eq
  rw [List.length_range] at hlen
  refine ⟨hlen.symm, ?_⟩
  intro i hi
  have := List.forall₂_iff_get.mp h
  have h2 := this.2 i (by rw [List.length_range]; omega) hi
  simpa using h2


/-! ### specification of the conditioned rows -/
section
variable {α : Type} [Add α] [Sub α] [Div α] [BEq α] [OfNat α 0] [OfNat α 1]

def dead (reach : Array α) (t : Tr α) : Bool := reach.getD t.tgt 0 == 0

/-- the total surviving probability, as Python's `sum(probability for probability, _ in
kept_states)` computes it: start from 0, add left to right -/
def keptMass (reach : Array α) (row : List (Tr α)) : α :=
  (row.filter (fun t => !dead reach t)).foldl (fun acc t => acc + t.p) 0

def condRow (g : Game α) (strat : Array Strat) (reach : Array α) (s : Nat) : List (Tr α) :=
  let row := g.tl.getD s []
  match g.owners.getD s .prob with
  | .p2 => row
  | .p1 => (row.filter (fun t => ((strat.getD s none).getD []).contains t.act)).filter
              (fun t => !dead reach t)
  | .prob =>
      let live := row.filter (fun t => !dead reach t)
      if live.length = row.length then row
      else live.map (fun t => { t with p := t.p / (live.foldl (fun acc t => acc + t.p) 0) })

theorem keptMass_def (reach : Array α) (row : List (Tr α)) :
    keptMass reach row
      = (row.filter (fun t => !dead reach t)).foldl (fun acc t => acc + t.p) 0 := rfl

/-- the probabilistic branch of `condRow` -/
def condProb (reach : Array α) (row : List (Tr α)) : List (Tr α) :=
  let live := row.filter (fun t => !dead reach t)
  if live.length = row.length then row
  else live.map (fun t => { t with p := t.p / keptMass reach row })

theorem prunePathsProb_eq (reach : Array α) (row : List (Tr α)) :
    prunePathsProb reach row =
      if (row.filter (fun t => !dead reach t)).length = row.length then .ok row
      else if !(row.filter (fun t => !dead reach t)).isEmpty && (keptMass reach row == 0)
        then .error .zeroDiv
      else .ok (condProb reach row) := by
  unfold prunePathsProb
  simp only [ne_eq, ite_not]
  by_cases hl : (row.filter (fun t => !dead reach t)).length = row.length
  · have hl' : (row.filter (fun t => !(reach.getD t.tgt 0 == 0))).length = row.length := hl
    rw [if_pos hl, if_pos hl']
  · have hl' : ¬ (row.filter (fun t => !(reach.getD t.tgt 0 == 0))).length = row.length := hl
    rw [if_neg hl, if_neg hl']
    unfold condProb
    rw [if_neg hl]
    rfl


theorem condProb_of_eq {reach : Array α} {row : List (Tr α)}
    (hl : (row.filter (fun t => !dead reach t)).length = row.length) :
    condProb reach row = row := by
  unfold condProb; rw [if_pos hl]

theorem prunePathsProb_ok {reach : Array α} {row out : List (Tr α)}
    (h : prunePathsProb reach row = .ok out) : out = condProb reach row := by
  rw [prunePathsProb_eq] at h
  by_cases hl : (row.filter (fun t => !dead reach t)).length = row.length
  · rw [if_pos hl] at h
    rw [condProb_of_eq hl]
    exact (Except.ok.inj h).symm
  · rw [if_neg hl] at h
    by_cases hz : (!(row.filter (fun t => !dead reach t)).isEmpty
        && (keptMass reach row == 0)) = true
    · rw [if_pos hz] at h; exact absurd h (by simp)
    · rw [if_neg hz] at h; exact (Except.ok.inj h).symm

theorem prunePathsProb_error {reach : Array α} {row : List (Tr α)} {e : Err}
    (h : prunePathsProb reach row = .error e) :
    e = .zeroDiv ∧ (row.filter (fun t => !dead reach t)).length ≠ row.length ∧
      (row.filter (fun t => !dead reach t)).isEmpty = false ∧
      (keptMass reach row == 0) = true := by
  rw [prunePathsProb_eq] at h
  by_cases hl : (row.filter (fun t => !dead reach t)).length = row.length
  · rw [if_pos hl] at h; exact absurd h (by simp)
  · rw [if_neg hl] at h
    by_cases hz : (!(row.filter (fun t => !dead reach t)).isEmpty
        && (keptMass reach row == 0)) = true
    · rw [if_pos hz] at h
      rw [Bool.and_eq_true, Bool.not_eq_true'] at hz
      exact ⟨(Except.error.inj h).symm, hl, hz.1, hz.2⟩
    · rw [if_neg hz] at h; exact absurd h (by simp)

/-! ### `prune_reachability` and `prune_paths` row by row -/

/-- the per-state function mapped by `prunePaths` -/
def pruneRow (owners : Array Owner) (reach : Array α) (nodes : Array (List (Tr α))) (s : Nat) :
    Except Err (List (Tr α)) :=
  let row := nodes.getD s []
  match owners.getD s .prob with
  | .p1 => .ok (prunePathsP1 reach row)
  | .prob => prunePathsProb reach row
  | .p2 => .ok row

theorem prunePaths_eq (owners : Array Owner) (reach : Array α) (nodes : Array (List (Tr α))) :
    prunePaths owners reach nodes
      = List.toArray <$> (List.range nodes.size).mapM (pruneRow owners reach nodes) := by
  unfold prunePaths
  rw [Array.mapM_eq_mapM_toList, Array.toList_range]
  rfl

theorem getD_toArray {γ : Type} (l : List γ) (i : Nat) (d : γ) (h : i < l.length) :
    l.toArray.getD i d = l[i] := by
  simp [Array.getD, h]

theorem getD_of_lt {γ : Type} (a : Array γ) (i : Nat) (d : γ) (h : i < a.size) :
    a.getD i d = a[i] := by
  simp [Array.getD, h]

theorem getD_of_ge {γ : Type} (a : Array γ) (i : Nat) (d : γ) (h : a.size ≤ i) :
    a.getD i d = d := by
  simp [Array.getD, Nat.not_lt.mpr h]

theorem prunePaths_ok {owners : Array Owner} {reach : Array α} {nodes out : Array (List (Tr α))}
    (h : prunePaths owners reach nodes = .ok out) :
    out.size = nodes.size ∧
      ∀ s, s < nodes.size → pruneRow owners reach nodes s = .ok (out.getD s []) := by
  rw [prunePaths_eq] at h
  cases hl : (List.range nodes.size).mapM (pruneRow owners reach nodes) with
  | error e => rw [hl] at h; cases h
  | ok ys =>
    rw [hl] at h
    cases h
    obtain ⟨hlen, hget⟩ := forall₂_range _ _ (mapM_except_ok _ _ _ hl)
    refine ⟨by simpa using hlen, ?_⟩
    intro s hs
    rw [getD_toArray _ _ _ (by omega)]
    exact hget s (by omega)

theorem prunePaths_error {owners : Array Owner} {reach : Array α} {nodes : Array (List (Tr α))}
    {e : Err} (h : prunePaths owners reach nodes = .error e) :
    ∃ s, s < nodes.size ∧ pruneRow owners reach nodes s = .error e := by
  rw [prunePaths_eq] at h
  cases hl : (List.range nodes.size).mapM (pruneRow owners reach nodes) with
  | error e' =>
    rw [hl] at h; cases h
    obtain ⟨x, hx, hfx⟩ := mapM_except_error _ _ _ hl
    exact ⟨x, List.mem_range.mp hx, hfx⟩
  | ok ys => rw [hl] at h; cases h

theorem pruneReachability_size (owners : Array Owner) (strat : Array Strat)
    (nodes : Array (List (Tr α))) : (pruneReachability owners strat nodes).size = nodes.size := by
  unfold pruneReachability
  exact Array.size_mapIdx

theorem pruneReachability_getD (owners : Array Owner) (strat : Array Strat)
    (nodes : Array (List (Tr α))) (s : Nat) :
    (pruneReachability owners strat nodes).getD s [] =
      match owners.getD s .prob with
      | .p1 => (nodes.getD s []).filter (fun t => ((strat.getD s none).getD []).contains t.act)
      | _ => nodes.getD s [] := by
  by_cases hs : s < nodes.size
  · rw [getD_of_lt _ _ _ (by rw [pruneReachability_size]; exact hs), getD_of_lt _ _ _ hs]
    unfold pruneReachability
    rw [Array.getElem_mapIdx]
    cases owners.getD s .prob <;> rfl
  · have hs' : nodes.size ≤ s := Nat.le_of_not_lt hs
    rw [getD_of_ge _ _ _ (by rw [pruneReachability_size]; exact hs'), getD_of_ge _ _ _ hs']
    cases owners.getD s .prob <;> rfl

/-- what `check_game` guarantees about the two per-state lists -/
def Shape (g : Game α) : Prop := g.tl.size = g.owners.size

theorem condRow_of_ge {g : Game α} (hg : Shape g) (strat : Array Strat) (reach : Array α)
    {s : Nat} (hs : g.owners.size ≤ s) : condRow g strat reach s = [] := by
  unfold condRow
  rw [getD_of_ge _ _ _ (by rw [hg]; exact hs), getD_of_ge _ _ _ hs]
  rfl

/-- the array produced by `prune_reachability` followed by `prune_paths` is `condRow` row by row -/
theorem base_eq {g : Game α} (hg : Shape g) {strat : Array Strat} {reach : Array α}
    {base : Array (List (Tr α))}
    (h : prunePaths g.owners reach (pruneReachability g.owners strat g.tl) = .ok base) :
    base.size = g.owners.size ∧ ∀ s, base.getD s [] = condRow g strat reach s := by
  obtain ⟨hsz, hrow⟩ := prunePaths_ok h
  rw [pruneReachability_size] at hsz hrow
  refine ⟨hsz.trans hg, ?_⟩
  intro s
  by_cases hs : s < g.tl.size
  · have h1 := hrow s hs
    unfold pruneRow at h1
    rw [pruneReachability_getD] at h1
    unfold condRow
    cases ho : g.owners.getD s .prob with
    | p2 =>
      rw [ho] at h1
      simp only at h1 ⊢
      exact (Except.ok.inj h1).symm
    | p1 =>
      rw [ho] at h1
      simp only at h1 ⊢
      exact (Except.ok.inj h1).symm
    | prob =>
      rw [ho] at h1
      simp only at h1 ⊢
      exact prunePathsProb_ok h1
  · have hs' : g.owners.size ≤ s := by rw [← hg]; exact Nat.le_of_not_lt hs
    rw [condRow_of_ge hg _ _ hs', getD_of_ge _ _ _ (by rw [hsz, hg]; exact hs')]

/-- `prunePaths` can only fail with `zeroDiv` -/
theorem prunePaths_error_zeroDiv {owners : Array Owner} {reach : Array α}
    {nodes : Array (List (Tr α))} {e : Err} (h : prunePaths owners reach nodes = .error e) :
    e = .zeroDiv := by
  obtain ⟨s, _, hs⟩ := prunePaths_error h
  unfold pruneRow at hs
  cases ho : owners.getD s .prob with
  | p1 => rw [ho] at hs; cases hs
  | p2 => rw [ho] at hs; cases hs
  | prob =>
    rw [ho] at hs
    simp only at hs
    exact (prunePathsProb_error hs).1

/-! ### one round of `prune_states` -/

/-- the `targets` list of `pruneStatesRound` -/
def tgts (nodes : Array (List (Tr α))) : List Nat :=
  0 :: (nodes.toList.flatMap (fun row => row.map (·.tgt)))

/-- `isCleared` of `pruneStatesRound` -/
def cleared (owners : Array Owner) (nodes : Array (List (Tr α))) (s : Nat) : Bool :=
  (owners.getD s .prob != .p1) && !((tgts nodes).contains s)

/-- `isDeadP1` of `pruneStatesRound` -/
def deadP1 (owners : Array Owner) (nodes : Array (List (Tr α))) (s : Nat) : Bool :=
  (owners.getD s .prob == .p1) && (nodes.getD s []).isEmpty && !((tgts nodes).contains s)

theorem pruneStatesRound_eq (owners : Array Owner) (nodes : Array (List (Tr α))) :
    pruneStatesRound owners nodes =
      (nodes.mapIdx (fun s row => if cleared owners nodes s then [] else row),
       (List.range nodes.size).filter (fun s => cleared owners nodes s || deadP1 owners nodes s)) :=
  rfl

theorem round_size (owners : Array Owner) (nodes : Array (List (Tr α))) :
    (pruneStatesRound owners nodes).1.size = nodes.size := by
  rw [pruneStatesRound_eq]; exact Array.size_mapIdx

theorem round_getD (owners : Array Owner) (nodes : Array (List (Tr α))) (s : Nat) :
    (pruneStatesRound owners nodes).1.getD s [] =
      if cleared owners nodes s then [] else nodes.getD s [] := by
  by_cases hs : s < nodes.size
  · rw [getD_of_lt _ _ _ (by rw [round_size]; exact hs), getD_of_lt _ _ _ hs]
    simp only [pruneStatesRound_eq]
    rw [Array.getElem_mapIdx]
  · have hs' : nodes.size ≤ s := Nat.le_of_not_lt hs
    rw [getD_of_ge _ _ _ (by rw [round_size]; exact hs'), getD_of_ge _ _ _ hs']
    simp

theorem mem_tgts {nodes : Array (List (Tr α))} {s : Nat} :
    s ∈ tgts nodes ↔ s = 0 ∨ ∃ u, ∃ t ∈ nodes.getD u [], t.tgt = s := by
  unfold tgts
  rw [List.mem_cons, List.mem_flatMap]
  constructor
  · rintro (h | ⟨row, hrow, hs⟩)
    · exact Or.inl h
    · right
      rw [Array.mem_toList_iff] at hrow
      obtain ⟨u, hu, rfl⟩ := Array.getElem_of_mem hrow
      obtain ⟨t, ht, rfl⟩ := List.mem_map.mp hs
      exact ⟨u, t, by rw [getD_of_lt _ _ _ hu]; exact ht, rfl⟩
  · rintro (h | ⟨u, t, ht, rfl⟩)
    · exact Or.inl h
    · right
      by_cases hu : u < nodes.size
      · rw [getD_of_lt _ _ _ hu] at ht
        exact ⟨nodes[u], by rw [Array.mem_toList_iff]; exact Array.getElem_mem hu,
          List.mem_map.mpr ⟨t, ht, rfl⟩⟩
      · rw [getD_of_ge _ _ _ (Nat.le_of_not_lt hu)] at ht
        exact absurd ht List.not_mem_nil

theorem cleared_iff {owners : Array Owner} {nodes : Array (List (Tr α))} {s : Nat} :
    cleared owners nodes s = true ↔ owners.getD s .prob ≠ .p1 ∧ s ∉ tgts nodes := by
  unfold cleared
  simp

theorem deadP1_iff {owners : Array Owner} {nodes : Array (List (Tr α))} {s : Nat} :
    deadP1 owners nodes s = true ↔
      owners.getD s .prob = .p1 ∧ nodes.getD s [] = [] ∧ s ∉ tgts nodes := by
  unfold deadP1
  simp [and_assoc]

theorem tgts_round_subset {owners : Array Owner} {nodes : Array (List (Tr α))} {s : Nat}
    (h : s ∈ tgts (pruneStatesRound owners nodes).1) : s ∈ tgts nodes := by
  rw [mem_tgts] at h ⊢
  rcases h with h | ⟨u, t, ht, hs⟩
  · exact Or.inl h
  · right
    rw [round_getD] at ht
    by_cases hc : cleared owners nodes u = true
    · rw [if_pos hc] at ht; exact absurd ht List.not_mem_nil
    · rw [if_neg hc] at ht; exact ⟨u, t, ht, hs⟩

/-! ### the invariant of the `prune_states` loop -/

/-- edge relation of the graph whose successor lists are given by `R` -/
def RowEdge (R : Nat → List (Tr α)) (u v : Nat) : Prop := ∃ t ∈ R u, t.tgt = v

/-- every row is either intact or it was emptied, is not Player 1's and is unreachable from 0 -/
def Inv (R : Nat → List (Tr α)) (owners : Array Owner) (nodes : Array (List (Tr α))) : Prop :=
  ∀ s, nodes.getD s [] = R s ∨
    (nodes.getD s [] = [] ∧ owners.getD s .prob ≠ .p1 ∧
      ¬ Relation.ReflTransGen (RowEdge R) 0 s)

theorem round_inv {R : Nat → List (Tr α)} {owners : Array Owner} {nodes : Array (List (Tr α))}
    (h : Inv R owners nodes) : Inv R owners (pruneStatesRound owners nodes).1 := by
  intro s
  rw [round_getD]
  by_cases hc : cleared owners nodes s = true
  · rw [if_pos hc]
    obtain ⟨hown, hnot⟩ := cleared_iff.mp hc
    right
    refine ⟨rfl, hown, ?_⟩
    intro hreach
    rcases Relation.ReflTransGen.cases_tail hreach with h0 | ⟨u, hu, t, ht, hts⟩
    · apply hnot; rw [mem_tgts]; exact Or.inl h0
    · apply hnot
      rw [mem_tgts]
      right
      rcases h u with hi | ⟨_, _, hnr⟩
      · exact ⟨u, t, by rw [hi]; exact ht, hts⟩
      · exact absurd hu hnr
  · rw [if_neg hc]; exact h s

theorem pruneStates_inv {R : Nat → List (Tr α)} {owners : Array Owner} :
    ∀ (fuel : Nat) (prev : List Nat) (nodes out : Array (List (Tr α))),
      Inv R owners nodes → pruneStates owners fuel prev nodes = .ok out →
      Inv R owners out ∧ out.size = nodes.size := by
  intro fuel
  induction fuel with
  | zero => intro prev nodes out _ h; exact absurd h (by simp [pruneStates])
  | succ fuel ih =>
    intro prev nodes out hinv h
    unfold pruneStates at h
    simp only at h
    by_cases hs : sameSet (pruneStatesRound owners nodes).2 prev = true
    · rw [if_pos hs] at h
      rw [← Except.ok.inj h]
      exact ⟨round_inv hinv, round_size _ _⟩
    · rw [if_neg hs] at h
      have := ih _ _ _ (round_inv hinv) h
      exact ⟨this.1, this.2.trans (round_size _ _)⟩

/-! ### `condition` -/

/-- edge relation of the conditioned graph (before the clearing of unreachable states) -/
def CondEdge (g : Game α) (strat : Array Strat) (reach : Array α) (u v : Nat) : Prop :=
  ∃ t ∈ condRow g strat reach u, t.tgt = v

theorem condition_true_eq (g : Game α) (strat : Array Strat) (reach : Array α) :
    condition true g strat reach =
      (prunePaths g.owners reach (pruneReachability g.owners strat g.tl) >>= fun nodes =>
        pruneStates g.owners (g.owners.size + 2) [] nodes) := rfl

theorem condition_false_eq (g : Game α) (strat : Array Strat) (reach : Array α) :
    condition false g strat reach = .ok (pruneReachability g.owners strat g.tl) := rfl

theorem condition_ok_split {g : Game α} {strat : Array Strat} {reach : Array α}
    {nodes : Array (List (Tr α))} (h : condition true g strat reach = .ok nodes) :
    ∃ base, prunePaths g.owners reach (pruneReachability g.owners strat g.tl) = .ok base ∧
      pruneStates g.owners (g.owners.size + 2) [] base = .ok nodes := by
  rw [condition_true_eq] at h
  cases hb : prunePaths g.owners reach (pruneReachability g.owners strat g.tl) with
  | error e => rw [hb] at h; exact absurd h (by simp [bind, Except.bind])
  | ok base => rw [hb] at h; exact ⟨base, rfl, h⟩

/-- the core of C03: size is kept, and each row is `condRow` or was emptied legitimately -/
theorem condition_spec {g : Game α} (hg : Shape g) {strat : Array Strat} {reach : Array α}
    {nodes : Array (List (Tr α))} (h : condition true g strat reach = .ok nodes) :
    nodes.size = g.owners.size ∧ Inv (condRow g strat reach) g.owners nodes := by
  obtain ⟨base, hb, hp⟩ := condition_ok_split h
  obtain ⟨hsz, hrow⟩ := base_eq hg hb
  have hinv : Inv (condRow g strat reach) g.owners base := fun s => Or.inl (hrow s)
  obtain ⟨h1, h2⟩ := pruneStates_inv _ _ _ _ hinv hp
  exact ⟨h2.trans hsz, h1⟩

theorem dead_map_p (reach : Array α) (t : Tr α) (x : α) :
    dead reach { t with p := x } = dead reach t := rfl

/-- no transition of a `condRow` of a Player-1 or probabilistic state is dead -/
theorem condRow_no_dead {g : Game α} {strat : Array Strat} {reach : Array α} {s : Nat}
    (ho : g.owners.getD s .prob ≠ .p2) {t : Tr α} (ht : t ∈ condRow g strat reach s) :
    dead reach t = false := by
  unfold condRow at ht
  cases hown : g.owners.getD s .prob with
  | p2 => exact absurd hown ho
  | p1 =>
    rw [hown] at ht
    simp only at ht
    have := (List.mem_filter.mp ht).2
    simpa using this
  | prob =>
    rw [hown] at ht
    simp only at ht
    by_cases hl : (List.filter (fun t => !dead reach t) (g.tl.getD s [])).length
        = (g.tl.getD s []).length
    · rw [if_pos hl] at ht
      have hall := List.length_filter_eq_length_iff.mp hl
      simpa using hall t ht
    · rw [if_neg hl] at ht
      obtain ⟨t', ht', rfl⟩ := List.mem_map.mp ht
      have := (List.mem_filter.mp ht').2
      rw [dead_map_p]
      simpa using this

theorem condRow_p2 {g : Game α} {strat : Array Strat} {reach : Array α} {s : Nat}
    (ho : g.owners.getD s .prob = .p2) : condRow g strat reach s = g.tl.getD s [] := by
  unfold condRow; rw [ho]

theorem condRow_p1 {g : Game α} {strat : Array Strat} {reach : Array α} {s : Nat}
    (ho : g.owners.getD s .prob = .p1) :
    condRow g strat reach s =
      ((g.tl.getD s []).filter (fun t => ((strat.getD s none).getD []).contains t.act)).filter
        (fun t => !dead reach t) := by
  unfold condRow; rw [ho]

theorem condRow_prob {g : Game α} {strat : Array Strat} {reach : Array α} {s : Nat}
    (ho : g.owners.getD s .prob = .prob) :
    condRow g strat reach s = condProb reach (g.tl.getD s []) := by
  unfold condRow; rw [ho]; rfl

/-- a live transition (strategy-permitted, for Player 1) of the original row has a counterpart,
same action and target, in `condRow` -/
theorem condRow_keeps_live {g : Game α} {strat : Array Strat} {reach : Array α} {s : Nat}
    {t : Tr α} (ht : t ∈ g.tl.getD s []) (hlive : dead reach t = false)
    (hperm : g.owners.getD s .prob = .p1 →
      ((strat.getD s none).getD []).contains t.act = true) :
    ∃ t' ∈ condRow g strat reach s, t'.act = t.act ∧ t'.tgt = t.tgt := by
  cases ho : g.owners.getD s .prob with
  | p2 => rw [condRow_p2 ho]; exact ⟨t, ht, rfl, rfl⟩
  | p1 =>
    rw [condRow_p1 ho]
    refine ⟨t, ?_, rfl, rfl⟩
    rw [List.mem_filter, List.mem_filter]
    exact ⟨⟨ht, hperm ho⟩, by rw [hlive]; rfl⟩
  | prob =>
    rw [condRow_prob ho]
    unfold condProb
    by_cases hl : (List.filter (fun t => !dead reach t) (g.tl.getD s [])).length
        = (g.tl.getD s []).length
    · rw [if_pos hl]; exact ⟨t, ht, rfl, rfl⟩
    · rw [if_neg hl]
      refine ⟨_, List.mem_map.mpr ⟨t, ?_, rfl⟩, rfl, rfl⟩
      rw [List.mem_filter]
      exact ⟨ht, by rw [hlive]; rfl⟩

/-! ### termination of the `prune_states` loop within the fuel -/

theorem mem_round_set {owners : Array Owner} {nodes : Array (List (Tr α))} {s : Nat} :
    s ∈ (pruneStatesRound owners nodes).2 ↔
      s < nodes.size ∧ (cleared owners nodes s = true ∨ deadP1 owners nodes s = true) := by
  rw [pruneStatesRound_eq]
  simp only [List.mem_filter, List.mem_range, Bool.or_eq_true]

/-- the set of cleared / dead states only grows from one round to the next -/
theorem round_set_mono {owners : Array Owner} {nodes : Array (List (Tr α))} {s : Nat}
    (h : s ∈ (pruneStatesRound owners nodes).2) :
    s ∈ (pruneStatesRound owners (pruneStatesRound owners nodes).1).2 := by
  rw [mem_round_set] at h ⊢
  obtain ⟨hs, hc⟩ := h
  refine ⟨by rw [round_size]; exact hs, ?_⟩
  rcases hc with hc | hd
  · left
    obtain ⟨ho, ht⟩ := cleared_iff.mp hc
    exact cleared_iff.mpr ⟨ho, fun h' => ht (tgts_round_subset h')⟩
  · right
    obtain ⟨ho, he, ht⟩ := deadP1_iff.mp hd
    refine deadP1_iff.mpr ⟨ho, ?_, fun h' => ht (tgts_round_subset h')⟩
    rw [round_getD]
    by_cases hc : cleared owners nodes s = true
    · rw [if_pos hc]
    · rw [if_neg hc]; exact he

theorem filter_length_lt {l : List Nat} {p q : Nat → Bool} (hpq : ∀ x, p x = true → q x = true)
    {x : Nat} (hx : x ∈ l) (hqx : q x = true) (hpx : p x = false) :
    (l.filter p).length < (l.filter q).length := by
  induction l with
  | nil => exact absurd hx List.not_mem_nil
  | cons a l ih =>
    have hle : (l.filter p).length ≤ (l.filter q).length := by
      rw [← List.countP_eq_length_filter, ← List.countP_eq_length_filter]
      exact List.countP_mono_left (fun y _ => hpq y)
    rcases List.mem_cons.mp hx with rfl | hx'
    · rw [List.filter_cons_of_pos hqx, List.filter_cons_of_neg (by simp [hpx])]
      simp only [List.length_cons]
      omega
    · have := ih hx'
      by_cases hpa : p a = true
      · rw [List.filter_cons_of_pos hpa, List.filter_cons_of_pos (hpq a hpa)]
        simp only [List.length_cons]; omega
      · rw [List.filter_cons_of_neg hpa]
        by_cases hqa : q a = true
        · rw [List.filter_cons_of_pos hqa]; simp only [List.length_cons]; omega
        · rw [List.filter_cons_of_neg hqa]; exact this

theorem not_sameSet {a b : List Nat} (hba : ∀ s ∈ b, s ∈ a) (h : ¬ sameSet a b = true) :
    ∃ s ∈ a, s ∉ b := by
  unfold sameSet at h
  by_contra hcon
  apply h
  rw [Bool.and_eq_true, List.all_eq_true, List.all_eq_true]
  constructor
  · intro s hs
    rw [List.contains_iff_mem]
    by_contra hsb
    exact hcon ⟨s, hs, hsb⟩
  · intro s hs
    rw [List.contains_iff_mem]
    exact hba s hs

theorem pruneStates_total {owners : Array Owner} :
    ∀ (fuel : Nat) (prev : List Nat) (nodes : Array (List (Tr α))),
      (∀ s ∈ prev, s ∈ (pruneStatesRound owners nodes).2) →
      ((List.range nodes.size).filter (fun s => !prev.contains s)).length < fuel →
      ∃ out, pruneStates owners fuel prev nodes = .ok out := by
  intro fuel
  induction fuel with
  | zero => intro prev nodes _ h; exact absurd h (Nat.not_lt_zero _)
  | succ fuel ih =>
    intro prev nodes hsub hlt
    unfold pruneStates
    simp only
    by_cases hs : sameSet (pruneStatesRound owners nodes).2 prev = true
    · rw [if_pos hs]; exact ⟨_, rfl⟩
    · rw [if_neg hs]
      apply ih
      · intro s hs'; exact round_set_mono hs'
      · obtain ⟨x, hx, hxp⟩ := not_sameSet hsub hs
        rw [round_size]
        have hxlt : x < nodes.size := (mem_round_set.mp hx).1
        have : ((List.range nodes.size).filter
              (fun s => !(pruneStatesRound owners nodes).2.contains s)).length
            < ((List.range nodes.size).filter (fun s => !prev.contains s)).length := by
          apply filter_length_lt (x := x)
          · intro y hy
            have hy' : y ∉ (pruneStatesRound owners nodes).2 := by simpa using hy
            have : y ∉ prev := fun hyp => hy' (hsub y hyp)
            simpa using this
          · exact List.mem_range.mpr hxlt
          · simpa using hxp
          · simpa using hx
        omega

theorem pruneStates_total_init (owners : Array Owner) (nodes : Array (List (Tr α))) :
    ∃ out, pruneStates owners (nodes.size + 2) [] nodes = .ok out := by
  apply pruneStates_total
  · intro s hs; exact absurd hs List.not_mem_nil
  · have : ((List.range nodes.size).filter (fun s => !([] : List Nat).contains s)).length
        ≤ (List.range nodes.size).length := List.length_filter_le _ _
    rw [List.length_range] at this
    omega

/-- `condition true` succeeds as soon as `prune_paths` does: `prune_states` never runs out of
fuel `n + 2` -/
theorem condition_total_of_prunePaths {g : Game α} (hg : Shape g) {strat : Array Strat}
    {reach : Array α} {base : Array (List (Tr α))}
    (hb : prunePaths g.owners reach (pruneReachability g.owners strat g.tl) = .ok base) :
    ∃ nodes, condition true g strat reach = .ok nodes := by
  rw [condition_true_eq, hb]
  have hsz : base.size = g.owners.size := (base_eq hg hb).1
  rw [← hsz]
  exact pruneStates_total_init g.owners base

end

/-! ### probabilistic rows over an ordered field -/

section OrderedField
variable {K : Type} [Field K] [LinearOrder K] [IsStrictOrderedRing K]

theorem foldl_add_eq_sum (l : List K) (a : K) : l.foldl (· + ·) a = a + l.sum := by
  induction l generalizing a with
  | nil => simp
  | cons x l ih => rw [List.foldl_cons, ih, List.sum_cons, add_assoc]

theorem foldl_add_p_eq_sum (l : List (Tr K)) (a : K) :
    l.foldl (fun acc t => acc + t.p) a = a + (l.map (·.p)).sum := by
  induction l generalizing a with
  | nil => simp
  | cons x l ih => rw [List.foldl_cons, ih, List.map_cons, List.sum_cons, add_assoc]

/-- Python's left-to-right `sum` of the surviving probabilities is their sum -/
theorem keptMass_eq_sum (reach : Array K) (row : List (Tr K)) :
    keptMass reach row = ((row.filter (fun t => !dead reach t)).map (·.p)).sum := by
  unfold keptMass
  rw [foldl_add_p_eq_sum, zero_add]

theorem sum_filter_split (q : Tr K → Bool) (row : List (Tr K)) :
    (row.map (·.p)).sum =
      ((row.filter q).map (·.p)).sum + ((row.filter (fun t => !q t)).map (·.p)).sum := by
  induction row with
  | nil => simp
  | cons t r ih =>
    by_cases h : q t = true
    · rw [List.filter_cons_of_pos h, List.filter_cons_of_neg (by simp [h])]
      simp only [List.map_cons, List.sum_cons]
      rw [ih]; ring
    · rw [List.filter_cons_of_neg h, List.filter_cons_of_pos (by simpa using h)]
      simp only [List.map_cons, List.sum_cons]
      rw [ih]; ring

/-- the old renormalisation constant `1 - removed` (`removed` = the total probability of the dead
transitions) is the total surviving probability when the row sums to 1: on distributions the
previous and the present `prune_paths` agree -/
theorem one_sub_removedMass (reach : Array K) {row : List (Tr K)}
    (hsum : (row.map (·.p)).sum = 1) :
    1 - ((row.filter (dead reach)).map (·.p)).sum = keptMass reach row := by
  rw [keptMass_eq_sum, ← hsum, sum_filter_split (dead reach) row]
  ring

theorem live_sum_pos_of_live (reach : Array K) {row : List (Tr K)}
    (hpos : ∀ t ∈ row, dead reach t = false → 0 < t.p)
    (hne : row.filter (fun t => !dead reach t) ≠ []) :
    0 < ((row.filter (fun t => !dead reach t)).map (·.p)).sum := by
  apply List.sum_pos
  · intro x hx
    obtain ⟨t, ht, rfl⟩ := List.mem_map.mp hx
    obtain ⟨h1, h2⟩ := List.mem_filter.mp ht
    exact hpos t h1 (by simpa using h2)
  · intro h; exact hne (List.map_eq_nil_iff.mp h)

theorem live_sum_pos (reach : Array K) {row : List (Tr K)} (hpos : ∀ t ∈ row, 0 < t.p)
    (hne : row.filter (fun t => !dead reach t) ≠ []) :
    0 < ((row.filter (fun t => !dead reach t)).map (·.p)).sum :=
  live_sum_pos_of_live reach (fun t ht _ => hpos t ht) hne

theorem sum_map_div (l : List (Tr K)) (c : K) :
    (l.map (fun t => t.p / c)).sum = (l.map (·.p)).sum / c := by
  induction l with
  | nil => simp
  | cons t l ih => simp only [List.map_cons, List.sum_cons, ih, add_div]

/-- when something was removed, the conditioned probabilistic row is: survivors in place, original
probability divided by the total surviving probability — whatever the row sums to -/
theorem condProb_field_of_removed (reach : Array K) {row : List (Tr K)}
    (hl : (row.filter (fun t => !dead reach t)).length ≠ row.length) :
    condProb reach row =
      (row.filter (fun t => !dead reach t)).map (fun t =>
        { t with p := t.p / ((row.filter (fun t => !dead reach t)).map (·.p)).sum }) := by
  unfold condProb
  rw [if_neg hl, keptMass_eq_sum]

/-- the conditioned probabilistic row: survivors in place, original probability divided by the
total surviving probability (`hsum` is used only when nothing was removed: the row is then kept
verbatim) -/
theorem condProb_field (reach : Array K) {row : List (Tr K)}
    (hsum : (row.map (·.p)).sum = 1) :
    condProb reach row =
      (row.filter (fun t => !dead reach t)).map (fun t =>
        { t with p := t.p / ((row.filter (fun t => !dead reach t)).map (·.p)).sum }) := by
  by_cases hl : (row.filter (fun t => !dead reach t)).length = row.length
  · rw [condProb_of_eq hl]
    have hfe : row.filter (fun t => !dead reach t) = row :=
      List.filter_eq_self.mpr (List.length_filter_eq_length_iff.mp hl)
    rw [hfe, hsum]
    have : (fun t : Tr K => ({ t with p := t.p / 1 } : Tr K)) = id := by
      funext t; cases t; simp
    rw [this, List.map_id]
  · exact condProb_field_of_removed reach hl

/-- when something was removed, the new probabilities sum to 1 as soon as the surviving total is
not zero -/
theorem condProb_sum_one_of_removed (reach : Array K) {row : List (Tr K)}
    (hl : (row.filter (fun t => !dead reach t)).length ≠ row.length)
    (hne0 : ((row.filter (fun t => !dead reach t)).map (·.p)).sum ≠ 0) :
    ((condProb reach row).map (·.p)).sum = 1 := by
  rw [condProb_field_of_removed reach hl, List.map_map]
  show ((row.filter (fun t => !dead reach t)).map (fun t => t.p / _)).sum = 1
  rw [sum_map_div]
  exact div_self hne0

theorem condProb_sum_one (reach : Array K) {row : List (Tr K)} (hpos : ∀ t ∈ row, 0 < t.p)
    (hsum : (row.map (·.p)).sum = 1) (hne : row.filter (fun t => !dead reach t) ≠ []) :
    ((condProb reach row).map (·.p)).sum = 1 := by
  rw [condProb_field reach hsum, List.map_map]
  have := live_sum_pos reach hpos hne
  show ((row.filter (fun t => !dead reach t)).map (fun t => t.p / _)).sum = 1
  rw [sum_map_div]
  exact div_self (ne_of_gt this)

/-- `prune_paths` cannot divide by zero when the surviving probabilities are positive -/
theorem prunePathsProb_pos (reach : Array K) {row : List (Tr K)}
    (hpos : ∀ t ∈ row, dead reach t = false → 0 < t.p) :
    prunePathsProb reach row = .ok (condProb reach row) := by
  cases h : prunePathsProb reach row with
  | ok out => rw [prunePathsProb_ok h]
  | error e =>
    exfalso
    obtain ⟨_, _, hne, hz⟩ := prunePathsProb_error h
    have hne' : row.filter (fun t => !dead reach t) ≠ [] := by
      intro h0; rw [h0] at hne; simp at hne
    have := live_sum_pos_of_live reach hpos hne'
    rw [beq_iff_eq, keptMass_eq_sum] at hz
    exact absurd hz (ne_of_gt this)

theorem prunePathsProb_field (reach : Array K) {row : List (Tr K)} (hpos : ∀ t ∈ row, 0 < t.p)
    (_hsum : (row.map (·.p)).sum = 1) :
    prunePathsProb reach row = .ok (condProb reach row) :=
  prunePathsProb_pos reach (fun t ht _ => hpos t ht)

/-- hypothesis of D/E on a game: every probabilistic row is a positive distribution -/
def ProbRowsOK (g : Game K) : Prop :=
  ∀ s, s < g.owners.size → g.owners.getD s .prob = .prob →
    (∀ t ∈ g.tl.getD s [], 0 < t.p) ∧ ((g.tl.getD s []).map (·.p)).sum = 1

/-- `prune_paths` succeeds on a game whose probabilistic rows have positive probabilities
(they need not sum to 1) -/
theorem prunePaths_pos {g : Game K} (hg : Shape g) {reach : Array K}
    (hrows : ∀ s, s < g.owners.size → g.owners.getD s .prob = .prob →
      ∀ t ∈ g.tl.getD s [], dead reach t = false → 0 < t.p)
    (strat : Array Strat) :
    ∃ base, prunePaths g.owners reach (pruneReachability g.owners strat g.tl) = .ok base := by
  cases h : prunePaths g.owners reach (pruneReachability g.owners strat g.tl) with
  | ok base => exact ⟨base, rfl⟩
  | error e =>
    exfalso
    obtain ⟨s, hs, he⟩ := prunePaths_error h
    rw [pruneReachability_size, hg] at hs
    unfold pruneRow at he
    rw [pruneReachability_getD] at he
    cases ho : g.owners.getD s .prob with
    | p1 => rw [ho] at he; exact absurd he (by simp)
    | p2 => rw [ho] at he; exact absurd he (by simp)
    | prob =>
      rw [ho] at he
      simp only at he
      rw [prunePathsProb_pos reach (hrows s hs ho)] at he
      exact absurd he (by simp)

theorem prunePaths_field {g : Game K} (hg : Shape g) (hrows : ProbRowsOK g)
    (strat : Array Strat) (reach : Array K) :
    ∃ base, prunePaths g.owners reach (pruneReachability g.owners strat g.tl) = .ok base :=
  prunePaths_pos hg (fun s hs ho t ht _ => (hrows s hs ho).1 t ht) strat

end OrderedField
end CR
