/-
Concrete data for the non-vacuity examples of `CR.Props.C13Rew`: a five-state game `exH` over
`Rat`, a re-presentation `exH'` of it (states 1 and 2 swapped, three rows reordered, every action
prefixed with `z_`), and the two runs of `solve` on them (threshold 0, pruning on).

`exH`: 0 Player 1 (`l` to 1, `r` to 2), 1 probabilistic (1/2 to the final state 3, 1/2 to the
sink 4), 2 Player 2 (`u` to 3, `d` to 1), 3 final and absorbing, 4 an absorbing sink; state
rewards 1, 2, 3, 0, 0.  Reachability values 1/2, 1/2, 1/2, 1, 0.  Conditioning removes the
transition 1 → 4 (renormalised: 1 → 3 with probability 1) and empties the dead sink 4.  The
conditioned lists are ranked (3 absorbing; ranks 2, 0, 1 for the states 0, 1, 2); expected rewards
4, 2, 3, 0, 0; final strategies `r` at state 0 and `u` at state 2.
-/
import CR.Lemmas.EquivRewPrune
import CR.Props.C13
import CR.Props.C05Ranked

set_option linter.unusedSectionVars false

namespace CR.Present.Examples

open CR CR.VI CR.Rew CR.C06 CR.Rank CR.Present CR.C13 CR.Examples

def exH : Game Rat where
  rewards := #[1, 2, 3, 0, 0]
  owners := #[.p1, .prob, .p2, .prob, .prob]
  tl := #[[⟨"l", 0, 1⟩, ⟨"r", 0, 2⟩], [⟨"a", 1/2, 3⟩, ⟨"a", 1/2, 4⟩],
          [⟨"u", 0, 3⟩, ⟨"d", 0, 1⟩], [⟨"a", 1, 3⟩], [⟨"a", 1, 4⟩]]
  finals := [3]

/-- `exH` with states 1 and 2 swapped (`exπ`), the rows of (old) states 0, 1, 2 reordered, and
every action prefixed with `z_` (`exρ`) -/
def exH' : Game Rat where
  rewards := #[1, 3, 2, 0, 0]
  owners := #[.p1, .p2, .prob, .prob, .prob]
  tl := #[[⟨"z_r", 0, 1⟩, ⟨"z_l", 0, 2⟩], [⟨"z_d", 0, 2⟩, ⟨"z_u", 0, 3⟩],
          [⟨"z_a", 1/2, 4⟩, ⟨"z_a", 1/2, 3⟩], [⟨"z_a", 1, 3⟩], [⟨"z_a", 1, 4⟩]]
  finals := [3]

theorem five {P : Nat → Prop} (h0 : P 0) (h1 : P 1) (h2 : P 2) (h3 : P 3) (h4 : P 4) :
    ∀ s < 5, P s := by
  intro s hs
  have : s = 0 ∨ s = 1 ∨ s = 2 ∨ s = 3 ∨ s = 4 := by omega
  rcases this with rfl | rfl | rfl | rfl | rfl <;> assumption

theorem exH_presents : Presents exπ exρ exH exH' where
  n_owners := rfl
  n_tl := rfl
  n_rewards := rfl
  maps := five (by decide) (by decide) (by decide) (by decide) (by decide)
  inj := by
    refine five ?_ ?_ ?_ ?_ ?_ <;> refine five ?_ ?_ ?_ ?_ ?_ <;> decide
  fix0 := rfl
  owners := five rfl rfl rfl rfl rfl
  rewards := five rfl rfl rfl rfl rfl
  rows := by
    refine five ?_ ?_ ?_ ?_ ?_
    · exact List.Perm.swap _ _ _
    · exact List.Perm.swap _ _ _
    · exact List.Perm.swap _ _ _
    · exact List.Perm.refl _
    · exact List.Perm.refl _
  finals := five (by decide) (by decide) (by decide) (by decide) (by decide)
  ρ_inj := fun _ _ hab => (String.append_right_inj "z_").mp hab

theorem exH_wf : C01.WF exH := by
  refine ⟨rfl, five ?_ ?_ ?_ ?_ ?_, five ?_ ?_ ?_ ?_ ?_⟩ <;> simp [exH]
  norm_num

/-! ### the pair `exG`, `exG'` of `CR.Props.C13` -/

theorem four {P : Nat → Prop} (h0 : P 0) (h1 : P 1) (h2 : P 2) (h3 : P 3) : ∀ s < 4, P s := by
  intro s hs
  have : s = 0 ∨ s = 1 ∨ s = 2 ∨ s = 3 := by omega
  rcases this with rfl | rfl | rfl | rfl <;> assumption

/-- the transition lists of `exG'` are those of `exG` re-presented (states 1 and 2 swapped, the
rows of states 0 and 1 reordered, all actions renamed) -/
theorem exG_rewRel :
    RewRel exπ exρ exG.owners exG'.owners exG.rewards exG'.rewards exG.tl exG'.tl where
  n_owners := rfl
  maps := four (by decide) (by decide) (by decide) (by decide)
  inj := by
    refine four ?_ ?_ ?_ ?_ <;> refine four ?_ ?_ ?_ ?_ <;> decide
  owners := four rfl rfl rfl rfl
  rewards := four rfl rfl rfl rfl
  rows := by
    refine four ?_ ?_ ?_ ?_
    · exact List.Perm.swap _ _ _
    · exact List.Perm.swap _ _ _
    · exact List.Perm.refl _
    · exact List.Perm.refl _
  tgt := by
    refine four ?_ ?_ ?_ ?_ <;> simp [exG]

/-! ### the two runs -/

theorem exH_ord : reverseDfs (exH.tl.toList.map (fun row => row.map (·.tgt))) exH.finals
    = [0, 1, 2] := by
  have hrev : revTable (exH.tl.toList.map (fun row => row.map (·.tgt)))
      = #[[], [0, 2], [0], [1, 2, 3], [1, 4]] := by decide +kernel
  unfold reverseDfs
  rw [hrev]
  simp [exH, dfsLoop, List.mergeSort]

theorem exH'_ord : reverseDfs (exH'.tl.toList.map (fun row => row.map (·.tgt))) exH'.finals
    = [0, 1, 2] := by
  have hrev : revTable (exH'.tl.toList.map (fun row => row.map (·.tgt)))
      = #[[], [0], [0, 1], [1, 2, 3], [2, 4]] := by decide +kernel
  unfold reverseDfs
  rw [hrev]
  simp [exH', dfsLoop, List.mergeSort]

/-- the conditioned lists of `exH` (pruning on) -/
def exHnodes : Array (List (Tr Rat)) :=
  #[[⟨"l", 0, 1⟩, ⟨"r", 0, 2⟩], [⟨"a", 1, 3⟩], [⟨"u", 0, 3⟩, ⟨"d", 0, 1⟩], [⟨"a", 1, 3⟩],
    []]

/-- the conditioned lists of `exH'` (pruning on) -/
def exHnodes' : Array (List (Tr Rat)) :=
  #[[⟨"z_r", 0, 1⟩, ⟨"z_l", 0, 2⟩], [⟨"z_d", 0, 2⟩, ⟨"z_u", 0, 3⟩], [⟨"z_a", 1, 3⟩],
    [⟨"z_a", 1, 3⟩], []]

set_option synthInstance.maxSize 400 in
theorem exH_run_aux : ∃ out, solve (roundRat 6) (0 : Rat) 10 true exH = .ok out ∧
    ((out.rewards, out.probs), (out.nodes, out.finalStrat)) =
      ((#[4, 2, 3, 0, 0], #[1/2, 1/2, 1/2, 1, 0]),
        (exHnodes, #[some ["r"], none, some ["u"], none, none])) :=
  exists_ok_of_toOption_map (by unfold solve solveReach; rw [exH_ord]; decide +kernel)

set_option synthInstance.maxSize 400 in
theorem exH'_run_aux : ∃ out, solve (roundRat 6) (0 : Rat) 10 true exH' = .ok out ∧
    ((out.rewards, out.probs), (out.nodes, out.finalStrat)) =
      ((#[4, 3, 2, 0, 0], #[1/2, 1/2, 1/2, 1, 0]),
        (exHnodes', #[some ["z_r"], some ["z_u"], none, none, none])) :=
  exists_ok_of_toOption_map (by unfold solve solveReach; rw [exH'_ord]; decide +kernel)

/-- ranks of the conditioned lists `exHnodes`: `0 → {1, 2}`, `2 → {3, 1}`, `1 → 3`; state 3 is
absorbing, the dead sink 4 has lost its self-loop (emptied by `prune_paths`) -/
def rkH : Nat → Nat := fun s => if s = 0 then 2 else if s = 2 then 1 else 0

theorem exH_abs3 : Absorbing exH.owners exH.rewards exHnodes 3 :=
  ⟨rfl, rfl, ⟨"a", 1, 3⟩, rfl, rfl, rfl⟩

theorem exH_ranked : Ranked exH.owners exH.rewards exHnodes rkH 2 := by
  refine ⟨fun s _ => by unfold rkH; split_ifs <;> omega, ?_⟩
  intro s hs hna t ht
  have hs' : s < 5 := hs
  have : s = 0 ∨ s = 1 ∨ s = 2 ∨ s = 3 ∨ s = 4 := by omega
  rcases this with rfl | rfl | rfl | rfl | rfl
  · simp [exHnodes] at ht
    rcases ht with rfl | rfl <;> exact ⟨by decide, Or.inr (by decide)⟩
  · simp [exHnodes] at ht; subst ht; exact ⟨by decide, Or.inl exH_abs3⟩
  · simp [exHnodes] at ht
    rcases ht with rfl | rfl
    · exact ⟨by decide, Or.inl exH_abs3⟩
    · exact ⟨by decide, Or.inr (by decide)⟩
  · exact absurd exH_abs3 hna
  · simp [exHnodes] at ht

/-- all hypotheses of `C13.rewards_equivariant_of_exact_of_ranked` (with threshold 0, pruning on)
hold together on the pair `exH`, `exH'` -/
theorem exH_runs : ∃ (out out' : SolveOut Rat) (ro ro' : ReachOut Rat),
    solve (roundRat 6) (0 : Rat) 10 true exH = .ok out ∧
    solve (roundRat 6) (0 : Rat) 10 true exH' = .ok out' ∧
    solveReach (roundRat 6) (0 : Rat) 10 true exH = .ok ro ∧
    solveReach (roundRat 6) (0 : Rat) 10 true exH' = .ok ro' ∧
    sweepReach exH.owners exH.tl ro.order ro.probs = (ro.probs, 0) ∧
    sweepReach exH'.owners exH'.tl ro'.order ro'.probs = (ro'.probs, 0) ∧
    Ranked exH.owners exH.rewards out.nodes rkH 2 ∧
    out.rewards = #[4, 2, 3, 0, 0] ∧ out'.rewards = #[4, 3, 2, 0, 0] ∧
    out.nodes = exHnodes ∧ out'.nodes = exHnodes' ∧
    out.finalStrat = #[some ["r"], none, some ["u"], none, none] ∧
    out'.finalStrat = #[some ["z_r"], some ["z_u"], none, none, none] := by
  obtain ⟨out, H, h⟩ := exH_run_aux
  obtain ⟨out', H', h'⟩ := exH'_run_aux
  simp only [Prod.mk.injEq] at h h'
  obtain ⟨⟨h1, h2⟩, h3, h4⟩ := h
  obtain ⟨⟨h1', h2'⟩, h3', h4'⟩ := h'
  obtain ⟨⟨ro, Hr, hp, _, _⟩, _, _⟩ := C02.rew_result H
  obtain ⟨⟨ro', Hr', hp', _, _⟩, _, _⟩ := C02.rew_result H'
  have ho : ro.order = [0, 1, 2] := (solveReach_ok Hr).2.2.1.trans exH_ord
  have ho' : ro'.order = [0, 1, 2] := (solveReach_ok Hr').2.2.1.trans exH'_ord
  refine ⟨out, out', ro, ro', H, H', Hr, Hr', ?_, ?_, by rw [h3]; exact exH_ranked,
    h1, h1', h3, h3', h4, h4'⟩
  · rw [ho, ← hp, h2]; decide +kernel
  · rw [ho', ← hp', h2']; decide +kernel

end CR.Present.Examples
