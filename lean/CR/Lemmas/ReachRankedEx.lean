/-
Concrete data for the non-vacuity examples of `CR/Props/C01Ranked.lean`: the 7-state game `g7`
(`CR/Lemmas/Strat.lean`) is well-formed and reach-ranked; its exact solution; two concrete runs of
`solveReach` on it (threshold 10⁻⁶: four sweeps, exact; threshold 3/4: two sweeps, state 0 of
rank 2 not yet exact).
-/
import CR.Lemmas.ReachRanked
import CR.Lemmas.Strat

namespace CR.ReachRank.Examples

open CR CR.VI CR.C01 CR.Examples

/-- ranks of `g7`: `0 → {1, 2}`, `1 → {3, 4}`, `2 → {5, 6}`, `3 → {4, 5}`; states 4, 5, 6 are
absorbing (5 is the final state, 4 and 6 are sinks) -/
def rk7 : Nat → Nat := fun s => if s = 0 then 2 else if s = 1 then 1 else 0

/-- the exact solution (= the value) of `g7` -/
def v7 : Array Rat := #[3/4, 3/4, 1/2, 1, 0, 1, 0]

theorem g7_wf : WF g7 := by
  refine ⟨rfl, ?_, ?_⟩
  · intro s hs
    have hs' : s < 7 := hs
    have : s = 0 ∨ s = 1 ∨ s = 2 ∨ s = 3 ∨ s = 4 ∨ s = 5 ∨ s = 6 := by omega
    rcases this with rfl | rfl | rfl | rfl | rfl | rfl | rfl <;> decide +kernel
  · intro s hs
    have hs' : s < 7 := hs
    have : s = 0 ∨ s = 1 ∨ s = 2 ∨ s = 3 ∨ s = 4 ∨ s = 5 ∨ s = 6 := by omega
    rcases this with rfl | rfl | rfl | rfl | rfl | rfl | rfl <;> decide +kernel

theorem g7_abs4 : Absorbing g7 4 := ⟨by decide +kernel, by decide +kernel⟩
theorem g7_abs5 : Absorbing g7 5 := ⟨by decide +kernel, by decide +kernel⟩
theorem g7_abs6 : Absorbing g7 6 := ⟨by decide +kernel, by decide +kernel⟩

theorem g7_ranked : ReachRanked g7 rk7 2 := by
  refine ⟨fun s _ => by unfold rk7; split_ifs <;> omega, ?_⟩
  intro s hs hnf hna t ht
  have hs' : s < 7 := hs
  have : s = 0 ∨ s = 1 ∨ s = 2 ∨ s = 3 ∨ s = 4 ∨ s = 5 ∨ s = 6 := by omega
  rcases this with rfl | rfl | rfl | rfl | rfl | rfl | rfl
  · simp [g7, tr] at ht
    rcases ht with rfl | rfl <;> exact ⟨by decide, Or.inr (Or.inr (by decide))⟩
  · simp [g7, tr] at ht
    rcases ht with rfl | rfl
    · exact ⟨by decide, Or.inr (Or.inr (by decide))⟩
    · exact ⟨by decide, Or.inr (Or.inl g7_abs4)⟩
  · simp [g7, tr] at ht
    rcases ht with rfl | rfl
    · exact ⟨by decide, Or.inl (by decide)⟩
    · exact ⟨by decide, Or.inr (Or.inl g7_abs6)⟩
  · simp [g7, tr] at ht
    rcases ht with rfl | rfl
    · exact ⟨by decide, Or.inr (Or.inl g7_abs4)⟩
    · exact ⟨by decide, Or.inl (by decide)⟩
  · exact absurd g7_abs4 hna
  · exact absurd g7_abs5 hna
  · exact absurd g7_abs6 hna

theorem v7_exact : ExactReach g7 v7 := by
  constructor
  · intro s hs
    have hs' : s < 7 := hs
    have : s = 0 ∨ s = 1 ∨ s = 2 ∨ s = 3 ∨ s = 4 ∨ s = 5 ∨ s = 6 := by omega
    rcases this with rfl | rfl | rfl | rfl | rfl | rfl | rfl <;> decide +kernel
  · intro s hs hnf ha
    have hs' : s < 7 := hs
    have : s = 0 ∨ s = 1 ∨ s = 2 ∨ s = 3 ∨ s = 4 ∨ s = 5 ∨ s = 6 := by omega
    rcases this with rfl | rfl | rfl | rfl | rfl | rfl | rfl
    · exact absurd (ha.2 _ (List.mem_cons_self)) (by decide)
    · exact absurd (ha.2 _ (List.mem_cons_self)) (by decide)
    · exact absurd (ha.2 _ (List.mem_cons_self)) (by decide)
    · exact absurd (ha.2 _ (List.mem_cons_self)) (by decide)
    · decide +kernel
    · exact absurd (by decide) hnf
    · decide +kernel

/-- the run with threshold 10⁻⁶ (pruning on): four sweeps over `[0, 1, 2, 3]` -/
theorem g7_reach_run : ∃ r, solveReach (roundRat 6) thr 1000 true g7 = .ok r ∧
    (r.probs, r.iters, r.order) = (v7, 4, [0, 1, 2, 3]) :=
  exists_ok_of_toOption_map (by unfold solveReach; rw [g7_ord]; decide +kernel)

/-- the run with threshold 3/4: the loop stops after two sweeps; state 0 (rank 2) reports 1/2 -/
theorem g7_reach_run_early : ∃ r, solveReach (roundRat 6) (3/4 : Rat) 1000 true g7 = .ok r ∧
    (r.probs, r.iters, r.order) = (#[1/2, 3/4, 1/2, 1, 0, 1, 0], 2, [0, 1, 2, 3]) :=
  exists_ok_of_toOption_map (by unfold solveReach; rw [g7_ord]; decide +kernel)

end CR.ReachRank.Examples
