/-
Vocabulary and generic lemmas for `CR/Props/C08Bisim.lean`: labelled transition systems with
observations (`LTS`), the strong order-preserving bisimulation `Bisim`, the two systems of C08
(`specLTS`, `genLTS`), the relation `EncRel`, and what `Bisim` implies for any two systems
(ordinary strong bisimulation `forth`/`back`, equal label sequences, transfer of reachability).
-/
import CR.Spec.Roborta
import Mathlib.Logic.Relation
import Mathlib.Data.List.Forall2

namespace CR.C08

open CR CR.Gen CR.Roborta

/-- a labelled transition system with observations: `obs s` is (owner, reward, "is final"),
`next s` the ordered list of (label, target) with label = (action name, probability) -/
structure LTS (σ α : Type) where
  obs  : σ → Owner × Nat × Prop
  next : σ → List ((String × α) × σ)

/-- "is a target of a transition" -/
def LTS.Step {σ α : Type} (A : LTS σ α) (s s' : σ) : Prop := ∃ x ∈ A.next s, x.2 = s'

/-- strong, order-preserving bisimulation: equal observations; successor lists of equal length
with position-wise equal labels and related targets -/
def Bisim {σ τ α : Type} (A : LTS σ α) (B : LTS τ α) (R : σ → τ → Prop) : Prop :=
  ∀ s n, R s n →
    A.obs s = B.obs n ∧
    List.Forall₂ (fun x y => x.1 = y.1 ∧ R x.2 y.2) (A.next s) (B.next n)

section
variable {α : Type} [Sub α] [OfNat α 0] [OfNat α 1]

/-- (i) the specification as an LTS -/
def specLTS (v : Variant) (L W : Nat) (b : Board) (q : Params α) : LTS RState α where
  obs s := (owner s, reward b s, s = .win)
  next s := (rules v L W b q s).map (fun x => ((x.act, x.p), x.tgt))

/-- (ii) a generated game as an LTS -/
def genLTS (G : GenGame α) : LTS Nat α where
  obs n := (G.owners.getD n .prob, G.rewards.getD n 0, n ∈ G.finals)
  next n := (G.tl.getD n []).map (fun t => ((t.act, t.p), t.tgt))

/-- the relation of C08: a valid situation and its number -/
def EncRel (v : Variant) (L W : Nat) (b : Board) (s : RState) (n : Nat) : Prop :=
  Valid v L W b s ∧ n = enc v L W s

end

/-! ### what an order-preserving bisimulation implies (any two systems) -/

section Generic
variable {σ τ α : Type} {A : LTS σ α} {B : LTS τ α} {R : σ → τ → Prop}

/-- related states have successor lists of the same length -/
theorem Bisim.length_eq (h : Bisim A B R) {s : σ} {n : τ} (hr : R s n) :
    (A.next s).length = (B.next n).length :=
  (h s n hr).2.length_eq

/-- position-wise: the `i`-th successors carry the same label and are related -/
theorem Bisim.pointwise (h : Bisim A B R) {s : σ} {n : τ} (hr : R s n) (i : Nat)
    (hi : i < (A.next s).length) (hi' : i < (B.next n).length) :
    ((A.next s)[i]).1 = ((B.next n)[i]).1 ∧ R ((A.next s)[i]).2 ((B.next n)[i]).2 := by
  have := (h s n hr).2
  generalize A.next s = l₁ at this hi
  generalize B.next n = l₂ at this hi'
  induction this generalizing i with
  | nil => exact absurd hi (Nat.not_lt_zero _)
  | cons hxy _ ih =>
    cases i with
    | zero => exact hxy
    | succ i => exact ih i (Nat.lt_of_succ_lt_succ hi) (Nat.lt_of_succ_lt_succ hi')

/-- ordinary strong bisimulation, forth: every move of the left system is matched by an equally
labelled move of the right system into a related state -/
theorem Bisim.forth (h : Bisim A B R) {s : σ} {n : τ} (hr : R s n) :
    ∀ x ∈ A.next s, ∃ y ∈ B.next n, x.1 = y.1 ∧ R x.2 y.2 := by
  have := (h s n hr).2
  generalize A.next s = l₁ at this
  generalize B.next n = l₂ at this
  induction this with
  | nil => intro x hx; exact absurd hx List.not_mem_nil
  | cons hxy _ ih =>
    intro x hx
    rcases List.mem_cons.mp hx with rfl | hx
    · exact ⟨_, List.mem_cons_self, hxy⟩
    · obtain ⟨y, hy, hxy'⟩ := ih x hx
      exact ⟨y, List.mem_cons_of_mem _ hy, hxy'⟩

/-- ordinary strong bisimulation, back -/
theorem Bisim.back (h : Bisim A B R) {s : σ} {n : τ} (hr : R s n) :
    ∀ y ∈ B.next n, ∃ x ∈ A.next s, x.1 = y.1 ∧ R x.2 y.2 := by
  have := (h s n hr).2
  generalize A.next s = l₁ at this
  generalize B.next n = l₂ at this
  induction this with
  | nil => intro y hy; exact absurd hy List.not_mem_nil
  | cons hxy _ ih =>
    intro y hy
    rcases List.mem_cons.mp hy with rfl | hy
    · exact ⟨_, List.mem_cons_self, hxy⟩
    · obtain ⟨x, hx, hxy'⟩ := ih y hy
      exact ⟨x, List.mem_cons_of_mem _ hx, hxy'⟩

/-- related states have the same sequence of labels (for a chance state: the same sequence of
probabilities, attached position-wise to related targets) -/
theorem Bisim.labels_eq (h : Bisim A B R) {s : σ} {n : τ} (hr : R s n) :
    (A.next s).map (·.1) = (B.next n).map (·.1) := by
  have := (h s n hr).2
  generalize A.next s = l₁ at this
  generalize B.next n = l₂ at this
  induction this with
  | nil => rfl
  | cons hxy _ ih => simp only [List.map_cons, hxy.1, ih]

/-- a bisimulation carries reachability over, right to left: every state of `B` reachable from
`n₀` is related to a state of `A` reachable from `s₀` -/
theorem Bisim.reach_right (h : Bisim A B R) {s₀ : σ} {n₀ : τ} (h₀ : R s₀ n₀) {n : τ}
    (hn : Relation.ReflTransGen B.Step n₀ n) :
    ∃ s, Relation.ReflTransGen A.Step s₀ s ∧ R s n := by
  induction hn with
  | refl => exact ⟨s₀, .refl, h₀⟩
  | tail _ hstep ih =>
    obtain ⟨s, hs, hr⟩ := ih
    obtain ⟨y, hy, rfl⟩ := hstep
    obtain ⟨x, hx, _, hxy⟩ := h.back hr y hy
    exact ⟨x.2, .tail hs ⟨x, hx, rfl⟩, hxy⟩

/-- ... and left to right -/
theorem Bisim.reach_left (h : Bisim A B R) {s₀ : σ} {n₀ : τ} (h₀ : R s₀ n₀) {s : σ}
    (hs : Relation.ReflTransGen A.Step s₀ s) :
    ∃ n, Relation.ReflTransGen B.Step n₀ n ∧ R s n := by
  induction hs with
  | refl => exact ⟨n₀, .refl, h₀⟩
  | tail _ hstep ih =>
    obtain ⟨n, hn, hr⟩ := ih
    obtain ⟨x, hx, rfl⟩ := hstep
    obtain ⟨y, hy, _, hxy⟩ := h.forth hr x hx
    exact ⟨y.2, .tail hn ⟨y, hy, rfl⟩, hxy⟩

end Generic

end CR.C08
