/-
Vocabulary for `CR/Props/C02Spec.lean`: the conditioned game of the specification as an array of
rows (`specNodes`, rows `condRow`) and the game of the unpruned run (`stratNodes`, rows
`stratRow`), with their row lemmas.
-/
import CR.Lemmas.Prune

set_option linter.unusedSectionVars false

namespace CR.C02

open CR

/-! ### vocabulary -/

section Vocabulary
variable {α : Type} [Add α] [Sub α] [Div α] [BEq α] [OfNat α 0] [OfNat α 1]

/-- the conditioned game of the specification: one row `condRow g strat reach s` per state -/
def specNodes (g : Game α) (strat : Array Strat) (reach : Array α) : Array (List (Tr α)) :=
  Array.ofFn (n := g.owners.size) (fun s => condRow g strat reach s.val)

/-- the row of state `s` when only Player 1 is restricted to its reachability strategy -/
def stratRow (g : Game α) (strat : Array Strat) (s : Nat) : List (Tr α) :=
  match g.owners.getD s .prob with
  | .p1 => (g.tl.getD s []).filter (fun t => ((strat.getD s none).getD []).contains t.act)
  | _ => g.tl.getD s []

/-- the game of the unpruned run: one row `stratRow g strat s` per state -/
def stratNodes (g : Game α) (strat : Array Strat) : Array (List (Tr α)) :=
  Array.ofFn (n := g.owners.size) (fun s => stratRow g strat s.val)

/-- `specNodes` has one row per state, and its row at an in-range state is `condRow` -/
theorem specNodes_row (g : Game α) (strat : Array Strat) (reach : Array α) :
    (specNodes g strat reach).size = g.owners.size ∧
    ∀ s < g.owners.size, (specNodes g strat reach).getD s [] = condRow g strat reach s := by
  refine ⟨by simp [specNodes], fun s hs => ?_⟩
  simp [specNodes, Array.getD, hs]

/-- `stratNodes` has one row per state, and its row at an in-range state is `stratRow` -/
theorem stratNodes_row (g : Game α) (strat : Array Strat) :
    (stratNodes g strat).size = g.owners.size ∧
    ∀ s < g.owners.size, (stratNodes g strat).getD s [] = stratRow g strat s := by
  refine ⟨by simp [stratNodes], fun s hs => ?_⟩
  simp [stratNodes, Array.getD, hs]

end Vocabulary

end CR.C02
