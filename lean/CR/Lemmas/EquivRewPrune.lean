/-
Helper lemmas for the reward-phase part of property C13: CONDITIONING commutes with a
re-presentation, including the clearing of unreachable states by the `prune_states` loop.

`pruneStatesRound` clears the states that are not Player 1's and are not a target (of any row, or
the initial state 0); both "is a target" and the owner are presentation independent (`π 0 = 0` is
used here), so the cleared sets of the two presentations correspond under `π` round by round, the
loop's exit test (`sameSet`) gives the same answer in both, and with equal fuel (`n + 2`) both
loops return related lists.
-/
import CR.Lemmas.EquivRew

set_option linter.unusedSectionVars false

namespace CR.Present

open CR CR.VI CR.Rew

variable {K : Type} [Field K] [LinearOrder K] [IsStrictOrderedRing K]
variable {π : Nat → Nat} {ρ : String → String} {o o' : Array Owner} {r r' : Array K}
  {nodes nodes' : Array (List (Tr K))}

/-- side conditions of the `prune_states` loop: the initial state is kept first and both lists
have one row per state -/
structure PruneSide (π : Nat → Nat) (o : Array Owner) (nodes nodes' : Array (List (Tr K))) :
    Prop where
  fix0 : π 0 = 0
  size : nodes.size = o.size
  size' : nodes'.size = o.size

/-- two lists of states that correspond under `π` -/
def SetRel (π : Nat → Nat) (n : Nat) (l l' : List Nat) : Prop :=
  (∀ x ∈ l, x < n) ∧ (∀ x ∈ l', x < n) ∧ ∀ s < n, (π s ∈ l' ↔ s ∈ l)

/-! ### one round -/

theorem mem_tgts_rel (h : RewRel π ρ o o' r r' nodes nodes') (hside : PruneSide π o nodes nodes')
    {s : Nat} (hs : s < o.size) : π s ∈ tgts nodes' ↔ s ∈ tgts nodes := by
  rw [mem_tgts, mem_tgts]
  constructor
  · rintro (h0 | ⟨u', t', ht', htgt⟩)
    · left
      exact h.inj s hs 0 (by omega) (by rw [h0, hside.fix0])
    · right
      have hu' : u' < o.size := by
        by_contra hge
        rw [getD_of_ge _ _ _ (by rw [hside.size']; omega)] at ht'
        exact absurd ht' List.not_mem_nil
      obtain ⟨u, hu, rfl⟩ := h.surj u' hu'
      obtain ⟨t, ht, rfl⟩ := (h.mem_row' hu).mp ht'
      exact ⟨u, t, ht, h.inj _ (h.tgt u hu t ht) _ hs htgt⟩
  · rintro (rfl | ⟨u, t, ht, rfl⟩)
    · left; exact hside.fix0
    · right
      have hu : u < o.size := by
        by_contra hge
        rw [getD_of_ge _ _ _ (by rw [hside.size]; omega)] at ht
        exact absurd ht List.not_mem_nil
      exact ⟨π u, trMap π ρ t, (h.mem_row' hu).mpr ⟨t, ht, rfl⟩, rfl⟩

theorem cleared_rel (h : RewRel π ρ o o' r r' nodes nodes') (hside : PruneSide π o nodes nodes')
    {s : Nat} (hs : s < o.size) : cleared o' nodes' (π s) = cleared o nodes s := by
  rw [Bool.eq_iff_iff, cleared_iff, cleared_iff, h.owners s hs, mem_tgts_rel h hside hs]

theorem deadP1_rel (h : RewRel π ρ o o' r r' nodes nodes') (hside : PruneSide π o nodes nodes')
    {s : Nat} (hs : s < o.size) : deadP1 o' nodes' (π s) = deadP1 o nodes s := by
  rw [Bool.eq_iff_iff, deadP1_iff, deadP1_iff, h.owners s hs, h.row_nil_iff hs,
    mem_tgts_rel h hside hs]

theorem round_rel (h : RewRel π ρ o o' r r' nodes nodes') (hside : PruneSide π o nodes nodes') :
    RewRel π ρ o o' r r' (pruneStatesRound o nodes).1 (pruneStatesRound o' nodes').1 ∧
      PruneSide π o (pruneStatesRound o nodes).1 (pruneStatesRound o' nodes').1 := by
  refine ⟨⟨h.n_owners, h.maps, h.inj, h.owners, h.rewards, fun s hs => ?_, fun s hs t ht => ?_⟩,
    ⟨hside.fix0, (round_size _ _).trans hside.size, (round_size _ _).trans hside.size'⟩⟩
  · rw [round_getD, round_getD, cleared_rel h hside hs]
    by_cases hc : cleared o nodes s = true
    · rw [if_pos hc, if_pos hc]; exact List.Perm.refl _
    · rw [if_neg hc, if_neg hc]; exact h.rows s hs
  · rw [round_getD] at ht
    by_cases hc : cleared o nodes s = true
    · rw [if_pos hc] at ht; exact absurd ht List.not_mem_nil
    · rw [if_neg hc] at ht; exact h.tgt s hs t ht

theorem round_set_rel (h : RewRel π ρ o o' r r' nodes nodes')
    (hside : PruneSide π o nodes nodes') :
    SetRel π o.size (pruneStatesRound o nodes).2 (pruneStatesRound o' nodes').2 := by
  refine ⟨fun x hx => ?_, fun x hx => ?_, fun s hs => ?_⟩
  · rw [← hside.size]; exact (mem_round_set.mp hx).1
  · rw [← hside.size']; exact (mem_round_set.mp hx).1
  · rw [mem_round_set, mem_round_set, cleared_rel h hside hs, deadP1_rel h hside hs,
      hside.size, hside.size']
    exact and_congr_left (fun _ => ⟨fun _ => hs, fun _ => h.maps s hs⟩)

/-! ### the exit test -/

theorem sameSet_iff (a b : List Nat) :
    sameSet a b = true ↔ (∀ x ∈ a, x ∈ b) ∧ (∀ x ∈ b, x ∈ a) := by
  unfold sameSet
  simp [List.all_eq_true]

theorem subset_rel (h : RewRel π ρ o o' r r' nodes nodes') {a a' b b' : List Nat}
    (ha : SetRel π o.size a a') (hb : SetRel π o.size b b') :
    (∀ x ∈ a', x ∈ b') ↔ (∀ x ∈ a, x ∈ b) := by
  constructor
  · intro hsub x hx
    have hxn := ha.1 x hx
    exact (hb.2.2 x hxn).mp (hsub _ ((ha.2.2 x hxn).mpr hx))
  · intro hsub x' hx'
    obtain ⟨x, hxn, rfl⟩ := h.surj x' (ha.2.1 x' hx')
    exact (hb.2.2 x hxn).mpr (hsub _ ((ha.2.2 x hxn).mp hx'))

theorem sameSet_rel (h : RewRel π ρ o o' r r' nodes nodes') {a a' b b' : List Nat}
    (ha : SetRel π o.size a a') (hb : SetRel π o.size b b') : sameSet a' b' = sameSet a b := by
  rw [Bool.eq_iff_iff, sameSet_iff, sameSet_iff, subset_rel h ha hb, subset_rel h hb ha]

/-! ### the loop -/

theorem pruneStates_rel :
    ∀ (fuel : Nat) (prev prev' : List Nat) (nodes nodes' out out' : Array (List (Tr K))),
      RewRel π ρ o o' r r' nodes nodes' → PruneSide π o nodes nodes' →
      SetRel π o.size prev prev' →
      pruneStates o fuel prev nodes = .ok out → pruneStates o' fuel prev' nodes' = .ok out' →
      RewRel π ρ o o' r r' out out' := by
  intro fuel
  induction fuel with
  | zero => intro prev prev' nodes nodes' out out' _ _ _ h; exact absurd h (by simp [pruneStates])
  | succ fuel ih =>
    intro prev prev' nodes nodes' out out' h hside hprev hp hp'
    unfold pruneStates at hp hp'
    simp only at hp hp'
    obtain ⟨hrel, hside'⟩ := round_rel h hside
    have hset := round_set_rel h hside
    rw [sameSet_rel h hset hprev] at hp'
    by_cases hs : sameSet (pruneStatesRound o nodes).2 prev = true
    · rw [if_pos hs] at hp hp'
      rw [← Except.ok.inj hp, ← Except.ok.inj hp']
      exact hrel
    · rw [if_neg hs] at hp hp'
      exact ih _ _ _ _ _ _ hrel hside' hset hp hp'

/-! ### `condition` -/

/-- every transition of a conditioned row has the target of a transition of the original row -/
theorem condRow_tgt_mem {g : Game K} {st : Array Strat} {reach : Array K} {s : Nat} {t : Tr K}
    (ht : t ∈ condRow g st reach s) : ∃ t' ∈ g.tl.getD s [], t'.tgt = t.tgt := by
  cases ho : g.owners.getD s .prob with
  | p2 => rw [condRow_p2 ho] at ht; exact ⟨t, ht, rfl⟩
  | p1 =>
    rw [condRow_p1 ho] at ht
    exact ⟨t, (List.mem_filter.mp (List.mem_filter.mp ht).1).1, rfl⟩
  | prob =>
    rw [condRow_prob ho] at ht
    unfold condProb at ht
    simp only at ht
    split_ifs at ht with hl
    · exact ⟨t, ht, rfl⟩
    · obtain ⟨u, hu, rfl⟩ := List.mem_map.mp ht
      exact ⟨u, (List.mem_filter.mp hu).1, rfl⟩

/-- conditioning (`prune_reachability`, then — with pruning — `prune_paths` and the
`prune_states` loop) commutes with the re-presentation: from reachability vectors related along
`π` and strategy tables naming the same actions up to `ρ`, the two conditioned transition lists
are related row by row, at EVERY state (the sets of emptied states correspond) -/
theorem condition_rel {g g' : Game K} (h : Presents π ρ g g') (hr : TgtOk g)
    {reach reach' : Array K} (hx : ∀ s < g.owners.size, reach'.getD (π s) 0 = reach.getD s 0)
    {st st' : Array Strat} (hst : StratRel π ρ g.owners.size st st') {prune : Bool}
    {nodes nodes' : Array (List (Tr K))} (hc : condition prune g st reach = .ok nodes)
    (hc' : condition prune g' st' reach' = .ok nodes') :
    RewRel π ρ g.owners g'.owners g.rewards g'.rewards nodes nodes' := by
  have hr' := h.tgtOk hr
  cases prune with
  | false =>
    rw [condition_false_eq] at hc hc'
    rw [← Except.ok.inj hc, ← Except.ok.inj hc']
    refine h.rewRel (fun s hs => ?_) (fun s hs t ht => ?_)
    · rw [pruneReachability_getD, pruneReachability_getD, h.owners s hs]
      cases hog : g.owners.getD s .prob with
      | p1 => exact filter_perm_map (h.rows s hs) _ _ (fun t _ => hst s hs t.act)
      | p2 => exact h.rows s hs
      | prob => exact h.rows s hs
    · rw [pruneReachability_getD] at ht
      cases hog : g.owners.getD s .prob with
      | p1 => rw [hog] at ht; exact hr.2 s hs t (List.mem_filter.mp ht).1
      | p2 => rw [hog] at ht; exact hr.2 s hs t ht
      | prob => rw [hog] at ht; exact hr.2 s hs t ht
  | true =>
    obtain ⟨base, hb, hp⟩ := condition_ok_split hc
    obtain ⟨base', hb', hp'⟩ := condition_ok_split hc'
    obtain ⟨hsz, hrow⟩ := base_eq (g := g) hr.1 hb
    obtain ⟨hsz', hrow'⟩ := base_eq (g := g') hr'.1 hb'
    have hbase : RewRel π ρ g.owners g'.owners g.rewards g'.rewards base base' := by
      refine h.rewRel (fun s hs => ?_) (fun s hs t ht => ?_)
      · rw [hrow, hrow']; exact condRow_perm h hr hx hst hs
      · rw [hrow] at ht
        obtain ⟨t', ht', he⟩ := condRow_tgt_mem ht
        rw [← he]; exact hr.2 s hs t' ht'
    have hside : PruneSide π g.owners base base' := ⟨h.fix0, hsz, hsz'.trans h.n_owners⟩
    rw [h.n_owners] at hp'
    exact pruneStates_rel _ _ _ _ _ _ _ hbase hside
      ⟨fun _ hx => absurd hx List.not_mem_nil, fun _ hx => absurd hx List.not_mem_nil,
        fun _ _ => ⟨fun hx => absurd hx List.not_mem_nil, fun hx => absurd hx List.not_mem_nil⟩⟩
      hp hp'

end CR.Present
