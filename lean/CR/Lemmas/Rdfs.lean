/-
Helper lemmas about `CR/Model/Rdfs.lean` (`revCore`, `revTable`, `dfsLoop`, `reverseDfs`).
The property theorems built on top of these live in `CR/Props/C07.lean`.
-/
import CR.Model.Rdfs
import Mathlib.Logic.Relation

namespace CR
namespace RdfsLemmas

/-! ## `revTable` -/

/-- one step of the fold in `revTable`, with projections instead of a pattern match -/
def revStep (tab : Array (List Nat)) (p : Nat × Nat) : Array (List Nat) :=
  tab.setIfInBounds p.1 (tab.getD p.1 [] ++ [p.2])

theorem revTable_eq (tl : List (List Nat)) :
    revTable tl = (revCore tl).foldl revStep (Array.replicate tl.length []) := rfl

theorem revCore_eq (tl : List (List Nat)) :
    revCore tl = (tl.zipIdx 0).flatMap (fun p => p.1.map (fun v => (v, p.2))) := rfl

theorem foldl_revStep_size (ps : List (Nat × Nat)) (tab : Array (List Nat)) :
    (ps.foldl revStep tab).size = tab.size := by
  induction ps generalizing tab with
  | nil => rfl
  | cons p ps ih => simp [List.foldl_cons, ih, revStep]

theorem foldl_revStep_count (ps : List (Nat × Nat)) (tab : Array (List Nat)) (v u : Nat)
    (hv : v < tab.size) :
    ((ps.foldl revStep tab).getD v []).count u = (tab.getD v []).count u + ps.count (v, u) := by
  induction ps generalizing tab with
  | nil => simp
  | cons p ps ih =>
    obtain ⟨v', u'⟩ := p
    have hsz : v < (revStep tab (v', u')).size := by simpa [revStep] using hv
    rw [List.foldl_cons, ih _ hsz, List.count_cons]
    by_cases h1 : v' = v
    · subst h1
      by_cases h2 : u' = u
      · subst h2
        simp [revStep, hv]
        omega
      · simp [revStep, hv, h2]
    · simp [revStep, h1]

theorem count_zipIdx_flatMap (tl : List (List Nat)) (k v u : Nat) :
    ((tl.zipIdx k).flatMap (fun p => p.1.map (fun v => (v, p.2)))).count (v, u)
      = if k ≤ u then (tl.getD (u - k) []).count v else 0 := by
  induction tl generalizing k with
  | nil => simp
  | cons row rest ih =>
    rw [List.zipIdx_cons, List.flatMap_cons, List.count_append, ih]
    have hrow : (row.map (fun v => (v, k))).count (v, u) = if k = u then row.count v else 0 := by
      induction row with
      | nil => simp
      | cons x xs ihx =>
        simp only [List.map_cons, List.count_cons, ihx]
        by_cases hk : k = u <;> simp [hk]
    simp only [hrow]
    by_cases hk : k = u
    · subst hk
      have hlt : ¬ k + 1 ≤ k := by omega
      simp [hlt]
    · by_cases hlt : k + 1 ≤ u
      · have hle : k ≤ u := by omega
        have hsub : u - k = (u - (k + 1)) + 1 := by omega
        simp [hk, hlt, hle, hsub]
      · have hle : ¬ k ≤ u := by omega
        simp [hk, hlt, hle]

theorem revCore_count (tl : List (List Nat)) (v u : Nat) :
    (revCore tl).count (v, u) = (tl.getD u []).count v := by
  rw [revCore_eq, count_zipIdx_flatMap]; simp

theorem revTable_size (tl : List (List Nat)) : (revTable tl).size = tl.length := by
  rw [revTable_eq, foldl_revStep_size]; simp

theorem revTable_count (tl : List (List Nat)) (u v : Nat) (hv : v < tl.length) :
    ((revTable tl).getD v []).count u = (tl.getD u []).count v := by
  rw [revTable_eq, foldl_revStep_count _ _ _ _ (by simpa using hv), revCore_count]
  simp [hv]

theorem revTable_getD_of_ge (tl : List (List Nat)) (v : Nat) (hv : tl.length ≤ v) :
    (revTable tl).getD v [] = [] := by
  have : ¬ v < (revTable tl).size := by rw [revTable_size]; omega
  simp [Array.getD, this]

/-- everything listed under `v` is a predecessor of `v` (no hypothesis needed) -/
theorem edge_of_mem_revTable (tl : List (List Nat)) (u v : Nat)
    (h : u ∈ (revTable tl).getD v []) : v ∈ tl.getD u [] := by
  by_cases hv : v < tl.length
  · rw [← List.count_pos_iff, ← revTable_count tl u v hv, List.count_pos_iff]; exact h
  · rw [revTable_getD_of_ge tl v (by omega)] at h; simp at h

/-- every predecessor of an in-range `v` is listed under `v` -/
theorem mem_revTable_of_edge (tl : List (List Nat)) (u v : Nat) (hv : v < tl.length)
    (h : v ∈ tl.getD u []) : u ∈ (revTable tl).getD v [] := by
  rw [← List.count_pos_iff, revTable_count tl u v hv, List.count_pos_iff]; exact h

/-- an edge whose source row exists and whose rows are in range has an in-range target -/
theorem target_lt_of_edge (tl : List (List Nat)) (h : ∀ row ∈ tl, ∀ v ∈ row, v < tl.length)
    (u v : Nat) (he : v ∈ tl.getD u []) : v < tl.length := by
  by_cases hu : u < tl.length
  · have hrow : tl.getD u [] ∈ tl := by
      rw [List.getD_eq_getElem?_getD, List.getElem?_eq_getElem hu]; simp
    exact h _ hrow v he
  · have : tl.getD u [] = [] := by
      rw [List.getD_eq_getElem?_getD, List.getElem?_eq_none (by omega)]; rfl
    rw [this] at he; simp at he

/-! ## `dfsLoop` -/

/-- soundness: a predecessor-closed predicate holding on the stack and on `acc` holds on the result -/
theorem dfsLoop_sound (rev : Array (List Nat)) (P : Nat → Prop)
    (hP : ∀ v, P v → ∀ u ∈ rev.getD v [], P u) (stack acc : List Nat) :
    (∀ s ∈ stack, P s) → (∀ s ∈ acc, P s) → ∀ s ∈ dfsLoop rev stack acc, P s := by
  fun_induction dfsLoop rev stack acc with
  | case1 acc => intro _ ha; exact ha
  | case2 acc s rest hc ih =>
    intro hs ha
    exact ih (fun x hx => hs x (List.mem_cons_of_mem _ hx)) ha
  | case3 acc s rest hc ih =>
    intro hs ha
    have hPs : P s := hs s List.mem_cons_self
    apply ih
    · intro x hx
      rcases List.mem_append.1 hx with hx | hx
      · exact hP s hPs x hx
      · exact hs x (List.mem_cons_of_mem _ hx)
    · intro x hx
      rcases List.mem_cons.1 hx with rfl | hx
      · exact hPs
      · exact ha x hx

/-- completeness: the result contains `acc` and the stack, and every newly added state has all
its listed predecessors in the result -/
theorem dfsLoop_complete (rev : Array (List Nat)) (stack acc : List Nat) :
    (∀ s ∈ acc, s ∈ dfsLoop rev stack acc) ∧ (∀ s ∈ stack, s ∈ dfsLoop rev stack acc) ∧
    (∀ v ∈ dfsLoop rev stack acc, v ∉ acc → ∀ u ∈ rev.getD v [], u ∈ dfsLoop rev stack acc) := by
  fun_induction dfsLoop rev stack acc with
  | case1 acc =>
    refine ⟨fun s hs => hs, fun s hs => by simp at hs, fun v hv hna => absurd hv hna⟩
  | case2 acc s rest hc ih =>
    obtain ⟨ih1, ih2, ih3⟩ := ih
    refine ⟨ih1, ?_, ih3⟩
    intro x hx
    rcases List.mem_cons.1 hx with rfl | hx
    · exact ih1 _ (by simpa using hc)
    · exact ih2 x hx
  | case3 acc s rest hc ih =>
    obtain ⟨ih1, ih2, ih3⟩ := ih
    refine ⟨fun x hx => ih1 x (List.mem_cons_of_mem _ hx), ?_, ?_⟩
    · intro x hx
      rcases List.mem_cons.1 hx with rfl | hx
      · exact ih1 _ List.mem_cons_self
      · exact ih2 x (List.mem_append_right _ hx)
    · intro v hv hna u hu
      by_cases hvs : v = s
      · subst hvs
        exact ih2 u (List.mem_append_left _ hu)
      · exact ih3 v hv (by simp [hvs, hna]) u hu

theorem dfsLoop_nodup (rev : Array (List Nat)) (stack acc : List Nat) :
    acc.Nodup → (dfsLoop rev stack acc).Nodup := by
  fun_induction dfsLoop rev stack acc with
  | case1 acc => exact id
  | case2 acc s rest hc ih => exact ih
  | case3 acc s rest hc ih =>
    intro ha
    apply ih
    exact List.nodup_cons.2 ⟨by simpa using hc, ha⟩

/-- a predecessor-closed `acc` stays predecessor-closed -/
theorem dfsLoop_closed (rev : Array (List Nat)) (stack acc : List Nat)
    (hcl : ∀ v ∈ acc, ∀ u ∈ rev.getD v [], u ∈ acc) :
    ∀ v ∈ dfsLoop rev stack acc, ∀ u ∈ rev.getD v [], u ∈ dfsLoop rev stack acc := by
  obtain ⟨h1, _, h3⟩ := dfsLoop_complete rev stack acc
  intro v hv u hu
  by_cases hva : v ∈ acc
  · exact h1 u (hcl v hva u hu)
  · exact h3 v hv hva u hu

/-! ## the `foldl` over the final states -/

/-- the list called `all` in `reverseDfs`, started from an arbitrary accumulator -/
def allFrom (rev : Array (List Nat)) (finals acc : List Nat) : List Nat :=
  finals.foldl (fun acc f => dfsLoop rev [f] acc) acc

theorem reverseDfs_eq (tl : List (List Nat)) (finals : List Nat) :
    reverseDfs tl finals =
      ((allFrom (revTable tl) finals []).filter (fun s => !finals.contains s)).mergeSort
        (fun a b => a ≤ b) := rfl

theorem allFrom_sound (rev : Array (List Nat)) (P : Nat → Prop)
    (hP : ∀ v, P v → ∀ u ∈ rev.getD v [], P u) (finals acc : List Nat)
    (hf : ∀ f ∈ finals, P f) (ha : ∀ s ∈ acc, P s) : ∀ s ∈ allFrom rev finals acc, P s := by
  induction finals generalizing acc with
  | nil => exact ha
  | cons f fs ih =>
    simp only [allFrom, List.foldl_cons]
    apply ih _ (fun x hx => hf x (List.mem_cons_of_mem _ hx))
    apply dfsLoop_sound rev P hP
    · intro x hx
      have : x = f := by simpa using hx
      exact this ▸ hf f List.mem_cons_self
    · exact ha

theorem allFrom_complete (rev : Array (List Nat)) (finals acc : List Nat)
    (hcl : ∀ v ∈ acc, ∀ u ∈ rev.getD v [], u ∈ acc) :
    (∀ s ∈ acc, s ∈ allFrom rev finals acc) ∧ (∀ f ∈ finals, f ∈ allFrom rev finals acc) ∧
    (∀ v ∈ allFrom rev finals acc, ∀ u ∈ rev.getD v [], u ∈ allFrom rev finals acc) := by
  induction finals generalizing acc with
  | nil => exact ⟨fun s hs => hs, fun f hf => by simp at hf, hcl⟩
  | cons f fs ih =>
    simp only [allFrom, List.foldl_cons]
    obtain ⟨h1, h2, _⟩ := dfsLoop_complete rev [f] acc
    obtain ⟨i1, i2, i3⟩ := ih (dfsLoop rev [f] acc) (dfsLoop_closed rev [f] acc hcl)
    refine ⟨fun s hs => i1 s (h1 s hs), ?_, i3⟩
    intro x hx
    rcases List.mem_cons.1 hx with rfl | hx
    · exact i1 _ (h2 _ List.mem_cons_self)
    · exact i2 x hx

theorem allFrom_nodup (rev : Array (List Nat)) (finals acc : List Nat) (ha : acc.Nodup) :
    (allFrom rev finals acc).Nodup := by
  induction finals generalizing acc with
  | nil => exact ha
  | cons f fs ih =>
    simp only [allFrom, List.foldl_cons]
    exact ih _ (dfsLoop_nodup rev [f] acc ha)

/-- a set closed under `r`-predecessors contains everything that `r`-reaches one of its members -/
theorem mem_of_reflTransGen {r : Nat → Nat → Prop} {S : List Nat}
    (hcl : ∀ v ∈ S, ∀ u, r u v → u ∈ S) {s f : Nat} (h : Relation.ReflTransGen r s f)
    (hf : f ∈ S) : s ∈ S := by
  induction h with
  | refl => exact hf
  | tail _ hbc ih => exact ih (hcl _ hf _ hbc)

/-! ## sorting -/

theorem mem_reverseDfs (tl : List (List Nat)) (finals : List Nat) (s : Nat) :
    s ∈ reverseDfs tl finals ↔ s ∈ allFrom (revTable tl) finals [] ∧ s ∉ finals := by
  rw [reverseDfs_eq]; simp

theorem reverseDfs_nodup (tl : List (List Nat)) (finals : List Nat) :
    (reverseDfs tl finals).Nodup := by
  rw [reverseDfs_eq]
  exact (List.mergeSort_perm _ _).nodup_iff.2
    ((allFrom_nodup _ _ _ List.nodup_nil).filter _)

theorem reverseDfs_sorted_le (tl : List (List Nat)) (finals : List Nat) :
    (reverseDfs tl finals).Pairwise (· ≤ ·) := by
  rw [reverseDfs_eq]
  have := List.pairwise_mergeSort (le := fun (a b : Nat) => decide (a ≤ b))
    (by intro a b c; simp; omega) (by intro a b; simp; omega)
    ((allFrom (revTable tl) finals []).filter (fun s => !finals.contains s))
  simpa using this

theorem reverseDfs_sorted_lt (tl : List (List Nat)) (finals : List Nat) :
    (reverseDfs tl finals).Pairwise (· < ·) := by
  have h := (reverseDfs_sorted_le tl finals).and (reverseDfs_nodup tl finals)
  exact h.imp (fun ⟨h1, h2⟩ => Nat.lt_of_le_of_ne h1 h2)

/-- two strictly ascending lists with the same members are equal -/
theorem eq_of_sorted_lt_of_mem_iff {l₁ l₂ : List Nat} (h₁ : l₁.Pairwise (· < ·))
    (h₂ : l₂.Pairwise (· < ·)) (hm : ∀ s, s ∈ l₁ ↔ s ∈ l₂) : l₁ = l₂ := by
  have n₁ : l₁.Nodup := h₁.imp (fun h => Nat.ne_of_lt h)
  have n₂ : l₂.Nodup := h₂.imp (fun h => Nat.ne_of_lt h)
  have hp : l₁.Perm l₂ := (List.perm_ext_iff_of_nodup n₁ n₂).2 hm
  exact List.Perm.eq_of_pairwise (le := fun a b => a < b)
    (fun a b _ _ hab hba => absurd hab (Nat.lt_asymm hba)) h₁ h₂ hp

end RdfsLemmas
end CR
