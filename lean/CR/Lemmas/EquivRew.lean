/-
Helper definitions and lemmas for the REWARD-PHASE part of property C13 (presentation
independence): the reward Bellman operator `Brew`, absorbing states, exact solutions of the
reward equations (`ExactRew`), rankedness and the final strategy lists commute with a
re-presentation of the transition lists.

`RewRel π ρ o o' r r' nodes nodes'` relates two "reward games" (owners, state rewards, transition
lists): `π` is an injective — hence bijective — self-map of `0..n-1`, owners and rewards are
related along `π`, every row of `nodes'` at `π s` is a `List.Perm` of the renamed / renumbered row
of `nodes` at `s`, and all targets of `nodes` are states.  Unlike `Presents` it does not mention
final states, does not ask `π 0 = 0` and does not ask `ρ` to be injective.
-/
import CR.Lemmas.Equiv
import CR.Props.C02Ranked

set_option linter.unusedSectionVars false

namespace CR.Present

open CR CR.VI CR.Rew CR.C06 CR.Rank

variable {K : Type} [Field K] [LinearOrder K] [IsStrictOrderedRing K]

/-- the transition lists `nodes'` (with owners `o'`, state rewards `r'`) are the transition lists
`nodes` (owners `o`, rewards `r`) with the states renumbered by `π`, the transitions inside every
state reordered arbitrarily and the actions renamed by `ρ` -/
structure RewRel (π : Nat → Nat) (ρ : String → String) (o o' : Array Owner) (r r' : Array K)
    (nodes nodes' : Array (List (Tr K))) : Prop where
  n_owners : o'.size = o.size
  maps : ∀ s < o.size, π s < o.size
  inj : ∀ s < o.size, ∀ s' < o.size, π s = π s' → s = s'
  owners : ∀ s < o.size, o'.getD (π s) .prob = o.getD s .prob
  rewards : ∀ s < o.size, r'.getD (π s) 0 = r.getD s 0
  rows : ∀ s < o.size, (nodes'.getD (π s) []).Perm ((nodes.getD s []).map (trMap π ρ))
  tgt : ∀ s < o.size, ∀ t ∈ nodes.getD s [], t.tgt < o.size

variable {π : Nat → Nat} {ρ : String → String} {o o' : Array Owner} {r r' : Array K}
  {nodes nodes' : Array (List (Tr K))}

/-! ### `π` is a bijection of `0..n-1` -/

theorem RewRel.surj (h : RewRel π ρ o o' r r' nodes nodes') :
    ∀ u < o.size, ∃ s < o.size, π s = u := by
  intro u hu
  let f : Fin o.size → Fin o.size := fun i => ⟨π i, h.maps i i.2⟩
  have hf : Function.Injective f := fun a b hab =>
    Fin.ext (h.inj a a.2 b b.2 (by simpa [f] using congrArg Fin.val hab))
  obtain ⟨i, hi⟩ := Finite.surjective_of_injective hf ⟨u, hu⟩
  exact ⟨i, i.2, by simpa [f] using congrArg Fin.val hi⟩

theorem RewRel.invOn_spec (h : RewRel π ρ o o' r r' nodes nodes') {u : Nat} (hu : u < o.size) :
    invOn π o.size u < o.size ∧ π (invOn π o.size u) = u := by
  obtain ⟨s, hs, hsu⟩ := h.surj u hu
  unfold invOn
  cases hf : (List.range o.size).find? (fun s => π s = u) with
  | none =>
    rw [List.find?_eq_none] at hf
    exact absurd (by simpa using hsu) (hf s (List.mem_range.mpr hs))
  | some s' =>
    have h1 := List.mem_of_find?_eq_some hf
    have h2 := List.find?_some hf
    exact ⟨List.mem_range.mp h1, by simpa using h2⟩

theorem RewRel.invOn_left (h : RewRel π ρ o o' r r' nodes nodes') {s : Nat} (hs : s < o.size) :
    invOn π o.size (π s) = s := by
  obtain ⟨h1, h2⟩ := h.invOn_spec (h.maps s hs)
  exact h.inj _ h1 _ hs h2

theorem RewRel.transports_push (h : RewRel π ρ o o' r r' nodes nodes') {y : Array K}
    (hy : y.size = o.size) : Transports π o.size y (push π o.size y) := by
  refine ⟨hy, by simp [push], fun s hs => ?_⟩
  simp [push, h.maps s hs, h.invOn_left hs]

/-- membership in a related row -/
theorem RewRel.mem_row' (h : RewRel π ρ o o' r r' nodes nodes') {s : Nat} (hs : s < o.size)
    {t' : Tr K} : t' ∈ nodes'.getD (π s) [] ↔ ∃ t ∈ nodes.getD s [], trMap π ρ t = t' := by
  rw [(h.rows s hs).mem_iff, List.mem_map]

theorem RewRel.row_nil_iff (h : RewRel π ρ o o' r r' nodes nodes') {s : Nat} (hs : s < o.size) :
    nodes'.getD (π s) [] = [] ↔ nodes.getD s [] = [] := by
  have hl := (h.rows s hs).length_eq
  rw [List.length_map] at hl
  rw [← List.length_eq_zero_iff, ← List.length_eq_zero_iff, hl]

/-- a `Presents` pair of games whose transition lists have been replaced by related lists -/
theorem Presents.rewRel {g g' : Game K} (h : Presents π ρ g g')
    (hrows : ∀ s < g.owners.size,
      (nodes'.getD (π s) []).Perm ((nodes.getD s []).map (trMap π ρ)))
    (htgt : ∀ s < g.owners.size, ∀ t ∈ nodes.getD s [], t.tgt < g.owners.size) :
    RewRel π ρ g.owners g'.owners g.rewards g'.rewards nodes nodes' :=
  ⟨h.n_owners, h.maps, h.inj, h.owners, h.rewards, hrows, htgt⟩

/-! ### the minimum over a row started at one of its members -/

/-- the minimum over a row, started at the value of a member of the row, is the minimum of the
row: it does not depend on which member, nor on the order of the row -/
theorem minOver_start_eq (x x' : Array K) {row row' : List (Tr K)} {a a' : Tr K}
    (ha : a ∈ row) (ha' : a' ∈ row') (hp : row'.Perm (row.map (trMap π ρ)))
    (hx : ∀ t ∈ row, x'.getD (π t.tgt) 0 = x.getD t.tgt 0) :
    minOver x' row' (x'.getD a'.tgt 0) = minOver x row (x.getD a.tgt 0) := by
  apply le_antisymm
  · have hB : ∃ u ∈ row, minOver x row (x.getD a.tgt 0) = x.getD u.tgt 0 := by
      rcases minOver_attained x row (x.getD a.tgt 0) with h | h
      · exact ⟨a, ha, h⟩
      · exact h
    obtain ⟨u, hu, hBu⟩ := hB
    rw [hBu, ← hx u hu]
    exact minOver_le_mem x' row' _ (trMap π ρ u) (hp.mem_iff.mpr (List.mem_map_of_mem hu))
  · have hA : ∃ u' ∈ row', minOver x' row' (x'.getD a'.tgt 0) = x'.getD u'.tgt 0 := by
      rcases minOver_attained x' row' (x'.getD a'.tgt 0) with h | h
      · exact ⟨a', ha', h⟩
      · exact h
    obtain ⟨u', hu', hAu⟩ := hA
    obtain ⟨u, hu, rfl⟩ := List.mem_map.mp (hp.mem_iff.mp hu')
    rw [hAu, trMap_tgt, hx u hu]
    exact minOver_le_mem x row _ u hu

/-! ### the reward Bellman operator -/

/-- `Brew` commutes with the re-presentation, for ANY `x'` that agrees with `x` along `π` -/
theorem brew_eq (h : RewRel π ρ o o' r r' nodes nodes') {x x' : Array K}
    (hx : ∀ s < o.size, x'.getD (π s) 0 = x.getD s 0) {s : Nat} (hs : s < o.size) :
    Brew o' r' nodes' x' (π s) = Brew o r nodes x s := by
  have hval : ∀ t ∈ nodes.getD s [], x'.getD (π t.tgt) 0 = x.getD t.tgt 0 :=
    fun t ht => hx _ (h.tgt s hs t ht)
  have hp := h.rows s hs
  cases hrow : nodes.getD s [] with
  | nil =>
    rw [Brew_nil o r nodes x s hrow, Brew_nil o' r' nodes' x' (π s) ((h.row_nil_iff hs).mpr hrow)]
  | cons t0 rest =>
    have hne : nodes.getD s [] ≠ [] := by rw [hrow]; simp
    have hne' : nodes'.getD (π s) [] ≠ [] := fun h0 => hne ((h.row_nil_iff hs).mp h0)
    have ho := h.owners s hs
    cases hog : o.getD s .prob with
    | prob =>
      rw [Brew_prob o r nodes x s hne hog, Brew_prob o' r' nodes' x' (π s) hne' (ho.trans hog),
        h.rewards s hs, sumOver_perm x' hp, sumOver_map x x' _ hval]
    | p1 =>
      rw [Brew_p1 o r nodes x s hne hog, Brew_p1 o' r' nodes' x' (π s) hne' (ho.trans hog),
        h.rewards s hs, maxOver_perm x' hp, maxOver_map x x' _ hval]
    | p2 =>
      obtain ⟨t0', rest', hrow'⟩ := List.exists_cons_of_ne_nil hne'
      rw [Brew_p2 o r nodes x s t0 rest hrow hog,
        Brew_p2 o' r' nodes' x' (π s) t0' rest' hrow' (ho.trans hog), h.rewards s hs]
      congr 1
      rw [hrow] at hval
      exact minOver_start_eq x x' List.mem_cons_self List.mem_cons_self
        (by rw [← hrow', ← hrow]; exact hp) hval

/-! ### absorbing states -/

theorem absorbing_iff (h : RewRel π ρ o o' r r' nodes nodes') {s : Nat} (hs : s < o.size) :
    Absorbing o' r' nodes' (π s) ↔ Absorbing o r nodes s := by
  unfold Absorbing
  rw [h.owners s hs, h.rewards s hs]
  refine and_congr_right (fun _ => and_congr_right (fun _ => ⟨?_, ?_⟩))
  · rintro ⟨t', hrow', ht', hp'⟩
    have hp := h.rows s hs
    rw [hrow'] at hp
    have hmap : (nodes.getD s []).map (trMap π ρ) = [t'] := (List.singleton_perm.mp hp).symm
    obtain ⟨t, hrow, rfl⟩ := List.map_eq_singleton_iff.mp hmap
    refine ⟨t, hrow, ?_, hp'⟩
    exact h.inj _ (h.tgt s hs t (by rw [hrow]; exact List.mem_singleton_self t)) _ hs ht'
  · rintro ⟨t, hrow, ht, hp1⟩
    have hp := h.rows s hs
    rw [hrow] at hp
    refine ⟨trMap π ρ t, List.perm_singleton.mp hp, ?_, hp1⟩
    rw [trMap_tgt, ht]

/-! ### exact solutions of the reward equations -/

theorem exactRew_push (h : RewRel π ρ o o' r r' nodes nodes') {w w' : Array K}
    (hw : ∀ s < o.size, w'.getD (π s) 0 = w.getD s 0) (hex : ExactRew o r nodes w) :
    ExactRew o' r' nodes' w' := by
  refine ⟨fun u hu => ?_, fun u hu ha => ?_⟩
  · rw [h.n_owners] at hu
    obtain ⟨s, hs, rfl⟩ := h.surj u hu
    rw [brew_eq h hw hs, hw s hs]
    exact hex.1 s hs
  · rw [h.n_owners] at hu
    obtain ⟨s, hs, rfl⟩ := h.surj u hu
    rw [hw s hs]
    exact hex.2 s hs ((absorbing_iff h hs).mp ha)

theorem exactRew_pull (h : RewRel π ρ o o' r r' nodes nodes') {w w' : Array K}
    (hw : ∀ s < o.size, w'.getD (π s) 0 = w.getD s 0) (hex : ExactRew o' r' nodes' w') :
    ExactRew o r nodes w := by
  refine ⟨fun s hs => ?_, fun s hs ha => ?_⟩
  · rw [← brew_eq h hw hs, ← hw s hs]
    exact hex.1 _ (by rw [h.n_owners]; exact h.maps s hs)
  · rw [← hw s hs]
    exact hex.2 _ (by rw [h.n_owners]; exact h.maps s hs) ((absorbing_iff h hs).mpr ha)

/-! ### rankedness -/

/-- rankedness transports along the re-presentation, with the rank function `rk ∘ π⁻¹` and the
same bound -/
theorem ranked_push (h : RewRel π ρ o o' r r' nodes nodes') {rk : Nat → Nat} {R : Nat}
    (hrk : Ranked o r nodes rk R) :
    Ranked o' r' nodes' (fun u => rk (invOn π o.size u)) R := by
  refine ⟨fun u hu => ?_, fun u hu hna t' ht' => ?_⟩
  · rw [h.n_owners] at hu
    exact hrk.bound _ (h.invOn_spec hu).1
  · rw [h.n_owners] at hu ⊢
    obtain ⟨s, hs, rfl⟩ := h.surj u hu
    obtain ⟨t, ht, rfl⟩ := (h.mem_row' hs).mp ht'
    have hna' : ¬ Absorbing o r nodes s := fun ha => hna ((absorbing_iff h hs).mpr ha)
    obtain ⟨htn, hlt⟩ := hrk.step s hs hna' t ht
    refine ⟨h.maps _ htn, ?_⟩
    rcases hlt with ha | hlt
    · exact Or.inl ((absorbing_iff h htn).mpr ha)
    · right
      show rk (invOn π o.size (π t.tgt)) < rk (invOn π o.size (π s))
      rw [h.invOn_left htn, h.invOn_left hs]
      exact hlt

/-! ### the final strategy lists -/

/-- the running minimum over a row started at the key of a member of the row does not depend on
which member -/
theorem runMin_start_eq {β : Type} (key : β → Int) {row : List β} {a b : β} (ha : a ∈ row)
    (hb : b ∈ row) : runMin key (key a) row = runMin key (key b) row := by
  have key_le : ∀ c ∈ row, ∀ d ∈ row, runMin key (key c) row ≤ runMin key (key d) row := by
    intro c hc d hd
    rcases runMin_mem key row (key d) with h | ⟨u, hu, h⟩
    · rw [h]; exact runMin_le_key key row _ d hd
    · rw [← h]; exact runMin_le_key key row _ u hu
  exact le_antisymm (key_le a ha b hb) (key_le b hb a ha)

theorem worstStratRew_perm (rnd : K → Int) {v v' : Array K} {row' row : List (Tr K)}
    (hp : row'.Perm (row.map (trMap π ρ)))
    (hv : ∀ t ∈ row, v'.getD (π t.tgt) 0 = v.getD t.tgt 0) :
    (worstStratRew rnd v' row').Perm ((worstStratRew rnd v row).map ρ) := by
  cases row with
  | nil =>
    have : row' = [] := List.perm_nil.mp (by simpa using hp)
    subst this
    exact List.Perm.refl _
  | cons t0 rest =>
    cases row' with
    | nil =>
      have := hp.length_eq
      simp at this
    | cons t0' rest' =>
      obtain ⟨u, hu, hut⟩ := List.mem_map.mp (hp.mem_iff.mp List.mem_cons_self)
      have hstart : rnd (v'.getD t0'.tgt 0) = rkey rnd v u := by
        rw [← hut, trMap_tgt, hv u hu]
      have h1 : worstStratRew rnd v' (t0' :: rest') =
          worstStratFrom rnd (rkey rnd v u) v' (t0' :: rest') := by
        show worstStratFrom rnd (rnd (v'.getD t0'.tgt 0)) v' (t0' :: rest') = _
        rw [hstart]
      have h2 : worstStratRew rnd v (t0 :: rest) =
          worstStratFrom rnd (rkey rnd v u) v (t0 :: rest) := by
        show worstStratFrom rnd (rkey rnd v t0) v (t0 :: rest) = _
        rw [worstStratFrom_eq, worstStratFrom_eq,
          runMin_start_eq (rkey rnd v) List.mem_cons_self hu]
      rw [h1, h2]
      exact worstStratFrom_perm rnd _ hp hv

/-- with the same rounding function and vectors that agree along `π`, the final strategy entry
computed for `π s` lists exactly the renamed actions of the entry for `s`, possibly in a different
order -/
theorem rewardStrategies_perm (h : RewRel π ρ o o' r r' nodes nodes') (rnd : K → Int)
    {x x' : Array K} (hx : ∀ s < o.size, x'.getD (π s) 0 = x.getD s 0) {s : Nat}
    (hs : s < o.size) :
    StratPerm ρ ((rewardStrategies rnd o nodes x).getD s none)
      ((rewardStrategies rnd o' nodes' x').getD (π s) none) := by
  have hrow : ∀ t ∈ nodes.getD s [], x'.getD (π t.tgt) 0 = x.getD t.tgt 0 :=
    fun t ht => hx _ (h.tgt s hs t ht)
  rw [rewardStrategies_getD, rewardStrategies_getD, h.owners s hs]
  cases hog : o.getD s .prob with
  | p1 => exact bestStrat_perm rnd (h.rows s hs) hrow
  | p2 => exact worstStratRew_perm rnd (h.rows s hs) hrow
  | prob => trivial

/-- a strategy entry related to a list is a list, a permutation of the renamed list -/
theorem stratPerm_some {l : List String} {st' : Strat} (h : StratPerm ρ (some l) st') :
    ∃ l', st' = some l' ∧ l'.Perm (l.map ρ) := by
  cases st' with
  | none => exact absurd h id
  | some l' => exact ⟨l', rfl, h⟩

end CR.Present
