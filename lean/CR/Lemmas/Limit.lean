/- helper lemmas for CR/Props/C01Limit.lean: the Gauss–Seidel iterates of the reachability phase
increase, are bounded by every pre-fixed point, and (over ℝ) converge to the value -/
import CR.Props.C01Path
import CR.Lemmas.ExtraValue
import Mathlib.Order.Monotone.Basic
import Mathlib.Order.ConditionallyCompleteLattice.Indexed

set_option linter.unusedSectionVars false

namespace CR.Limit

open CR CR.VI CR.C01

/-! ### any linearly ordered field -/

section Gen
variable {K : Type} [Field K] [LinearOrder K] [IsStrictOrderedRing K]

/-- the `k`-th Gauss–Seidel iterate of the initial vector -/
def iter (g : Game K) (k : Nat) : Array K :=
  (sweepVec g.owners g.tl (gameOrder g))^[k] (initVec g)

theorem iter_succ (g : Game K) (k : Nat) :
    iter g (k + 1) = sweepVec g.owners g.tl (gameOrder g) (iter g k) :=
  Function.iterate_succ_apply' _ _ _

theorem gameOrder_not_final (g : Game K) {s : Nat} (hs : s ∈ gameOrder g) :
    g.finals.contains s = false := by
  have := not_final_of_mem_reverseDfs _ _ s hs
  simpa using this

theorem gameOrder_nodup (g : Game K) : (gameOrder g).Nodup := reverseDfs_nodup _ _

theorem bell_of_gameOrder (g : Game K) {s : Nat} (hs : s ∈ gameOrder g) (x : Array K) :
    Bell g x s = stepReach g.owners g.tl x s := by
  unfold Bell; rw [gameOrder_not_final g hs]; rfl

theorem initVec_nonneg (g : Game K) (j : Nat) : 0 ≤ (initVec g).getD j 0 := by
  rw [getD_initVec]; split_ifs
  · exact zero_le_one
  · exact le_rfl

theorem subSol_iter {g : Game K} (hwf : WF g) (k : Nat) :
    (iter g k).size = g.owners.size ∧ SubSol g.owners g.tl (gameOrder g) (iter g k) := by
  unfold iter
  refine iterate_inv
    (fun x => x.size = g.owners.size ∧ SubSol g.owners g.tl (gameOrder g) x) _ ?_ k _ ?_
  · intro x ⟨hn, hsub⟩
    have := subSol_sweep (o := g.owners) (tl := g.tl) (gameOrder g) g.owners.size
      (fun s _ hs => hwf.rowNonneg_pub hs) x hn hsub
    exact ⟨this.1, this.2.1⟩
  · refine ⟨initVec_size g, fun s hs hlt => ?_⟩
    rw [initVec_size] at hlt
    rw [getD_initVec, gameOrder_not_final g hs]
    simp only [Bool.false_eq_true, and_false, if_false]
    exact stepReach_nonneg (hwf.rowNonneg_pub hlt) _ (initVec_nonneg g)

theorem iter_size {g : Game K} (hwf : WF g) (k : Nat) : (iter g k).size = g.owners.size :=
  (subSol_iter hwf k).1

theorem iter_oob {g : Game K} (hwf : WF g) (k j : Nat) (hj : g.owners.size ≤ j) :
    (iter g k).getD j 0 = 0 :=
  getD_of_size_le _ _ _ (by rw [iter_size hwf k]; exact hj)

theorem iter_le_succ {g : Game K} (hwf : WF g) (k j : Nat) :
    (iter g k).getD j 0 ≤ (iter g (k + 1)).getD j 0 := by
  obtain ⟨hn, hsub⟩ := subSol_iter hwf k
  rw [iter_succ]
  exact (subSol_sweep (o := g.owners) (tl := g.tl) (gameOrder g) g.owners.size
    (fun s _ hs => hwf.rowNonneg_pub hs) _ hn hsub).2.2 j

theorem iter_mono {g : Game K} (hwf : WF g) (j : Nat) {k m : Nat} (h : k ≤ m) :
    (iter g k).getD j 0 ≤ (iter g m).getD j 0 :=
  monotone_nat_of_le_succ (f := fun k => (iter g k).getD j 0) (fun k => iter_le_succ hwf k j) h

theorem iter_nonneg {g : Game K} (hwf : WF g) (k j : Nat) : 0 ≤ (iter g k).getD j 0 :=
  le_trans (initVec_nonneg g j) (iter_mono hwf j (Nat.zero_le k))

theorem initVec_le_prefixed {g : Game K} (y : Array K) (hy : PreFixed g y) (j : Nat) :
    (initVec g).getD j 0 ≤ y.getD j 0 := by
  rw [getD_initVec]
  by_cases hc : j < g.owners.size ∧ g.finals.contains j = true
  · rw [if_pos hc]
    have := hy.2.2 j hc.1
    unfold Bell at this
    rwa [if_pos hc.2] at this
  · rw [if_neg hc]
    by_cases hj : j < g.owners.size
    · exact hy.2.1 j hj
    · rw [getD_of_size_le y j 0 (by rw [hy.1]; exact Nat.le_of_not_lt hj)]

theorem le_prefixed_step {g : Game K} (hwf : WF g) (y : Array K) (hy : PreFixed g y)
    (x : Array K) (s : Nat) (hso : s ∈ gameOrder g)
    (h : x.size = g.owners.size ∧ ∀ j, x.getD j 0 ≤ y.getD j 0) :
    (x.setIfInBounds s (stepReach g.owners g.tl x s)).size = g.owners.size ∧
      ∀ j, (x.setIfInBounds s (stepReach g.owners g.tl x s)).getD j 0 ≤ y.getD j 0 := by
  obtain ⟨hn, hle⟩ := h
  refine ⟨by simpa using hn, fun j => ?_⟩
  rw [getD_setIfInBounds]
  by_cases hc : s = j ∧ s < x.size
  · rw [if_pos hc]
    obtain ⟨rfl, hlt⟩ := hc
    have hs : s < g.owners.size := hn ▸ hlt
    calc stepReach g.owners g.tl x s
        ≤ stepReach g.owners g.tl y s := stepReach_mono (hwf.rowNonneg_pub hs) x y hle
      _ = Bell g y s := (bell_of_gameOrder g hso y).symm
      _ ≤ y.getD s 0 := hy.2.2 s hs
  · rw [if_neg hc]; exact hle j

/-- every iterate is below every pre-fixed point (all indices) -/
theorem iter_le_prefixed {g : Game K} (hwf : WF g) (y : Array K) (hy : PreFixed g y) (k j : Nat) :
    (iter g k).getD j 0 ≤ y.getD j 0 := by
  have := iterate_inv (fun x : Array K => x.size = g.owners.size ∧ ∀ j, x.getD j 0 ≤ y.getD j 0)
    (sweepVec g.owners g.tl (gameOrder g))
    (fun x hx => sweepReach_inv (o := g.owners) (tl := g.tl)
      (fun x : Array K => x.size = g.owners.size ∧ ∀ j, x.getD j 0 ≤ y.getD j 0) (gameOrder g)
      (fun x s hs h => le_prefixed_step hwf y hy x s hs h) x hx)
    k (initVec g) ⟨initVec_size g, initVec_le_prefixed y hy⟩
  exact this.2 j

theorem iter_untouched (g : Game K) (k j : Nat) (hj : j ∉ gameOrder g) :
    (iter g k).getD j 0 = (initVec g).getD j 0 := by
  unfold iter
  exact iterate_inv (fun x : Array K => x.getD j 0 = (initVec g).getD j 0) _ (fun x hx => by
    show (sweepFrom g.owners g.tl (gameOrder g) (x, 0)).1.getD j 0 = _
    rw [sweepFrom_untouched _ _ j hj]; exact hx) k _ rfl

/-- the change reported by the sweep that turns iterate `k` into iterate `k+1` -/
def dres (g : Game K) (k : Nat) : K := (sweepReach g.owners g.tl (gameOrder g) (iter g k)).2

theorem dres_nonneg (g : Game K) (k : Nat) : 0 ≤ dres g k :=
  sweepFrom_diff_ge (o := g.owners) (tl := g.tl) (gameOrder g) (iter g k, 0)

theorem dres_attained {g : Game K} (hwf : WF g) (k : Nat) :
    dres g k = 0 ∨ ∃ s ∈ gameOrder g, s < g.owners.size ∧
      dres g k = |(iter g (k + 1)).getD s 0 - (iter g k).getD s 0| := by
  have hn := iter_size hwf k
  have := sweepFrom_diff_attained (o := g.owners) (tl := g.tl) (gameOrder g) (gameOrder_nodup g)
    (iter g k, 0) le_rfl
    (fun y s hs => stepReach_out_of_range (by rw [← hn]; exact hs)
      (by rw [hwf.1, ← hn]; exact hs) y)
  rw [iter_succ]
  rcases this with h | ⟨s, hs, hlt, h⟩
  · left; exact h
  · right; exact ⟨s, hs, by rw [← hn]; exact hlt, h⟩

theorem dres_residual {g : Game K} (hwf : WF g) (k s : Nat) (hs : s ∈ gameOrder g)
    (hlt : s < g.owners.size) :
    |stepReach g.owners g.tl (iter g (k + 1)) s - (iter g (k + 1)).getD s 0| ≤ dres g k := by
  have hn := iter_size hwf k
  rw [iter_succ]
  exact sweepFrom_residual (o := g.owners) (tl := g.tl) (gameOrder g) (gameOrder_nodup g)
    (iter g k, 0) le_rfl s (hwf.rowNonneg_pub hlt) (hwf.rowSumOne_pub hlt) hs
    (by rw [hn]; exact hlt)

/-! ### the search order is closed (from `WF` alone) -/

theorem targets_inRange_wf {g : Game K} (hwf : WF g) :
    ∀ row ∈ targets g, ∀ v ∈ row, v < (targets g).length := by
  intro row hr v hv
  simp only [targets, List.mem_map] at hr
  obtain ⟨row', hr', rfl⟩ := hr
  simp only [List.mem_map] at hv
  obtain ⟨t, ht, rfl⟩ := hv
  obtain ⟨i, hi, rfl⟩ := Array.mem_iff_getElem.mp (by simpa using hr' : row' ∈ g.tl)
  have hi' : i < g.owners.size := hwf.1 ▸ hi
  have he : g.tl.getD i [] = g.tl[i] := by simp [Array.getD, hi]
  have := hwf.2.1 i hi' t (by rw [he]; exact ht)
  simpa [targets, hwf.1] using this

theorem gameOrder_mem_iff {g : Game K} (hwf : WF g) (s : Nat) :
    s ∈ gameOrder g ↔ (s ∉ g.finals ∧ ∃ f ∈ g.finals, C07.Reach (targets g) s f) :=
  C07.rdfs_mem (targets g) g.finals (targets_inRange_wf hwf) s

theorem gameOrder_closed {g : Game K} (hwf : WF g) :
    ∀ s < g.owners.size, s ∉ gameOrder g → s ∉ g.finals →
      ∀ t ∈ g.tl.getD s [], t.tgt ∉ gameOrder g ∧ t.tgt ∉ g.finals := by
  have hsz := hwf.1
  intro s hs hso hsf t ht
  have hedge : C07.Edge (targets g) s t.tgt := by
    unfold C07.Edge targets
    have hlt' : s < g.tl.size := hsz ▸ hs
    have : g.tl.getD s [] = g.tl[s] := by simp [Array.getD, hlt']
    rw [this] at ht
    simp only [List.getD_eq_getElem?_getD, List.getElem?_map, Array.getElem?_toList]
    simp [hlt']
    exact ⟨t, ht, rfl⟩
  constructor
  · intro hto
    obtain ⟨_, f, hf, hreach⟩ := (gameOrder_mem_iff hwf t.tgt).mp hto
    exact hso ((gameOrder_mem_iff hwf s).mpr ⟨hsf, f, hf, Relation.ReflTransGen.head hedge hreach⟩)
  · intro htf
    exact hso ((gameOrder_mem_iff hwf s).mpr
      ⟨hsf, t.tgt, htf, Relation.ReflTransGen.single hedge⟩)

/-- a positive lower bound for the non-zero ones among finitely many non-negative numbers -/
theorem exists_delta (d : Nat → K) (hd : ∀ k, 0 ≤ d k) (N : Nat) :
    ∃ δ : K, 0 < δ ∧ δ ≤ 1 ∧ ∀ k < N, d k = 0 ∨ δ ≤ d k := by
  induction N with
  | zero => exact ⟨1, zero_lt_one, le_rfl, fun k hk => absurd hk (Nat.not_lt_zero _)⟩
  | succ N ih =>
    obtain ⟨δ, h0, h1, h⟩ := ih
    by_cases hz : d N = 0
    · refine ⟨δ, h0, h1, fun k hk => ?_⟩
      rcases Nat.lt_succ_iff_lt_or_eq.mp hk with hk | rfl
      · exact h k hk
      · exact Or.inl hz
    · have hpos : 0 < d N := lt_of_le_of_ne (hd N) (Ne.symm hz)
      refine ⟨min δ (d N), lt_min h0 hpos, le_trans (min_le_left _ _) h1, fun k hk => ?_⟩
      rcases Nat.lt_succ_iff_lt_or_eq.mp hk with hk | rfl
      · rcases h k hk with h | h
        · exact Or.inl h
        · exact Or.inr (le_trans (min_le_left _ _) h)
      · exact Or.inr (min_le_right _ _)

end Gen

/-! ### the reals: the limit of the iterates -/

section Real

/-- the pointwise supremum (= limit) of the iterates -/
noncomputable def lim (g : Game ℝ) (j : Nat) : ℝ := ⨆ k, (iter g k).getD j 0

theorem iter_bdd {g : Game ℝ} (hwf : WF g) (j : Nat) :
    BddAbove (Set.range fun k => (iter g k).getD j 0) :=
  ⟨(ones g).getD j 0, by
    rintro _ ⟨k, rfl⟩; exact iter_le_prefixed hwf _ (ones_prefixed hwf) k j⟩

theorem le_lim {g : Game ℝ} (hwf : WF g) (k j : Nat) : (iter g k).getD j 0 ≤ lim g j :=
  le_ciSup (iter_bdd hwf j) k

theorem lim_le_prefixed {g : Game ℝ} (hwf : WF g) (y : Array ℝ) (hy : PreFixed g y) (j : Nat) :
    lim g j ≤ y.getD j 0 :=
  ciSup_le (fun k => iter_le_prefixed hwf y hy k j)

theorem lim_const {g : Game ℝ} (j : Nat) (c : ℝ) (h : ∀ k, (iter g k).getD j 0 = c) :
    lim g j = c := by
  unfold lim
  have : (fun k => (iter g k).getD j 0) = fun _ => c := funext h
  rw [this]; exact ciSup_const

theorem lim_oob {g : Game ℝ} (hwf : WF g) (j : Nat) (hj : g.owners.size ≤ j) : lim g j = 0 :=
  lim_const j 0 (fun k => iter_oob hwf k j hj)

theorem lim_untouched {g : Game ℝ} (j : Nat) (hj : j ∉ gameOrder g) :
    lim g j = (initVec g).getD j 0 :=
  lim_const j _ (fun k => iter_untouched g k j hj)

theorem lim_close_one {g : Game ℝ} (hwf : WF g) (ε : ℝ) (hε : 0 < ε) (j : Nat) :
    ∃ N, ∀ k, N ≤ k → lim g j - ε < (iter g k).getD j 0 := by
  have hlt : lim g j - ε < ⨆ k, (iter g k).getD j 0 := by
    show lim g j - ε < lim g j
    linarith
  obtain ⟨N, hN⟩ := exists_lt_of_lt_ciSup hlt
  exact ⟨N, fun k hk => lt_of_lt_of_le hN (iter_mono hwf j hk)⟩

theorem lim_close_below {g : Game ℝ} (hwf : WF g) (ε : ℝ) (hε : 0 < ε) (m : Nat) :
    ∃ N, ∀ k, N ≤ k → ∀ j < m, lim g j - ε < (iter g k).getD j 0 := by
  induction m with
  | zero => exact ⟨0, fun k _ j hj => absurd hj (Nat.not_lt_zero _)⟩
  | succ m ih =>
    obtain ⟨N1, h1⟩ := ih
    obtain ⟨N2, h2⟩ := lim_close_one hwf ε hε m
    refine ⟨max N1 N2, fun k hk j hj => ?_⟩
    rcases Nat.lt_succ_iff_lt_or_eq.mp hj with h | rfl
    · exact h1 k (le_trans (le_max_left _ _) hk) j h
    · exact h2 k (le_trans (le_max_right _ _) hk)

/-- uniform closeness: from some iterate on, every coordinate is within `ε` of its limit -/
theorem lim_close {g : Game ℝ} (hwf : WF g) (ε : ℝ) (hε : 0 < ε) :
    ∃ N, ∀ k, N ≤ k → ∀ j, lim g j - ε < (iter g k).getD j 0 := by
  obtain ⟨N, h⟩ := lim_close_below hwf ε hε g.owners.size
  refine ⟨N, fun k hk j => ?_⟩
  by_cases hj : j < g.owners.size
  · exact h k hk j hj
  · rw [lim_oob hwf j (Nat.le_of_not_lt hj), iter_oob hwf k j (Nat.le_of_not_lt hj)]
    linarith

/-- the limit as a vector -/
noncomputable def limVec (g : Game ℝ) : Array ℝ :=
  Array.ofFn (n := g.owners.size) (fun j => lim g j.val)

theorem limVec_size (g : Game ℝ) : (limVec g).size = g.owners.size := by simp [limVec]

theorem getD_limVec {g : Game ℝ} (hwf : WF g) (j : Nat) : (limVec g).getD j 0 = lim g j := by
  unfold limVec
  rw [getD_ofFn_dflt]
  split
  · rfl
  · rename_i h; exact (lim_oob hwf j (Nat.le_of_not_lt h)).symm

theorem dres_small {g : Game ℝ} (hwf : WF g) (ε : ℝ) (hε : 0 < ε) (k : Nat)
    (hk : ∀ j, lim g j - ε < (iter g k).getD j 0) : dres g k ≤ ε := by
  rcases dres_attained hwf k with h | ⟨s, _, _, h⟩
  · rw [h]; exact le_of_lt hε
  · rw [h, abs_le]
    have a := hk s
    have b := le_lim hwf (k + 1) s
    have c := iter_le_succ hwf k s
    constructor <;> linarith

theorem eq_of_close (a b : ℝ) (h : ∀ ε, 0 < ε → |a - b| ≤ 3 * ε) : a = b := by
  by_contra hne
  have hpos : 0 < |a - b| := abs_pos.mpr (sub_ne_zero.mpr hne)
  have := h (|a - b| / 4) (by linarith)
  linarith

/-- the limit is fixed by the step function on every swept coordinate -/
theorem lim_fixed {g : Game ℝ} (hwf : WF g) (s : Nat) (hs : s ∈ gameOrder g)
    (hlt : s < g.owners.size) : stepReach g.owners g.tl (limVec g) s = lim g s := by
  apply eq_of_close
  intro ε hε
  obtain ⟨N, hN⟩ := lim_close hwf ε hε
  have h1 : |stepReach g.owners g.tl (limVec g) s - stepReach g.owners g.tl (iter g (N + 1)) s|
      ≤ ε := by
    refine stepReach_nonexp (hwf.rowNonneg_pub hlt) (hwf.rowSumOne_pub hlt) _ _ _ (fun j => ?_)
    rw [getD_limVec hwf, abs_le]
    have a := hN (N + 1) (Nat.le_succ N) j
    have b := le_lim hwf (N + 1) j
    constructor <;> linarith
  have h2 := dres_residual hwf N s hs hlt
  have h3 := dres_small hwf ε hε N (hN N le_rfl)
  have a := hN (N + 1) (Nat.le_succ N) s
  have b := le_lim hwf (N + 1) s
  rw [abs_le] at h1 h2 ⊢
  constructor <;> linarith [h1.1, h1.2, h2.1, h2.2]

/-- the limit vector is a pre-fixed point of the Bellman operator (every state needs a
transition: a Player-2 state without one has step value 1) -/
theorem limVec_prefixed {g : Game ℝ} (hwf : WF g)
    (hne : ∀ s < g.owners.size, g.tl.getD s [] ≠ []) : PreFixed g (limVec g) := by
  refine ⟨limVec_size g, fun s _ => ?_, fun s hlt => ?_⟩
  · rw [getD_limVec hwf]
    exact le_trans (iter_nonneg hwf 0 s) (le_lim hwf 0 s)
  · rw [getD_limVec hwf]
    by_cases hf : s ∈ g.finals
    · have hso : s ∉ gameOrder g := fun h => by
        have := gameOrder_not_final g h
        simp [hf] at this
      rw [lim_untouched s hso, getD_initVec]
      unfold Bell
      simp [hf, hlt]
    · by_cases hs : s ∈ gameOrder g
      · rw [bell_of_gameOrder g hs, lim_fixed hwf s hs hlt]
      · have hzero : ∀ j, j ∉ gameOrder g → j ∉ g.finals → (limVec g).getD j 0 = 0 := by
          intro j hj hjf
          rw [getD_limVec hwf, lim_untouched j hj, getD_initVec]
          simp [hjf]
        rw [← getD_limVec hwf, hzero s hs hf]
        unfold Bell
        have : g.finals.contains s = false := by simpa using hf
        rw [this]
        simp only [Bool.false_eq_true, if_false]
        apply le_of_eq
        refine stepReach_eq_zero (hwf.rowNonneg_pub hlt) (fun _ => hne s hlt) _ (fun t ht => ?_)
        obtain ⟨h1, h2⟩ := gameOrder_closed hwf s hlt hs hf t ht
        exact hzero _ h1 h2

/-- the limit is the value -/
theorem lim_eq_value {g : Game ℝ} (hwf : WF g) (hne : ∀ s < g.owners.size, g.tl.getD s [] ≠ [])
    (v : Array ℝ) (hv : IsValue g v) (s : Nat) (hs : s < g.owners.size) :
    lim g s = v.getD s 0 := by
  refine le_antisymm (lim_le_prefixed hwf v hv.1 s) ?_
  have := hv.2 _ (limVec_prefixed hwf hne) s hs
  rwa [getD_limVec hwf] at this

/-- the iterates converge to the value, uniformly in the state -/
theorem iter_converges {g : Game ℝ} (hwf : WF g) (hne : ∀ s < g.owners.size, g.tl.getD s [] ≠ [])
    (v : Array ℝ) (hv : IsValue g v) (ε : ℝ) (hε : 0 < ε) :
    ∃ N : Nat, ∀ k, N ≤ k → ∀ s < g.owners.size,
      v.getD s 0 - ε < (iter g k).getD s 0 ∧ (iter g k).getD s 0 ≤ v.getD s 0 := by
  obtain ⟨N, hN⟩ := lim_close hwf ε hε
  refine ⟨N, fun k hk s hs => ⟨?_, iter_le_prefixed hwf v hv.1 k s⟩⟩
  rw [← lim_eq_value hwf hne v hv s hs]
  exact hN k hk s

end Real

end CR.Limit

