/-
C09: malformed games are rejected with ValueError, never solved
(model: `CR/Model/Validate.lean`, `CR/Model/Batch.lean`; helper lemmas: `CR/Lemmas/Validate.lean`).

`Err.malformed rule` is the model of every `ValueError` raised by the validation
(`Err.noSolution` is the other `ValueError`, raised by the solver proper).
-/
import CR.Lemmas.Validate

namespace CR.C09

open CR CR.Py CR.Batch CR.ValidateLemmas

/-- The documented well-formedness rules, as a proposition that does not depend on the order
in which the code checks them (`n := g.players.length` is the number of states):
list lengths agree; no negative reward; at least one final state, all within `0..n-1`;
only the three documented players; every state has a non-empty *list* of 2-tuples whose first
slot is a number (probabilistic states) resp. a string (player states) and whose second slot
is an integer within `0..n-1`. -/
def DocWellFormed (g : PyGame) : Prop :=
  g.tl.length = g.players.length ∧ g.rewards.length = g.players.length ∧
  (∀ r ∈ g.rewards, r.isNeg = false) ∧
  g.finals ≠ [] ∧ (∀ f ∈ g.finals, 0 ≤ f ∧ f < (g.players.length : Int)) ∧
  (∀ p ∈ g.players, p = "Player 1" ∨ p = "Player 2" ∨ p = "Probabilistic") ∧
  (∀ k, k < g.players.length → ∃ xs, g.tl.getD k .none = .list xs ∧ xs ≠ [] ∧
    ∀ e ∈ xs, ∃ a b i, e = .tuple [a, b] ∧
      (g.players.getD k "" = "Probabilistic" → isNumber a = true) ∧
      (g.players.getD k "" ≠ "Probabilistic" → isStr a = true) ∧
      asInt b = some i ∧ 0 ≤ i ∧ i < (g.players.length : Int))

/-! ## 1–3: `validate` accepts exactly the documented games, and only raises `ValueError` -/

/-- 1. a game obeying every documented rule passes the validation -/
theorem validate_sound (g : PyGame) (h : DocWellFormed g) : validate g = .ok () :=
  (validate_ok_iff g).2 h

/-- 2. a game breaking any documented rule, at any state / transition / tuple slot, is rejected
with a `ValueError` -/
theorem validate_complete (g : PyGame) (h : ¬ DocWellFormed g) :
    ∃ rule, validate g = .error (.malformed rule) :=
  validate_of_not_WF g h

/-- 3. the validation raises nothing but `ValueError`s -/
theorem validate_errors_are_value_errors (g : PyGame) (e : Err) (h : validate g = .error e) :
    ∃ rule, e = .malformed rule :=
  validate_error g e h

/-- 1–3 together -/
theorem validate_iff (g : PyGame) : validate g = .ok () ↔ DocWellFormed g :=
  validate_ok_iff g

/-! ## 4: no result without validation -/

/-- 4a. a result is only ever returned for a documented game -/
theorem no_result_without_validate (thr : Float) (fuel : Nat) (prune : Bool) (g : PyGame)
    (out : SolveOut Float) (h : solvePy thr fuel prune g = .ok out) : DocWellFormed g :=
  solvePy_ok_WF thr fuel prune g out h

/-- 4b. solving a game that breaks a documented rule raises `ValueError`, pruned or not -/
theorem malformed_raises (thr : Float) (fuel : Nat) (prune : Bool) (g : PyGame)
    (h : ¬ DocWellFormed g) : ∃ rule, solvePy thr fuel prune g = .error (.malformed rule) :=
  solvePy_of_not_WF thr fuel prune g h

/-- 4b for both values of `prune` at once -/
theorem malformed_raises_both (thr : Float) (fuel : Nat) (g : PyGame) (h : ¬ DocWellFormed g) :
    (∃ rule, solvePy thr fuel true g = .error (.malformed rule)) ∧
    (∃ rule, solvePy thr fuel false g = .error (.malformed rule)) :=
  ⟨malformed_raises thr fuel true g h, malformed_raises thr fuel false g h⟩

/-! ## 5: the individual rules, at any position -/

section positions
variable (thr : Float) (fuel : Nat) (prune : Bool) (g : PyGame)

/-- list lengths disagree -/
theorem lengths_disagree
    (h : g.tl.length ≠ g.players.length ∨ g.rewards.length ≠ g.players.length) :
    ∃ rule, solvePy thr fuel prune g = .error (.malformed rule) :=
  malformed_raises thr fuel prune g (fun hw => h.elim (fun h => h hw.1) (fun h => h hw.2.1))

/-- a negative reward, anywhere in the list -/
theorem negative_reward (r : PyNum) (hr : r ∈ g.rewards) (hneg : r.isNeg = true) :
    ∃ rule, solvePy thr fuel prune g = .error (.malformed rule) :=
  malformed_raises thr fuel prune g (fun hw => by
    have := hw.2.2.1 r hr; rw [hneg] at this; cases this)

/-- an unknown player, anywhere in the list -/
theorem unknown_player (p : String) (hp : p ∈ g.players)
    (h : p ≠ "Player 1" ∧ p ≠ "Player 2" ∧ p ≠ "Probabilistic") :
    ∃ rule, solvePy thr fuel prune g = .error (.malformed rule) :=
  malformed_raises thr fuel prune g (fun hw => by
    rcases hw.2.2.2.2.2.1 p hp with h' | h' | h'
    · exact h.1 h'
    · exact h.2.1 h'
    · exact h.2.2 h')

/-- a final state outside `0..n-1` (`n` and `-1` included), anywhere in the list -/
theorem final_out_of_range (f : Int) (hf : f ∈ g.finals)
    (h : f < 0 ∨ (g.players.length : Int) ≤ f) :
    ∃ rule, solvePy thr fuel prune g = .error (.malformed rule) :=
  malformed_raises thr fuel prune g (fun hw => by
    have := hw.2.2.2.2.1 f hf; omega)

/-- no final state -/
theorem no_final_state (h : g.finals = []) :
    ∃ rule, solvePy thr fuel prune g = .error (.malformed rule) :=
  malformed_raises thr fuel prune g (fun hw => hw.2.2.2.1 h)

/-- a state without transitions (`None`, `[]`, `()`, `0`, `""`, `{}` … — anything falsy) -/
theorem state_without_transitions (k : Nat) (hk : k < g.players.length)
    (h : truthy (g.tl.getD k .none) = false) :
    ∃ rule, solvePy thr fuel prune g = .error (.malformed rule) :=
  malformed_raises thr fuel prune g (fun hw => by
    obtain ⟨xs, hxs, hne, _⟩ := hw.2.2.2.2.2.2 k hk
    rw [hxs] at h
    cases xs with
    | nil => exact hne rfl
    | cons => cases h)

/-- a state whose transitions are not a list -/
theorem transitions_not_a_list (k : Nat) (hk : k < g.players.length)
    (h : ∀ xs, g.tl.getD k .none ≠ .list xs) :
    ∃ rule, solvePy thr fuel prune g = .error (.malformed rule) :=
  malformed_raises thr fuel prune g (fun hw => by
    obtain ⟨xs, hxs, _⟩ := hw.2.2.2.2.2.2 k hk
    exact h xs hxs)

/-- an entry of a transition list that is not a 2-tuple -/
theorem not_a_two_tuple (k : Nat) (hk : k < g.players.length) (xs : List PyVal)
    (hxs : g.tl.getD k .none = .list xs) (e : PyVal) (he : e ∈ xs)
    (h : ∀ a b, e ≠ .tuple [a, b]) :
    ∃ rule, solvePy thr fuel prune g = .error (.malformed rule) :=
  malformed_raises thr fuel prune g (fun hw => by
    obtain ⟨xs', hxs', _, hall⟩ := hw.2.2.2.2.2.2 k hk
    rw [hxs] at hxs'; cases hxs'
    obtain ⟨a, b, _, hab, _⟩ := hall e he
    exact h a b hab)

/-- a non-string action on a player state -/
theorem non_string_action (k : Nat) (hk : k < g.players.length)
    (hp : g.players.getD k "" ≠ "Probabilistic") (xs : List PyVal)
    (hxs : g.tl.getD k .none = .list xs) (a b : PyVal) (he : .tuple [a, b] ∈ xs)
    (h : isStr a = false) :
    ∃ rule, solvePy thr fuel prune g = .error (.malformed rule) :=
  malformed_raises thr fuel prune g (fun hw => by
    obtain ⟨xs', hxs', _, hall⟩ := hw.2.2.2.2.2.2 k hk
    rw [hxs] at hxs'; cases hxs'
    obtain ⟨a', b', _, hab, _, hs, _⟩ := hall _ he
    cases hab
    rw [hs hp] at h; cases h)

/-- a non-numeric probability on a probabilistic state -/
theorem non_numeric_probability (k : Nat) (hk : k < g.players.length)
    (hp : g.players.getD k "" = "Probabilistic") (xs : List PyVal)
    (hxs : g.tl.getD k .none = .list xs) (a b : PyVal) (he : .tuple [a, b] ∈ xs)
    (h : isNumber a = false) :
    ∃ rule, solvePy thr fuel prune g = .error (.malformed rule) :=
  malformed_raises thr fuel prune g (fun hw => by
    obtain ⟨xs', hxs', _, hall⟩ := hw.2.2.2.2.2.2 k hk
    rw [hxs] at hxs'; cases hxs'
    obtain ⟨a', b', _, hab, hn, _⟩ := hall _ he
    cases hab
    rw [hn hp] at h; cases h)

/-- a non-integer successor -/
theorem non_integer_successor (k : Nat) (hk : k < g.players.length) (xs : List PyVal)
    (hxs : g.tl.getD k .none = .list xs) (a b : PyVal) (he : .tuple [a, b] ∈ xs)
    (h : asInt b = none) :
    ∃ rule, solvePy thr fuel prune g = .error (.malformed rule) :=
  malformed_raises thr fuel prune g (fun hw => by
    obtain ⟨xs', hxs', _, hall⟩ := hw.2.2.2.2.2.2 k hk
    rw [hxs] at hxs'; cases hxs'
    obtain ⟨a', b', i, hab, _, _, hi, _⟩ := hall _ he
    cases hab
    rw [hi] at h; cases h)

/-- a successor index outside `0..n-1` (`n` and `-1` included), at any state and any position
of its transition list -/
theorem bad_successor_index (k : Nat) (hk : k < g.players.length) (xs : List PyVal)
    (hxs : g.tl.getD k .none = .list xs) (a : PyVal) (i : Int) (he : .tuple [a, .int i] ∈ xs)
    (h : i < 0 ∨ (g.players.length : Int) ≤ i) :
    ∃ rule, solvePy thr fuel prune g = .error (.malformed rule) :=
  malformed_raises thr fuel prune g (fun hw => by
    obtain ⟨xs', hxs', _, hall⟩ := hw.2.2.2.2.2.2 k hk
    rw [hxs] at hxs'; cases hxs'
    obtain ⟨a', b', i', hab, _, _, hi, h0, hn⟩ := hall _ he
    cases hab
    cases hi
    omega)

end positions

/-! ## 6: the batch runner records the error -/

/-- 6. for a game breaking a documented rule the batch runner does not crash: the pruned entry
carries the `ValueError` message, the unpruned entry is marked "not solved", and neither
carries a result -/
theorem batch_records (thr : Float) (fuel : Nat) (g : PyGame) (h : ¬ DocWellFormed g) :
    ∃ rule e1 e2, runOne thr fuel g = .ok (e1, e2) ∧
      e1.msg = .error (.malformed rule) ∧ e2.msg = .notSolved ∧ e1.out = none ∧ e2.out = none := by
  obtain ⟨rule, hr⟩ := malformed_raises thr fuel true g h
  exact ⟨rule, _, _, runOne_failure thr fuel g _ hr rfl, rfl, rfl, rfl, rfl⟩

/-! ## non-vacuity -/

/-- a well-formed 3-state game; `s` is the successor of the last transition of state 1 -/
def demo (s : Int) : PyGame :=
  { rewards := [.int 1, .float 2.5, .int 0]
    players := ["Player 1", "Probabilistic", "Player 2"]
    tl := [.list [.tuple [.str "a", .int 1], .tuple [.str "b", .bool true]],
           .list [.tuple [.float 0.5, .int 0], .tuple [.int 1, .int s]],
           .list [.tuple [.str "stay", .int 2]]]
    finals := [2] }

example : DocWellFormed (demo 2) := (validate_iff _).1 rfl
example : DocWellFormed (demo 0) := (validate_iff _).1 rfl

/-- boundary: successor index `n = 3` -/
example : ¬ DocWellFormed (demo 3) := fun h => by
  have h1 := validate_sound _ h
  have h2 : validate (demo 3) = .error (.malformed "next state out of range") := rfl
  rw [h2] at h1; cases h1

/-- boundary: successor index `-1` -/
example : ¬ DocWellFormed (demo (-1)) := fun h => by
  have h1 := validate_sound _ h
  have h2 : validate (demo (-1)) = .error (.malformed "next state out of range") := rfl
  rw [h2] at h1; cases h1

example (thr : Float) (fuel : Nat) (prune : Bool) :
    ∃ rule, solvePy thr fuel prune (demo 3) = .error (.malformed rule) :=
  bad_successor_index thr fuel prune (demo 3) 1 (by decide) _ rfl (.int 1) 3
    (by simp) (Or.inr (by decide))

end CR.C09
