/-
C02 composed with C03: Bellman consistency of the reported expected rewards, stated against the
presentation-independent conditioned rows `condRow` (the specification vocabulary of C03) instead
of the solver's internal node lists `out.nodes`.

* `specNodes g strat reach`: the game whose row at state `s` is `condRow g strat reach s`
  (Player 2: verbatim; Player 1: strategy-permitted live transitions; probabilistic: live
  transitions renormalised) — no clearing of unreachable states, no reference to `prune_states`;
* `stratNodes g strat`: the rows of the unpruned run — Player 1 restricted to its reachability
  strategy, every other row verbatim;
  (both defined in `CR/Lemmas/ExtraSpec.lean`, with `specNodes_row` / `stratNodes_row`);
* `Brew_congr_row`: the reward Bellman operator at `s` depends on the transition lists only
  through the row of `s`.

`rew_consistency_wrt_spec` (pruning on): at every state reachable from state 0 in the
conditioned graph the reported reward vector satisfies the reward equations of `specNodes` up to
the threshold.  `rew_consistency_wrt_spec_noprune` (pruning off): the same at ALL states, for
`stratNodes`.
-/
import CR.Props.C02
import CR.Props.C03
import CR.Lemmas.ExtraSpec

set_option linter.unusedSectionVars false

namespace CR.C02

open CR CR.VI CR.Rew

variable {K : Type} [Field K] [LinearOrder K] [IsStrictOrderedRing K]

/-! ### `Brew` at `s` reads only the row of `s` -/

/-- the reward Bellman operator at state `s` depends on the transition lists only through the
row of `s` -/
theorem Brew_congr_row (owners : Array Owner) (rewards : Array K)
    (nodes nodes' : Array (List (Tr K))) (x : Array K) (s : Nat)
    (h : nodes.getD s [] = nodes'.getD s []) :
    Brew owners rewards nodes x s = Brew owners rewards nodes' x s := by
  unfold Brew
  rw [h]

section
variable {rnd : K → Int} {thr : K} {fuel : Nat} {g : Game K} {out : SolveOut K}

/-! ### pruning on -/

/-- on an `.ok` run with pruning, the stored row of every state reachable from state 0 in the
conditioned graph is the specification's conditioned row (C03 on the solver's output) -/
theorem nodes_eq_spec_of_reachable (H : solve rnd thr fuel true g = .ok out) {s : Nat}
    (hs : s < g.owners.size)
    (hr : Relation.ReflTransGen (CondEdge g out.reachStrat out.probs) 0 s) :
    out.nodes.getD s [] = (specNodes g out.reachStrat out.probs).getD s [] := by
  rw [(specNodes_row g out.reachStrat out.probs).2 s hs]
  exact CR.C03.reachable_states_exact (solve_checked H).2 (rew_result H).2.1 hr

/-- **Bellman consistency w.r.t. the specification of conditioning.**  If every probabilistic
row of the input game is a positive distribution, the loop ran (`thr < 1`) and
`solve … true g = .ok out`, then at every state `s` reachable from state 0 in the conditioned
graph the reported rewards satisfy the reward equations of the game whose rows are
`condRow g out.reachStrat out.probs` up to the threshold. -/
theorem rew_consistency_wrt_spec
    (hrows : ∀ s < g.owners.size, g.owners.getD s .prob = .prob →
      (∀ t ∈ g.tl.getD s [], 0 < t.p) ∧ ((g.tl.getD s []).map (·.p)).sum = 1)
    (hthr : thr < 1) (H : solve rnd thr fuel true g = .ok out) :
    ∀ s < g.owners.size, Relation.ReflTransGen (CondEdge g out.reachStrat out.probs) 0 s →
      |Brew g.owners g.rewards (specNodes g out.reachStrat out.probs) out.rewards s
        - out.rewards.getD s 0| ≤ thr := by
  intro s hs hr
  rw [← Brew_congr_row g.owners g.rewards _ _ out.rewards s (nodes_eq_spec_of_reachable H hs hr)]
  exact rew_bellman_consistency_of_game hrows hthr H s hs

/-- the same with the equations spelled out through `condRow` (no array of rows): the value
`Brew` takes at `s` is determined by `condRow … s` alone -/
theorem rew_consistency_wrt_condRow
    (hrows : ∀ s < g.owners.size, g.owners.getD s .prob = .prob →
      (∀ t ∈ g.tl.getD s [], 0 < t.p) ∧ ((g.tl.getD s []).map (·.p)).sum = 1)
    (hthr : thr < 1) (H : solve rnd thr fuel true g = .ok out) :
    ∀ s < g.owners.size, Relation.ReflTransGen (CondEdge g out.reachStrat out.probs) 0 s →
      ∀ nodes : Array (List (Tr K)),
        nodes.getD s [] = condRow g out.reachStrat out.probs s →
        |Brew g.owners g.rewards nodes out.rewards s - out.rewards.getD s 0| ≤ thr := by
  intro s hs hr nodes hrow
  rw [Brew_congr_row g.owners g.rewards nodes (specNodes g out.reachStrat out.probs) out.rewards s
    (by rw [hrow, (specNodes_row g out.reachStrat out.probs).2 s hs])]
  exact rew_consistency_wrt_spec hrows hthr H s hs hr

/-- states NOT reachable in the conditioned graph: the stored row is the specification's row or
empty, and in the second case (loop ran) the state reports reward 0 -/
theorem rew_unreachable_cases (hthr : thr < 1) (H : solve rnd thr fuel true g = .ok out) :
    ∀ s < g.owners.size,
      out.nodes.getD s [] = (specNodes g out.reachStrat out.probs).getD s [] ∨
      (g.owners.getD s .prob ≠ .p1 ∧
        ¬ Relation.ReflTransGen (CondEdge g out.reachStrat out.probs) 0 s ∧
        out.rewards.getD s 0 = 0) := by
  intro s hs
  rcases (CR.C03.cond_exact (solve_checked H).2 (rew_result H).2.1).2 s hs with h | ⟨h1, h2, h3⟩
  · left; rw [(specNodes_row g out.reachStrat out.probs).2 s hs]; exact h
  · right; exact ⟨h2, h3, (rew_emptied_zero hthr H s h1).1⟩

end

/-! ### pruning off -/

section NoPrune
variable {rnd : K → Int} {thr : K} {fuel : Nat} {g : Game K} {out : SolveOut K}

/-- with pruning off, the stored row of EVERY state is `stratRow` -/
theorem nodes_eq_strat (H : solve rnd thr fuel false g = .ok out) {s : Nat}
    (hs : s < g.owners.size) :
    out.nodes.getD s [] = (stratNodes g out.reachStrat).getD s [] := by
  rw [(stratNodes_row g out.reachStrat).2 s hs, (noprune_nodes H).2 s]
  rfl

/-- **Unpruned analogue.**  With pruning off, at ALL states the reported rewards satisfy, up to
the threshold, the reward equations of the game in which Player 1 is restricted to its
reachability strategy and nothing else is changed. -/
theorem rew_consistency_wrt_spec_noprune
    (hrows : ∀ s < g.owners.size, g.owners.getD s .prob = .prob →
      (∀ t ∈ g.tl.getD s [], 0 ≤ t.p) ∧ ((g.tl.getD s []).map (·.p)).sum = 1)
    (hthr : thr < 1) (H : solve rnd thr fuel false g = .ok out) :
    ∀ s < g.owners.size,
      |Brew g.owners g.rewards (stratNodes g out.reachStrat) out.rewards s
        - out.rewards.getD s 0| ≤ thr := by
  intro s hs
  rw [← Brew_congr_row g.owners g.rewards _ _ out.rewards s (nodes_eq_strat H hs),
    (noprune_nodes H).1]
  exact rew_bellman_consistency_noprune hrows hthr H s hs

end NoPrune

/-! ### non-vacuity: the 7-state run of `CR/Props/C02.lean` -/

section NonVacuity
open CR.Examples CR.Rew.Examples

/-- the specification's conditioned rows on the concrete run: the unreachable state 2 is NOT
emptied by `condRow` (it is by `prune_states`, see `g7nodes`); states 4 and 6 have no live
successor; the reachable states 0, 1, 3, 5 agree with `g7nodes` -/
example : specNodes g7 #[some ["alfa"], none, none, some ["gamma"], none, none, none] g7probs =
    #[[tr "alfa" 0 1], [tr "" 1 3], [tr "" 1 5], [tr "gamma" 0 5], [], [tr "" 1 5], []] := by
  decide +kernel

/-- state 3 is reachable from 0 in the conditioned graph of the concrete run: 0 → 1 → 3 -/
example : Relation.ReflTransGen
    (CondEdge g7 #[some ["alfa"], none, none, some ["gamma"], none, none, none] g7probs) 0 3 :=
  .tail (.tail .refl ⟨tr "alfa" 0 1, by decide +kernel, rfl⟩) ⟨tr "" 1 3, by decide +kernel, rfl⟩

/-- all hypotheses of `rew_consistency_wrt_spec` hold together on a concrete run -/
example : ∃ out, solve (roundRat 6) thr 1000 true g7 = .ok out ∧
    ∀ s < g7.owners.size, Relation.ReflTransGen (CondEdge g7 out.reachStrat out.probs) 0 s →
      |Brew g7.owners g7.rewards (specNodes g7 out.reachStrat out.probs) out.rewards s
        - out.rewards.getD s 0| ≤ thr := by
  obtain ⟨out, H, _⟩ := g7_run
  refine ⟨out, H, rew_consistency_wrt_spec ?_ (by decide +kernel) H⟩
  intro s hs ho
  have hs' : s < 7 := hs
  have : s = 0 ∨ s = 1 ∨ s = 2 ∨ s = 3 ∨ s = 4 ∨ s = 5 ∨ s = 6 := by omega
  rcases this with rfl | rfl | rfl | rfl | rfl | rfl | rfl <;>
    simp [g7, tr] at ho ⊢ <;> norm_num

end NonVacuity

end CR.C02
