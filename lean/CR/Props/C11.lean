/-
C11 (structural part): every accepted parameter set yields three proper games.

For probabilities strictly between 0 and 1 in an ordered field and a well-formed board, each of
the generated games A, B, C (model: `CR/Model/Gen.lean`) has a non-empty row for every state,
all targets in range, proper distributions on the chance states, the winning state as the only
final state, absorbing winning and losing states, and passes the solver's typed validation
(`checkGame`, `initStates` of `CR/Model/Solver.lean`).  Helper lemmas: `CR/Lemmas/Grid.lean`.
-/
import CR.Props.C08
import Mathlib.Algebra.Order.Field.Basic
import Mathlib.Tactic.Linarith
import Mathlib.Algebra.Order.Field.Rat

namespace CR.C11

open CR CR.Gen CR.Roborta CR.GridLemmas
open CR.C08 (N b21 b12)

variable {K : Type} [Field K] [LinearOrder K] [IsStrictOrderedRing K]

omit [LinearOrder K] [IsStrictOrderedRing K] in
/-- 1. every state (reachable or not) has at least one transition -/
theorem gen_every_state_has_transition (v : Variant) (L W : Nat) (b : Board)
    (hb : BoardOK L W b) (pT pR pL : K) :
    ∀ s < N v L W, (genGame v L W b ⟨pT, pR, pL⟩).tl.getD s [] ≠ [] := by
  intro s hs
  have hlen := genGame_tl_length (v := v) hb (⟨pT, pR, pL⟩ : Params K)
  have hs' : s < (genGame v L W b ⟨pT, pR, pL⟩).tl.length := by
    rw [hlen]; cases v <;> exact hs
  exact (tl_rows_ok hb _ _ (getD_mem_of_lt _ s [] hs')).1

omit [LinearOrder K] [IsStrictOrderedRing K] in
/-- 2. every target of every state is a state -/
theorem gen_targets_in_range (v : Variant) (L W : Nat) (b : Board)
    (hb : BoardOK L W b) (pT pR pL : K) :
    ∀ s < N v L W, ∀ t ∈ (genGame v L W b ⟨pT, pR, pL⟩).tl.getD s [], t.tgt < N v L W := by
  intro s hs t ht
  have hlen := genGame_tl_length (v := v) hb (⟨pT, pR, pL⟩ : Params K)
  have hs' : s < (genGame v L W b ⟨pT, pR, pL⟩).tl.length := by
    rw [hlen]; cases v <;> exact hs
  have := (tl_rows_ok hb _ _ (getD_mem_of_lt _ s [] hs')).2 t ht
  cases v <;> exact this

/-- 3. the rows of the chance states are distributions with positive weights -/
theorem gen_prob_rows_proper (v : Variant) (L W : Nat) (b : Board)
    (hb : BoardOK L W b) (pT pR pL : K)
    (hT : 0 < pT ∧ pT < 1) (hR : 0 < pR ∧ pR < 1) (hL : 0 < pL ∧ pL < 1) :
    ∀ s < N v L W, (genGame v L W b ⟨pT, pR, pL⟩).owners.getD s .prob = .prob →
      (∀ t ∈ (genGame v L W b ⟨pT, pR, pL⟩).tl.getD s [], 0 < t.p) ∧
      (((genGame v L W b ⟨pT, pR, pL⟩).tl.getD s []).map (·.p)).sum = 1 := by
  intro s hs ho
  have hs' : s < nGroups v * (L * W) + 2 := by cases v <;> exact hs
  rcases prob_rows_shape hb (⟨pT, pR, pL⟩ : Params K) s hs' ho with ⟨t, h⟩ | ⟨p, t, t', hp, h⟩
  · rw [h]; simp [pr]
  · have hp' : 0 < p ∧ p < 1 := by
      rcases hp with rfl | rfl | rfl <;> assumption
    rw [h]
    refine ⟨?_, ?_⟩
    · intro x hx
      simp only [List.mem_cons, List.not_mem_nil, or_false] at hx
      rcases hx with rfl | rfl
      · exact hp'.1
      · simp only [pr]; linarith [hp'.2]
    · simp [pr]

omit [LinearOrder K] [IsStrictOrderedRing K] in
/-- 4. the winning state is the only final state; the winning and the losing state are
absorbing and carry no reward -/
theorem gen_only_final_is_win_absorbing (v : Variant) (L W : Nat) (b : Board)
    (hb : BoardOK L W b) (pT pR pL : K) :
    (genGame v L W b ⟨pT, pR, pL⟩).finals = [N v L W - 1] ∧
    (genGame v L W b ⟨pT, pR, pL⟩).tl.getD (N v L W - 1) [] = [pr 1 (N v L W - 1)] ∧
    (genGame v L W b ⟨pT, pR, pL⟩).tl.getD (N v L W - 2) [] = [pr 1 (N v L W - 2)] ∧
    (genGame v L W b ⟨pT, pR, pL⟩).rewards.getD (N v L W - 1) 0 = 0 ∧
    (genGame v L W b ⟨pT, pR, pL⟩).rewards.getD (N v L W - 2) 0 = 0 := by
  obtain ⟨h1, h2, h3, h4⟩ := lose_win_rows (v := v) hb (⟨pT, pR, pL⟩ : Params K)
  have e1 : N v L W - 1 = nGroups v * (L * W) + 1 := by cases v <;> rfl
  have e2 : N v L W - 2 = nGroups v * (L * W) := by cases v <;> rfl
  rw [e1, e2, genGame_finals, enc_win_eq]
  exact ⟨rfl, h2, h1, h4, h3⟩

/-- 5. each generated game passes the solver's typed validation -/
theorem gen_validates (v : Variant) (L W : Nat) (b : Board)
    (hb : BoardOK L W b) (pT pR pL : K) :
    checkGame ((genGame v L W b ⟨pT, pR, pL⟩).toGame (fun n => (n : K))) = .ok () ∧
    initStates ((genGame v L W b ⟨pT, pR, pL⟩).toGame (fun n => (n : K))) = .ok () := by
  have hlen := genGame_tl_length (v := v) hb (⟨pT, pR, pL⟩ : Params K)
  have holen := genGame_owners_length v L W b (⟨pT, pR, pL⟩ : Params K)
  have hrlen := genGame_rewards_length (v := v) hb (⟨pT, pR, pL⟩ : Params K)
  constructor
  · apply checkGame_ok
    · simp [GenGame.toGame, hlen, holen]
    · simp [GenGame.toGame, hrlen, holen]
    · simp [GenGame.toGame, hrlen]
    · intro x hx
      simp only [GenGame.toGame, List.mem_toArray, List.mem_map] at hx
      obtain ⟨n, -, rfl⟩ := hx
      exact not_lt.mpr (Nat.cast_nonneg n)
    · simp [GenGame.toGame, genGame_finals]
    · intro f hf
      simp only [GenGame.toGame, genGame_finals, List.mem_singleton] at hf
      subst hf
      simp only [GenGame.toGame, List.size_toArray, holen, enc_win_eq]
      omega
  · apply initStates_ok
    intro row hrow
    simp only [GenGame.toGame, List.mem_toArray] at hrow
    have := tl_rows_ok hb _ _ hrow
    simpa [GenGame.toGame, holen, RowOK] using this

/-! ## Non-vacuity: the 2×1 and the 1×2 board of `CR.C08` over `Rat` -/

example : BoardOK 2 1 b21 := by unfold BoardOK; decide
example : BoardOK 1 2 b12 := by unfold BoardOK; decide

/-- the parameter hypotheses are satisfiable over `Rat` -/
example : (0 : Rat) < 1/10 ∧ (1/10 : Rat) < 1 := by constructor <;> decide +kernel

/-- instances of the five theorems on the 2×1 and the 1×2 board -/
example : ∀ s < 22, (gameC 2 1 b21 (1/10 : Rat) (1/5) (3/10)).tl.getD s [] ≠ [] :=
  gen_every_state_has_transition .C 2 1 b21 (by unfold BoardOK; decide) _ _ _

example : ∀ s < 22, (gameC 2 1 b21 (1/10 : Rat) (1/5) (3/10)).owners.getD s .prob = .prob →
    (∀ t ∈ (gameC 2 1 b21 (1/10 : Rat) (1/5) (3/10)).tl.getD s [], 0 < t.p) ∧
    (((gameC 2 1 b21 (1/10 : Rat) (1/5) (3/10)).tl.getD s []).map (·.p)).sum = 1 :=
  gen_prob_rows_proper .C 2 1 b21 (by unfold BoardOK; decide) _ _ _
    (by constructor <;> decide +kernel) (by constructor <;> decide +kernel)
    (by constructor <;> decide +kernel)

example : checkGame ((gameB 1 2 b12 (1/10 : Rat) (1/5)).toGame (fun n => (n : Rat))) = .ok () :=
  (gen_validates .B 1 2 b12 (by unfold BoardOK; decide) (1/10) (1/5) (3/10)).1

/-- the unreachable `lr` state of the down-only tile (state 5) has the `Etha` row -/
example : (gameA 2 1 b21 (1/10 : Rat)).tl.getD 5 [] = [act "Etha" 0] := by rfl
/-- a chance row with two outcomes, and its owner -/
example : (gameA 2 1 b21 (1/10 : Rat)).tl.getD 6 [] = [pr (1/10) 8, pr (1 - 1/10) 0] := by rfl
example : (gameA 2 1 b21 (1/10 : Rat)).owners.getD 6 .prob = .prob := by rfl
example : (gameA 2 1 b21 (1/10 : Rat)).finals = [9] := by rfl
example : (gameA 2 1 b21 (1/10 : Rat)).rewards = [2, 0, 0, 0, 0, 0, 0, 0, 0, 0] := by rfl
example : (gameA 1 2 b12 (1/10 : Rat)).tl =
    [ [act "Green" 2, act "Yellow" 4], [act "Green" 3, act "Yellow" 5],
      [act "Down" 9], [act "Down" 9],
      [act "Left" 7], [act "Right" 6],
      [pr 1 0], [pr (1/10) 8, pr (1 - 1/10) 1],
      [pr 1 8], [pr 1 9] ] := by rfl
end CR.C11
