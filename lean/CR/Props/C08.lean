/-
C08: the generated games A, B, C encode the Roborta board rules faithfully.

`enc` (specification: `CR/Spec/Roborta.lean`) is a functional bisimulation from the
specification's situations, started in `light 0 0`, onto the part of the generated game
(model: `CR/Model/Gen.lean`) reachable from state 0, with equal action labels, probabilities
(in the same order), owners, rewards and final states.  Helper lemmas: `CR/Lemmas/Grid.lean`.
-/
import CR.Lemmas.Grid

namespace CR.C08

open CR CR.Gen CR.Roborta CR.GridLemmas

/-- the number of states of the generated game of a variant (statement vocabulary only) -/
abbrev N (v : Variant) (L W : Nat) : Nat :=
  match v with
  | .A => 4 * (L * W) + 2
  | .B => 7 * (L * W) + 2
  | .C => 10 * (L * W) + 2

/-- `N` in the form `4*L*W+2`, `7*L*W+2`, `10*L*W+2` -/
theorem N_eq (v : Variant) (L W : Nat) :
    N v L W = match v with
      | .A => 4 * L * W + 2
      | .B => 7 * L * W + 2
      | .C => 10 * L * W + 2 := by
  cases v <;> simp only [N, Nat.mul_assoc]

section
variable {α : Type} [Sub α] [OfNat α 0] [OfNat α 1]

/-- 1. sizes of the generated game; the only final state is the winning state -/
theorem gen_sizes (v : Variant) (L W : Nat) (b : Board) (hb : BoardOK L W b) (q : Params α) :
    (genGame v L W b q).tl.length = N v L W ∧
    (genGame v L W b q).owners.length = N v L W ∧
    (genGame v L W b q).rewards.length = N v L W ∧
    (genGame v L W b q).finals = [enc v L W .win] := by
  refine ⟨?_, ?_, ?_, genGame_finals v L W b q⟩
  · rw [genGame_tl_length hb q]; cases v <;> rfl
  · rw [genGame_owners_length v L W b q]; cases v <;> rfl
  · rw [genGame_rewards_length hb q]; cases v <;> rfl

/-- 2. one step of the bisimulation: the row of state `enc s` is the image of the rules of `s`
(same labels, same probabilities, same order), owner, reward and finality agree -/
theorem gen_bisim_step (v : Variant) (L W : Nat) (b : Board) (hb : BoardOK L W b) (q : Params α)
    (s : RState) (hs : Valid v L W b s) :
    enc v L W s < N v L W ∧
    (genGame v L W b q).tl.getD (enc v L W s) []
      = (rules v L W b q s).map
          (fun x => ({ act := x.act, p := x.p, tgt := enc v L W x.tgt } : Tr α)) ∧
    (genGame v L W b q).owners.getD (enc v L W s) .prob = owner s ∧
    (genGame v L W b q).rewards.getD (enc v L W s) 0 = reward b s ∧
    (enc v L W s ∈ (genGame v L W b q).finals ↔ s = .win) := by
  refine ⟨?_, tl_bisim hb q s hs, owners_bisim q hs, rewards_bisim hb q hs, ?_⟩
  · have := enc_lt hs
    cases v <;> exact this
  · rw [genGame_finals, List.mem_singleton]
    constructor
    · intro h
      exact enc_injective' hs (show Valid v L W b .win from trivial) h
    · rintro rfl; rfl

/-- 3. the valid situations are closed under the rules (so every situation reachable from
`light 0 0` is valid) -/
theorem valid_closed (v : Variant) (L W : Nat) (b : Board) (hb : BoardOK L W b) (q : Params α)
    (s : RState) (hs : Valid v L W b s) : ∀ x ∈ rules v L W b q s, Valid v L W b x.tgt :=
  valid_closed' hb q hs

end

/-- 4. the numbering is injective on the valid situations -/
theorem enc_injective (v : Variant) (L W : Nat) (b : Board) (s s' : RState)
    (hs : Valid v L W b s) (hs' : Valid v L W b s') (h : enc v L W s = enc v L W s') : s = s' :=
  enc_injective' hs hs' h

/-- 5. the initial situation is valid and is state 0 -/
theorem enc_init (v : Variant) (L W : Nat) (b : Board) (hb : BoardOK L W b) :
    enc v L W (.light 0 0) = 0 ∧ Valid v L W b (.light 0 0) :=
  ⟨by cases v <;> simp, hb.1, hb.2.1⟩

/-! ## Non-vacuity: a 2×1 board (one column: left and right wrap onto the same tile) and a
1×2 board, over `Rat` -/

/-- 2 rows × 1 column: a both-arrows loose tile above a down-only tile -/
def b21 : Board := { moves := [[1], [3]], rewards := [[2], [0]], loose := [[1], [0]] }

/-- 1 row × 2 columns: a left-only tile and a right-only loose tile -/
def b12 : Board := { moves := [[0, 2]], rewards := [[1, 3]], loose := [[0, 1]] }

def q0 : Params Rat := { pTile := 1/10, pRobot := 1/5, pLight := 3/10 }

example : BoardOK 2 1 b21 := by unfold BoardOK; decide
example : BoardOK 1 2 b12 := by unfold BoardOK; decide

/-- game A on the 2×1 board, all 10 rows (`Left` and `Right` of the single column both lead to
state 6 = `land 0 0`; the `lr` row of the down-only tile is the unreachable `Etha` row) -/
example : (gameA 2 1 b21 (1/10 : Rat)).tl =
    [ [act "Green" 2, act "Yellow" 4], [act "Green" 3],
      [act "Down" 7], [act "Down" 9],
      [act "Left" 6, act "Right" 6], [act "Etha" 0],
      [pr (1/10) 8, pr (1 - 1/10) 0], [pr 1 1],
      [pr 1 8], [pr 1 9] ] := by rfl

example : (1 - 1/10 : Rat) = 9/10 := by decide +kernel

/-- game B on the 1×2 board, all 16 rows -/
example : (gameB 1 2 b12 (1/10 : Rat) (1/5)).tl =
    [ [act "Green" 2, act "Yellow" 4], [act "Green" 3, act "Yellow" 5],
      [act "Down" 8], [act "Down" 9],
      [act "Left" 10], [act "Right" 13],
      [pr 1 0], [pr (1/10) 14, pr (1 - 1/10) 1],
      [pr (1/5) 6, pr (1 - 1/5) 15], [pr (1/5) 7, pr (1 - 1/5) 15],
      [pr (1/5) 6, pr (1 - 1/5) 7], [pr (1/5) 7, pr (1 - 1/5) 6],
      [pr (1/5) 6, pr (1 - 1/5) 7], [pr (1/5) 7, pr (1 - 1/5) 6],
      [pr 1 14], [pr 1 15] ] := by rfl

/-- game C on the 2×1 board: the light-failure rows and the free-choice rows -/
example : (gameC 2 1 b21 (1/10 : Rat) (1/5) (3/10)).tl.getD 18 [] =
    [pr (3/10) 6, pr (1 - 3/10) 4] := by rfl
example : (gameC 2 1 b21 (1/10 : Rat) (1/5) (3/10)).tl.getD 6 [] =
    [act "Down" 10, act "Left" 12, act "Right" 14] := by rfl
example : (gameC 2 1 b21 (1/10 : Rat) (1/5) (3/10)).tl.length = 22 := by rfl

/-- the specification on the one-column board: left and right wrap onto the tile itself -/
example : rules .A 2 1 b21 q0 (.lr 0 0) = [a "Left" (.land 0 0), a "Right" (.land 0 0)] := by rfl
example : rules .B 1 2 b12 q0 (.tryLeft 0 0) = [c (1/5) (.land 0 0), c (1 - 1/5) (.land 0 1)] := by
  rfl

/-- the hypotheses of `gen_bisim_step` are satisfiable, in all three variants -/
example : Valid .A 2 1 b21 (.lr 0 0) := by simp [Valid, b21, Board.mv]
example : Valid .B 1 2 b12 (.tryRight 0 1) := by simp [Valid]
example : Valid .C 2 1 b21 (.lightY 0 0) := by simp [Valid, b21, Board.mv]
/-- Yellow is never shown on the down-only tile -/
example : ¬ Valid .C 2 1 b21 (.lightY 1 0) := by simp [Valid, b21, Board.mv]

/-- an instance of the step theorem on the one-column board -/
example : (genGame .A 2 1 b21 q0).tl.getD (enc .A 2 1 (.lr 0 0)) []
    = (rules .A 2 1 b21 q0 (.lr 0 0)).map
        (fun x => ({ act := x.act, p := x.p, tgt := enc .A 2 1 x.tgt } : Tr Rat)) :=
  (gen_bisim_step .A 2 1 b21 (by unfold BoardOK; decide) q0 (.lr 0 0)
    (by simp [Valid, b21, Board.mv])).2.1

end CR.C08
