/-
C09, bridge from the dynamically typed validation to the typed theorems.

`validate` (model of `check_game` + `init_states` on a *dynamically typed* description,
`CR/Model/Validate.lean`) accepts exactly the documented games (`C09.validate_iff`).  The solver
theorems C01–C06, C14 are stated for the *typed* game `toGame g` and carry typed hypotheses
(`checkGame`, `initStates`, sizes, targets in range).  This file shows that every accepted
description denotes a typed game satisfying all of them, so that the typed validation inside
`solve` can never fail after the dynamic one succeeded, and `solvePy` IS `solve` on that game.

The number type is `Float` (the instance the model of `solvePy` uses); the only fact about IEEE
arithmetic that is needed is `GlueFloat.ofInt_not_lt_zero`: a non-negative Python `int` reward
converts to a double that is not `< 0`.
-/
import CR.Props.C09
import CR.Lemmas.Grid
import CR.Lemmas.GlueFloat

namespace CR.C09

open CR CR.Py CR.ValidateLemmas

/-! ### shape of `toGame` -/

/-- the typed owner of state `k` -/
theorem toGame_owner (g : PyGame) (k : Nat) (hk : k < g.players.length) :
    (toGame g).owners.getD k .prob = (playerOf (g.players.getD k "")).getD .prob := by
  simp [toGame, Array.getD, hk, List.getD_eq_getElem?_getD]

/-- sizes of the three per-state arrays of `toGame g` -/
theorem toGame_sizes (g : PyGame) :
    (toGame g).owners.size = g.players.length ∧
    (toGame g).rewards.size = g.rewards.length ∧
    (toGame g).tl.size = min g.players.length g.tl.length := by
  simp [toGame]

/-- the typed row of state `k` is the image of the description's entry under `rowOf` -/
theorem toGame_row (g : PyGame) (k : Nat) (hk : k < g.players.length) (hk' : k < g.tl.length) :
    (toGame g).tl.getD k [] =
      rowOf ((playerOf (g.players.getD k "")).getD .prob) (g.tl.getD k .none) := by
  have h1 : k < min g.players.length g.tl.length := by omega
  simp [toGame, Array.getD, List.length_zip, hk, hk', h1, List.getD_eq_getElem?_getD]

/-- the typed reward of state `k` -/
theorem toGame_reward (g : PyGame) (k : Nat) (hk : k < g.rewards.length) :
    (toGame g).rewards.getD k 0 = (g.rewards[k]).toFloat := by
  simp [toGame, Array.getD, hk]

/-- `PyNum.isNeg = false` gives "not `< 0`" for the double the solver works with: for a `float`
reward this is the same comparison, for an `int` reward it is `GlueFloat.ofInt_not_lt_zero` -/
theorem toFloat_not_neg (r : PyNum) (h : r.isNeg = false) : ¬ (r.toFloat < 0) := by
  cases r with
  | int i =>
    have : 0 ≤ i := by simpa [PyNum.isNeg] using h
    exact GlueFloat.ofInt_not_lt_zero i this
  | float x => simpa [PyNum.isNeg, PyNum.toFloat] using h

/-! ### the typed well-formedness facts -/

/-- **every accepted description denotes a well-formed typed game**: one row and one reward per
state, at least one state, no reward `< 0`, every row non-empty with all targets in range, at
least one final state and all of them in range -/
theorem typed_wellformed (g : PyGame) (h : validate g = .ok ()) :
    (toGame g).tl.size = (toGame g).owners.size ∧
    (toGame g).rewards.size = (toGame g).owners.size ∧
    0 < (toGame g).owners.size ∧
    (∀ s < (toGame g).owners.size, decide ((toGame g).rewards.getD s 0 < 0) = false) ∧
    (∀ s < (toGame g).owners.size, (toGame g).tl.getD s [] ≠ []) ∧
    (∀ s < (toGame g).owners.size, ∀ t ∈ (toGame g).tl.getD s [],
      t.tgt < (toGame g).owners.size) ∧
    (toGame g).finals ≠ [] ∧
    (∀ f ∈ (toGame g).finals, f < (toGame g).owners.size) := by
  obtain ⟨h1, h2, h3, h4, h5, _, h7⟩ := (validate_iff g).1 h
  obtain ⟨so, sr, st⟩ := toGame_sizes g
  have hn : 0 < g.players.length := by
    cases hf : g.finals with
    | nil => exact absurd hf h4
    | cons f fs => have := h5 f (by simp [hf]); omega
  rw [so, sr, st, h1, h2, Nat.min_self]
  refine ⟨rfl, rfl, hn, ?_, ?_, ?_, ?_, ?_⟩
  · intro s hs
    have hs' : s < g.rewards.length := by omega
    rw [toGame_reward g s hs']
    exact decide_eq_false (toFloat_not_neg _ (h3 _ (List.getElem_mem hs')))
  · intro s hs
    obtain ⟨xs, hxs, hne, _⟩ := h7 s hs
    rw [toGame_row g s hs (by omega), hxs]
    simpa [rowOf] using hne
  · intro s hs t ht
    obtain ⟨xs, hxs, _, hall⟩ := h7 s hs
    rw [toGame_row g s hs (by omega), hxs] at ht
    simp only [rowOf, List.mem_map] at ht
    obtain ⟨e, he, rfl⟩ := ht
    obtain ⟨a, b, i, rfl, _, _, hi, h0, hlt⟩ := hall e he
    have : (trOf ((playerOf (g.players.getD s "")).getD .prob) (.tuple [a, b])).tgt = i.toNat := by
      simp only [trOf, hi, Option.getD_some]
      split <;> rfl
    rw [this]; omega
  · simpa [toGame] using h4
  · intro f hf
    simp only [toGame, List.mem_map] at hf
    obtain ⟨z, hz, rfl⟩ := hf
    have := h5 z hz
    omega

/-- the typed owner of a state is the documented player of the description -/
theorem typed_owner (g : PyGame) (h : validate g = .ok ()) (s : Nat) (hs : s < g.players.length) :
    ((toGame g).owners.getD s .prob = .p1 ↔ g.players.getD s "" = "Player 1") ∧
    ((toGame g).owners.getD s .prob = .p2 ↔ g.players.getD s "" = "Player 2") ∧
    ((toGame g).owners.getD s .prob = .prob ↔ g.players.getD s "" = "Probabilistic") := by
  obtain ⟨_, _, _, _, _, h6, _⟩ := (validate_iff g).1 h
  rw [toGame_owner g s hs]
  have hmem : g.players.getD s "" ∈ g.players := by
    rw [← List.getElem_eq_getD (h := hs)]; exact List.getElem_mem hs
  rcases h6 _ hmem with hp | hp | hp <;> rw [hp] <;> simp [playerOf] <;> decide

/-! ### the typed validation is redundant after the dynamic one -/

/-- **the typed validation inside `solve` cannot fail on an accepted description** -/
theorem typed_validation_redundant (g : PyGame) (h : validate g = .ok ()) :
    checkGame (toGame g) = .ok () ∧ initStates (toGame g) = .ok () := by
  obtain ⟨h1, h2, h3, h4, h5, h6, h7, h8⟩ := typed_wellformed g h
  constructor
  · refine GridLemmas.checkGame_ok _ h1 h2 (by omega) ?_ h7 h8
    intro x hx
    obtain ⟨i, hi, rfl⟩ := Array.mem_iff_getElem.1 hx
    have := h4 i (by omega)
    have hget : (toGame g).rewards.getD i 0 = (toGame g).rewards[i] := by simp [Array.getD, hi]
    rw [hget] at this
    exact of_decide_eq_false this
  · refine GridLemmas.initStates_ok _ ?_
    intro row hrow
    obtain ⟨i, hi, rfl⟩ := Array.mem_iff_getElem.1 hrow
    have hget : (toGame g).tl.getD i [] = (toGame g).tl[i] := by simp [Array.getD, hi]
    rw [← hget]
    exact ⟨h5 i (by omega), h6 i (by omega)⟩

/-- `DocWellFormed` form of the same statement -/
theorem typed_validation_redundant_of_doc (g : PyGame) (h : DocWellFormed g) :
    checkGame (toGame g) = .ok () ∧ initStates (toGame g) = .ok () :=
  typed_validation_redundant g (validate_sound g h)

/-- **on an accepted description `solvePy` is `solve` on the denoted typed game** (for which,
by `typed_validation_redundant`, the typed validation cannot fail) -/
theorem solvePy_eq_solve_of_valid (thr : Float) (fuel : Nat) (prune : Bool) (g : PyGame)
    (h : validate g = .ok ()) :
    solvePy thr fuel prune g = solve (roundFloat 6) thr fuel prune (toGame g) := by
  rw [solvePy_eq, h]

/-- consequently a `malformed` outcome of `solvePy` can only come from the dynamic validation:
on an accepted description `solveReach` gets past both typed checks, i.e. it equals the loop,
the `noSolution` test and the strategy extraction -/
theorem solveReach_after_validate (thr : Float) (fuel : Nat) (prune : Bool) (g : PyGame)
    (h : validate g = .ok ()) :
    solveReach (roundFloat 6) thr fuel prune (toGame g) =
      (do
        let G := toGame g
        let reach0 : Array Float :=
          (Array.range G.owners.size).map (fun s => if G.finals.contains s then 1 else 0)
        let ord := reverseDfs (G.tl.toList.map (fun row => row.map (·.tgt))) G.finals
        let (reach, i) ← viReach G.owners G.tl ord thr fuel 1 reach0 0
        if prune && (reach.getD 0 0 == 0) then throw .noSolution
        pure { probs := reach, strat := reachStrategies (roundFloat 6) G.owners G.tl reach,
               iters := i, order := ord }) := by
  obtain ⟨hc, hi⟩ := typed_validation_redundant g h
  unfold solveReach
  rw [hc, hi]
  rfl

/-! ### non-vacuity: the accepted demo description of `C09` -/

example : validate (demo 2) = .ok () := rfl

/-- all conclusions of `typed_wellformed` on the demo game (3 states) -/
example : (toGame (demo 2)).owners.size = 3 ∧ (toGame (demo 2)).tl.size = 3 ∧
    (toGame (demo 2)).finals = [2] := ⟨rfl, rfl, rfl⟩

example : checkGame (toGame (demo 2)) = .ok () ∧ initStates (toGame (demo 2)) = .ok () :=
  typed_validation_redundant _ rfl

/-- the reward `.int 1` of the demo becomes the double `1.0`, which is not `< 0` -/
example : decide ((toGame (demo 2)).rewards.getD 0 0 < 0) = false :=
  (typed_wellformed (demo 2) rfl).2.2.2.1 0 (by decide)

/-- the typed rows of the demo: the player rows carry the action names, the probabilistic row
the probabilities; `True` as a successor is state 1 -/
example : ((toGame (demo 2)).tl.getD 0 []).map (fun t => (t.act, t.tgt)) = [("a", 1), ("b", 1)] :=
  rfl
example : ((toGame (demo 2)).tl.getD 1 []).map (fun t => t.tgt) = [0, 2] := rfl

/-- the hypothesis cannot be dropped: the description `demo (-1)` (a successor index `-1`) is
rejected by the dynamic validation although its typed image (where `-1` has become state `0`)
passes both typed checks — the dynamic checks are the stronger ones, and `solvePy` raises -/
example (thr : Float) (fuel : Nat) (prune : Bool) :
    (∃ rule, solvePy thr fuel prune (demo (-1)) = .error (.malformed rule)) ∧
    (checkGame (toGame (demo (-1)))).toBool = true ∧ (initStates (toGame (demo (-1)))).toBool = true :=
  ⟨malformed_raises thr fuel prune _ (fun hw => by
    have h1 := validate_sound _ hw
    have h2 : validate (demo (-1)) = .error (.malformed "next state out of range") := rfl
    rw [h2] at h1; cases h1), by decide +kernel, by decide +kernel⟩

end CR.C09
