/-
Property C05 on ACYCLIC conditioned games with arbitrary reward ties: the final strategies are
exactly the optimal ones.

"… it lists exactly the permitted actions whose successor has the largest conditioned expected
reward (for Player 2 states: all actions with the smallest), in transition order …"

`C05.final_argmax_reported` states this for the REPORTED rewards.  Here the conditioned
transition lists `out.nodes` are ranked (acyclic apart from absorbing zero-reward self-loops:
`Rank.Ranked`, the hypothesis of `C06.rewards_terminate_of_ranked`), so by `CR.Props.C02Ranked` the
reported rewards are EXACT wherever the loop has run long enough, and the statement becomes one
about the exact conditioned expected rewards `w` (`Rank.ExactRew …  w`: the unique fixed point of
the reward equations that is 0 at the absorbing states; it exists: `C02.exactRew_exists_unique`):

* `final_optimal_on_low_rank`: at a player state `s` with `rk s + 1 ≤ out.itRew` the final strategy
  is the list, in transition order, of the permitted actions whose successor has the largest
  (Player 2: smallest) ROUNDED EXACT reward — any threshold, rounding function, fuel, pruning flag;
* `final_optimal_of_ranked`: the same at every player state if `R + 1 ≤ out.itRew` or the reported
  vectors are the result of a sweep with reported change 0 (always so when `thr = 0`);
* `final_optimal_of_ranked_strict`: if moreover the rounding function is strictly monotone on the
  exact rewards of the successors of `s` (and, for Player 1, does not round them below 0 — the
  maximum is clamped below by the literal 0 as in the code), the final strategy lists exactly the
  permitted actions whose successor has the largest (smallest) exact reward, ties included.

Helper lemmas live in `CR/Lemmas/Ranked.lean`.
-/
import CR.Props.C02Ranked

set_option linter.unusedSectionVars false

namespace CR.C05

open CR CR.VI CR.Rew CR.C06 CR.Rank

variable {K : Type} [Field K] [LinearOrder K] [IsStrictOrderedRing K]

section
variable {rnd : K → Int} {thr : K} {fuel : Nat} {prune : Bool} {g : Game K} {out : SolveOut K}
  {rk : Nat → Nat} {R : Nat}

/-- 0. the final strategy of a player state depends on the reported rewards of its successors
only: if they coincide there with `w`, the final strategy is the arg-max (Player 1; maximum of the
rounded values clamped below by 0) / arg-min (Player 2) list of the rounded values of `w` -/
theorem final_argmax_of_agree (H : solve rnd thr fuel prune g = .ok out) (w : Array K) (s : Nat)
    (hag : ∀ t ∈ out.nodes.getD s [], out.rewards.getD t.tgt 0 = w.getD t.tgt 0) :
    (g.owners.getD s .prob = .p1 →
      out.finalStrat.getD s none = some
        (((out.nodes.getD s []).filter (fun t => rnd (w.getD t.tgt 0) ==
            (out.nodes.getD s []).foldl (fun m t => max m (rnd (w.getD t.tgt 0))) 0)).map
          (·.act))) ∧
    (∀ t0 rest, g.owners.getD s .prob = .p2 → out.nodes.getD s [] = t0 :: rest →
      out.finalStrat.getD s none = some
        (((t0 :: rest).filter (fun t => rnd (w.getD t.tgt 0) ==
            (t0 :: rest).foldl (fun m t => min m (rnd (w.getD t.tgt 0)))
              (rnd (w.getD t0.tgt 0)))).map (·.act))) := by
  obtain ⟨h1, h2⟩ := final_argmax_reported H
  refine ⟨fun hp => ?_, fun t0 rest hp hrow => ?_⟩
  · rw [h1 s hp, argmax_congr rnd out.rewards w _ hag]
  · rw [hrow] at hag
    rw [(h2 s t0 rest hp hrow).1, argmin_congr rnd out.rewards w t0 rest hag]

/-- on ranked conditioned lists the reported rewards of all successors of a state of rank
`< out.itRew` are exact -/
theorem successors_exact_on_low_rank (H : solve rnd thr fuel prune g = .ok out)
    (hrk : Ranked g.owners g.rewards out.nodes rk R) (w : Array K)
    (hw : ExactRew g.owners g.rewards out.nodes w) (s : Nat) (hs : s < g.owners.size)
    (hlow : rk s + 1 ≤ out.itRew) :
    ∀ t ∈ out.nodes.getD s [], out.rewards.getD t.tgt 0 = w.getD t.tgt 0 := by
  intro t ht
  by_cases ha : Absorbing g.owners g.rewards out.nodes s
  · obtain ⟨_, _, u, hrow, hu, _⟩ := ha
    rw [hrow] at ht
    have : t = u := by simpa using ht
    rw [this, hu]
    exact C02.rew_exact_on_low_rank H hrk w hw s hs (Or.inr hlow)
  · obtain ⟨htn, h⟩ := hrk.step s hs ha t ht
    exact C02.rew_exact_on_low_rank H hrk w hw _ htn (h.elim Or.inl (fun h => Or.inr (by omega)))

/-- 3a. **optimal final strategies on low ranks**: on ranked conditioned lists, at a Player-1
state `s` whose rank is below the number of sweeps performed, the final strategy lists, in
transition order, exactly the permitted actions whose successor has the largest ROUNDED EXACT
conditioned expected reward (maximum clamped below by 0); dually at a Player-2 state, the
smallest -/
theorem final_optimal_on_low_rank (H : solve rnd thr fuel prune g = .ok out)
    (hrk : Ranked g.owners g.rewards out.nodes rk R) (w : Array K)
    (hw : ExactRew g.owners g.rewards out.nodes w) (s : Nat) (hs : s < g.owners.size)
    (hlow : rk s + 1 ≤ out.itRew) :
    (g.owners.getD s .prob = .p1 →
      out.finalStrat.getD s none = some
        (((out.nodes.getD s []).filter (fun t => rnd (w.getD t.tgt 0) ==
            (out.nodes.getD s []).foldl (fun m t => max m (rnd (w.getD t.tgt 0))) 0)).map
          (·.act))) ∧
    (∀ t0 rest, g.owners.getD s .prob = .p2 → out.nodes.getD s [] = t0 :: rest →
      out.finalStrat.getD s none = some
        (((t0 :: rest).filter (fun t => rnd (w.getD t.tgt 0) ==
            (t0 :: rest).foldl (fun m t => min m (rnd (w.getD t.tgt 0)))
              (rnd (w.getD t0.tgt 0)))).map (·.act))) :=
  final_argmax_of_agree H w s (successors_exact_on_low_rank H hrk w hw s hs hlow)

/-- 3. **optimal final strategies**: on ranked conditioned lists, if the reward loop performed at
least `R + 1` sweeps or the reported vectors are the result of a sweep with reported change 0,
then at EVERY Player-1 state the final strategy lists, in transition order, exactly the permitted
actions whose successor has the largest rounded exact conditioned expected reward (clamped below
by 0), and at every Player-2 state (with permitted list `t0 :: rest`) exactly those with the
smallest.  `w` is any — hence the — exact solution; `out.rewards` is one. -/
theorem final_optimal_of_ranked (H : solve rnd thr fuel prune g = .ok out)
    (hrk : Ranked g.owners g.rewards out.nodes rk R)
    (hconv : R + 1 ≤ out.itRew ∨
      ∃ v : RewVecs K, sweepRew rnd g.owners g.rewards out.nodes out.probs v =
        .ok ({ er := out.rewards, ermr := out.rewMinReach, pmr := out.probMinRew }, 0))
    (w : Array K) (hw : ExactRew g.owners g.rewards out.nodes w) :
    ExactRew g.owners g.rewards out.nodes out.rewards ∧
    (∀ s, g.owners.getD s .prob = .p1 →
      out.finalStrat.getD s none = some
        (((out.nodes.getD s []).filter (fun t => rnd (w.getD t.tgt 0) ==
            (out.nodes.getD s []).foldl (fun m t => max m (rnd (w.getD t.tgt 0))) 0)).map
          (·.act))) ∧
    (∀ s t0 rest, g.owners.getD s .prob = .p2 → out.nodes.getD s [] = t0 :: rest →
      out.finalStrat.getD s none = some
        (((t0 :: rest).filter (fun t => rnd (w.getD t.tgt 0) ==
            (t0 :: rest).foldl (fun m t => min m (rnd (w.getD t.tgt 0)))
              (rnd (w.getD t0.tgt 0)))).map (·.act))) := by
  obtain ⟨hex, huniq⟩ := C02.rew_exact_of_ranked H hrk hconv
  have hag : ∀ s, g.owners.getD s .prob ≠ .prob →
      ∀ t ∈ out.nodes.getD s [], out.rewards.getD t.tgt 0 = w.getD t.tgt 0 := by
    intro s hne t ht
    have hs : s < g.owners.size := by
      by_contra hge
      exact hne (by simp [Array.getD, hge])
    have hna : ¬ Absorbing g.owners g.rewards out.nodes s := fun ha => hne ha.1
    exact huniq w hw _ (hrk.step s hs hna t ht).1
  exact ⟨hex, fun s hp => (final_argmax_of_agree H w s (hag s (by rw [hp]; simp))).1 hp,
    fun s t0 rest hp hrow =>
      (final_argmax_of_agree H w s (hag s (by rw [hp]; simp))).2 t0 rest hp hrow⟩

/-- 3'. **exactly the optimal actions**: under the hypotheses of 3, if the rounding function is
strictly monotone on the exact rewards of the successors of the Player-1 state `s` and rounds none
of them below 0, the final strategy of `s` lists, in transition order, exactly the permitted
actions whose successor has the largest EXACT conditioned expected reward — all of them when there
are ties.  Dually for a Player-2 state: exactly those with the smallest. -/
theorem final_optimal_of_ranked_strict (H : solve rnd thr fuel prune g = .ok out)
    (hrk : Ranked g.owners g.rewards out.nodes rk R)
    (hconv : R + 1 ≤ out.itRew ∨
      ∃ v : RewVecs K, sweepRew rnd g.owners g.rewards out.nodes out.probs v =
        .ok ({ er := out.rewards, ermr := out.rewMinReach, pmr := out.probMinRew }, 0))
    (w : Array K) (hw : ExactRew g.owners g.rewards out.nodes w) (s : Nat)
    (hmono : ∀ t ∈ out.nodes.getD s [], ∀ t' ∈ out.nodes.getD s [],
      w.getD t.tgt 0 < w.getD t'.tgt 0 → rnd (w.getD t.tgt 0) < rnd (w.getD t'.tgt 0)) :
    (g.owners.getD s .prob = .p1 → (∀ t ∈ out.nodes.getD s [], 0 ≤ rnd (w.getD t.tgt 0)) →
      out.finalStrat.getD s none = some
        (((out.nodes.getD s []).filter (fun t =>
            decide (∀ t' ∈ out.nodes.getD s [], w.getD t'.tgt 0 ≤ w.getD t.tgt 0))).map
          (·.act))) ∧
    (g.owners.getD s .prob = .p2 → out.nodes.getD s [] ≠ [] →
      out.finalStrat.getD s none = some
        (((out.nodes.getD s []).filter (fun t =>
            decide (∀ t' ∈ out.nodes.getD s [], w.getD t.tgt 0 ≤ w.getD t'.tgt 0))).map
          (·.act))) := by
  obtain ⟨_, h1, h2⟩ := final_optimal_of_ranked H hrk hconv w hw
  refine ⟨fun hp hnn => ?_, fun hp hne => ?_⟩
  · rw [h1 s hp, argmax_exact rnd w _ hmono hnn]
  · obtain ⟨t0, rest, hrow⟩ := List.exists_cons_of_ne_nil hne
    rw [hrow] at hmono
    rw [h2 s t0 rest hp hrow, argmin_exact rnd w t0 rest hmono, hrow]

/-- 3''. with threshold 0 the hypothesis on the loop is automatic -/
theorem final_optimal_of_ranked_thr_zero (hthr : thr = 0)
    (H : solve rnd thr fuel prune g = .ok out) (hrk : Ranked g.owners g.rewards out.nodes rk R)
    (w : Array K) (hw : ExactRew g.owners g.rewards out.nodes w) :
    (∀ s, g.owners.getD s .prob = .p1 →
      out.finalStrat.getD s none = some
        (((out.nodes.getD s []).filter (fun t => rnd (w.getD t.tgt 0) ==
            (out.nodes.getD s []).foldl (fun m t => max m (rnd (w.getD t.tgt 0))) 0)).map
          (·.act))) ∧
    (∀ s t0 rest, g.owners.getD s .prob = .p2 → out.nodes.getD s [] = t0 :: rest →
      out.finalStrat.getD s none = some
        (((t0 :: rest).filter (fun t => rnd (w.getD t.tgt 0) ==
            (t0 :: rest).foldl (fun m t => min m (rnd (w.getD t.tgt 0)))
              (rnd (w.getD t0.tgt 0)))).map (·.act))) :=
  (final_optimal_of_ranked H hrk (Or.inr (solve_thr_zero_sweep hthr H)) w hw).2

end

/-! ### non-vacuity: concrete ranked conditioned games over `Rat` -/

section NonVacuity
open CR.Examples CR.Rew.Examples CR.Rank.Examples

/-- `final_optimal_of_ranked` and `final_optimal_of_ranked_strict` instantiated on the run of the
7-state game `g7` (pruning on; conditioned lists ranked with maximal rank 2; 3 sweeps), with
`w := out.rewards`, at the Player-1 states 0 and 3 -/
example : ∃ out, solve (roundRat 6) thr 1000 true g7 = .ok out ∧
    ExactRew g7.owners g7.rewards out.nodes out.rewards ∧
    out.finalStrat.getD 0 none = some
      (((out.nodes.getD 0 []).filter (fun t => decide (∀ t' ∈ out.nodes.getD 0 [],
        out.rewards.getD t'.tgt 0 ≤ out.rewards.getD t.tgt 0))).map (·.act)) ∧
    out.finalStrat.getD 3 none = some
      (((out.nodes.getD 3 []).filter (fun t => decide (∀ t' ∈ out.nodes.getD 3 [],
        out.rewards.getD t'.tgt 0 ≤ out.rewards.getD t.tgt 0))).map (·.act)) ∧
    out.finalStrat = #[some ["alfa"], none, none, some ["gamma"], none, none, none] := by
  obtain ⟨out, H, h1, _, _, hit, _, hn, hf⟩ := g7_run
  have hrk : Ranked g7.owners g7.rewards out.nodes rk7 2 := by rw [hn]; exact g7_ranked
  have hconv : 2 + 1 ≤ out.itRew ∨
      ∃ v : RewVecs Rat, sweepRew (roundRat 6) g7.owners g7.rewards out.nodes out.probs v =
        .ok ({ er := out.rewards, ermr := out.rewMinReach, pmr := out.probMinRew }, 0) :=
    Or.inl (by rw [hit])
  obtain ⟨hex, _, _⟩ := final_optimal_of_ranked H hrk hconv out.rewards
    (C02.rew_exact_of_ranked H hrk hconv).1
  refine ⟨out, H, hex, ?_, ?_, hf⟩
  · refine (final_optimal_of_ranked_strict H hrk hconv out.rewards hex 0 ?_).1 rfl ?_
    · rw [hn, h1]; decide +kernel
    · rw [hn, h1]; decide +kernel
  · refine (final_optimal_of_ranked_strict H hrk hconv out.rewards hex 3 ?_).1 rfl ?_
    · rw [hn, h1]; decide +kernel
    · rw [hn, h1]; decide +kernel

/-- the 6-state game `g6` (pruning on; ranked with maximal rank 2; 3 sweeps): a three-way choice
at the Player-1 state 0 (exact rewards 0, 0, 1 of the successors: `["c"]`) and a TIE at the
Player-2 state 1 (exact rewards 0, 0: both actions listed) -/
example : ∃ out, solve (roundRat 6) thr 1000 true g6 = .ok out ∧
    ExactRew g6.owners g6.rewards out.nodes out.rewards ∧
    out.finalStrat.getD 0 none = some
      (((out.nodes.getD 0 []).filter (fun t => decide (∀ t' ∈ out.nodes.getD 0 [],
        out.rewards.getD t'.tgt 0 ≤ out.rewards.getD t.tgt 0))).map (·.act)) ∧
    out.finalStrat.getD 1 none = some
      (((out.nodes.getD 1 []).filter (fun t => decide (∀ t' ∈ out.nodes.getD 1 [],
        out.rewards.getD t.tgt 0 ≤ out.rewards.getD t'.tgt 0))).map (·.act)) ∧
    out.finalStrat = #[some ["c"], some ["x", "y"], none, none, none, none] := by
  obtain ⟨out, H, h1, _, _, hit, _, hn, hf⟩ := g6_run
  have hrk : Ranked g6.owners g6.rewards out.nodes rk6 2 := by rw [hn]; exact g6_ranked
  have hconv : 2 + 1 ≤ out.itRew ∨
      ∃ v : RewVecs Rat, sweepRew (roundRat 6) g6.owners g6.rewards out.nodes out.probs v =
        .ok ({ er := out.rewards, ermr := out.rewMinReach, pmr := out.probMinRew }, 0) :=
    Or.inl (by rw [hit])
  have hex := (C02.rew_exact_of_ranked H hrk hconv).1
  refine ⟨out, H, hex, ?_, ?_, hf⟩
  · refine (final_optimal_of_ranked_strict H hrk hconv out.rewards hex 0 ?_).1 rfl ?_
    · rw [hn, h1]; decide +kernel
    · rw [hn, h1]; decide +kernel
  · refine (final_optimal_of_ranked_strict H hrk hconv out.rewards hex 1 ?_).2 rfl ?_
    · rw [hn, h1]; decide +kernel
    · rw [hn]; decide +kernel

/-- `final_optimal_on_low_rank` instantiated (state 3 of `g7` has rank 0) -/
example : ∃ out, solve (roundRat 6) thr 1000 true g7 = .ok out ∧
    ∀ w, ExactRew g7.owners g7.rewards out.nodes w →
      out.finalStrat.getD 3 none = some
        (((out.nodes.getD 3 []).filter (fun t => roundRat 6 (w.getD t.tgt 0) ==
            (out.nodes.getD 3 []).foldl (fun m t => max m (roundRat 6 (w.getD t.tgt 0))) 0)).map
          (·.act)) := by
  obtain ⟨out, H, _, _, _, hit, _, hn, _⟩ := g7_run
  have hrk : Ranked g7.owners g7.rewards out.nodes rk7 2 := by rw [hn]; exact g7_ranked
  exact ⟨out, H, fun w hw =>
    (final_optimal_on_low_rank H hrk w hw 3 (by decide) (by rw [hit]; decide)).1 rfl⟩

end NonVacuity

end CR.C05
