/-
Property C03.  "After the solver conditions a game on reachability, no Player 1 or probabilistic
state keeps a transition into a state whose reachability probability is 0, however many such
successors it had and wherever they sat in its transition list.  Each surviving probabilistic
transition keeps its position and carries its original probability divided by the total surviving
probability (so they sum to 1), and for states still reachable from the initial state nothing else
changes: Player 2 keeps all its transitions and no transition between positive-probability states
is lost."

The model is `CR.condition` (`prune_reachability`, then `prune_paths`, then the `prune_states`
loop) of `CR/Model/Solver.lean`.  The specification vocabulary (`dead`, `keptMass`, `condRow`,
`CondEdge`, `Shape`) and all helper lemmas are in `CR/Lemmas/Prune.lean`:

* `dead reach t`         : the successor of `t` is reported with probability 0;
* `condRow g strat reach s` : the conditioned transition list of state `s`, before the clearing of
  unreachable states — Player 2: the row verbatim; Player 1: the strategy-permitted, live
  transitions in original order; probabilistic: the row verbatim when nothing is dead, otherwise
  the live transitions in original order with `p / keptMass`, where `keptMass` is the sum of the
  live probabilities exactly as Python's `sum` computes it (from 0, left to right);
* `CondEdge g strat reach u v` : `condRow .. u` has a transition to `v`;
* `Shape g`              : `g.tl.size = g.owners.size` (guaranteed by `check_game`).
-/
import CR.Lemmas.Prune

namespace CR.C03
open CR

section Generic
variable {α : Type} [Add α] [Sub α] [Div α] [BEq α] [OfNat α 0] [OfNat α 1]

/-- **A.** After conditioning, no Player-1 or probabilistic state keeps a transition into a state
of reachability probability 0 — however many dead successors it had and wherever they sat. -/
theorem no_dead_successor {g : Game α} (hg : Shape g) {strat : Array Strat} {reach : Array α}
    {nodes : Array (List (Tr α))} (h : condition true g strat reach = .ok nodes) :
    ∀ s, s < g.owners.size → g.owners.getD s .prob ≠ .p2 →
      ∀ t ∈ nodes.getD s [], dead reach t = false := by
  intro s _ ho t ht
  rcases (condition_spec hg h).2 s with hrow | ⟨hnil, _, _⟩
  · rw [hrow] at ht; exact condRow_no_dead ho ht
  · rw [hnil] at ht; exact absurd ht List.not_mem_nil

/-- **B.** The conditioned game has the same number of states, and every row is exactly `condRow`,
except that a state that is not Player 1's and is NOT reachable from state 0 in the conditioned
graph may have been emptied. -/
theorem cond_exact {g : Game α} (hg : Shape g) {strat : Array Strat} {reach : Array α}
    {nodes : Array (List (Tr α))} (h : condition true g strat reach = .ok nodes) :
    nodes.size = g.owners.size ∧
    ∀ s, s < g.owners.size →
      nodes.getD s [] = condRow g strat reach s ∨
      (nodes.getD s [] = [] ∧ g.owners.getD s .prob ≠ .p1 ∧
        ¬ Relation.ReflTransGen (CondEdge g strat reach) 0 s) := by
  obtain ⟨hsz, hinv⟩ := condition_spec hg h
  exact ⟨hsz, fun s _ => hinv s⟩

/-- **C.** States reachable from the initial state carry exactly `condRow`. -/
theorem reachable_states_exact {g : Game α} (hg : Shape g) {strat : Array Strat}
    {reach : Array α} {nodes : Array (List (Tr α))}
    (h : condition true g strat reach = .ok nodes) {s : Nat}
    (hr : Relation.ReflTransGen (CondEdge g strat reach) 0 s) :
    nodes.getD s [] = condRow g strat reach s := by
  rcases (condition_spec hg h).2 s with hrow | ⟨_, _, hnr⟩
  · exact hrow
  · exact absurd hr hnr

/-- **C.** A Player-2 state still reachable from the initial state keeps its transition list
verbatim. -/
theorem p2_untouched {g : Game α} (hg : Shape g) {strat : Array Strat} {reach : Array α}
    {nodes : Array (List (Tr α))} (h : condition true g strat reach = .ok nodes) {s : Nat}
    (ho : g.owners.getD s .prob = .p2)
    (hr : Relation.ReflTransGen (CondEdge g strat reach) 0 s) :
    nodes.getD s [] = g.tl.getD s [] := by
  rw [reachable_states_exact hg h hr, condRow_p2 ho]

/-- **C.** A Player-1 state (reachable or not: `prune_states` never empties it) keeps exactly the
sub-list, in original order, of its strategy-permitted transitions into states of non-zero
reachability probability. -/
theorem p1_survivors {g : Game α} (hg : Shape g) {strat : Array Strat} {reach : Array α}
    {nodes : Array (List (Tr α))} (h : condition true g strat reach = .ok nodes) {s : Nat}
    (ho : g.owners.getD s .prob = .p1) :
    nodes.getD s [] =
        ((g.tl.getD s []).filter (fun t => ((strat.getD s none).getD []).contains t.act)).filter
          (fun t => !dead reach t) ∧
    List.Sublist (nodes.getD s []) (g.tl.getD s []) ∧
    ∀ t, t ∈ nodes.getD s [] ↔
      t ∈ g.tl.getD s [] ∧ ((strat.getD s none).getD []).contains t.act = true ∧
        dead reach t = false := by
  have hrow : nodes.getD s [] = condRow g strat reach s := by
    rcases (condition_spec hg h).2 s with hrow | ⟨_, hne, _⟩
    · exact hrow
    · exact absurd ho hne
  rw [condRow_p1 ho] at hrow
  refine ⟨hrow, ?_, ?_⟩
  · rw [hrow]; exact List.Sublist.trans List.filter_sublist List.filter_sublist
  · intro t
    rw [hrow, List.mem_filter, List.mem_filter, Bool.not_eq_true', and_assoc]

/-- **C.** No transition between positive-probability states is lost: in a state still reachable
from the initial state, every original transition into a state of non-zero reachability probability
(and permitted by the strategy, if the state is Player 1's) survives with its action and target. -/
theorem live_transition_kept {g : Game α} (hg : Shape g) {strat : Array Strat} {reach : Array α}
    {nodes : Array (List (Tr α))} (h : condition true g strat reach = .ok nodes) {s : Nat}
    (hr : Relation.ReflTransGen (CondEdge g strat reach) 0 s)
    {t : Tr α} (ht : t ∈ g.tl.getD s []) (hlive : dead reach t = false)
    (hperm : g.owners.getD s .prob = .p1 →
      ((strat.getD s none).getD []).contains t.act = true) :
    ∃ t' ∈ nodes.getD s [], t'.act = t.act ∧ t'.tgt = t.tgt := by
  rw [reachable_states_exact hg h hr]
  exact condRow_keeps_live ht hlive hperm

/-- **E (generic part).** Conditioning succeeds as soon as `prune_paths` does not divide by zero:
the `prune_states` loop never exhausts its fuel `n + 2`. -/
theorem condition_total_of_no_zeroDiv {g : Game α} (hg : Shape g) {strat : Array Strat}
    {reach : Array α}
    (hz : prunePaths g.owners reach (pruneReachability g.owners strat g.tl) ≠ .error .zeroDiv) :
    ∃ nodes, condition true g strat reach = .ok nodes := by
  cases hb : prunePaths g.owners reach (pruneReachability g.owners strat g.tl) with
  | ok base => exact condition_total_of_prunePaths hg hb
  | error e =>
    have := prunePaths_error_zeroDiv hb
    subst this
    exact absurd hb hz

omit [Sub α] [OfNat α 1] in
/-- **E.** Without pruning, conditioning is `prune_reachability` alone. -/
theorem condition_false (g : Game α) (strat : Array Strat) (reach : Array α) :
    condition false g strat reach = .ok (pruneReachability g.owners strat g.tl) := rfl

end Generic

section OrderedField
variable {K : Type} [Field K] [LinearOrder K] [IsStrictOrderedRing K]

/-- **D, when something was removed.** Over an ordered field, for a probabilistic state that has at
least one dead successor — whatever its probabilities sum to: the conditioned row consists of the
live transitions, in their original order and with their original action and target, each carrying
its original probability divided by the total surviving probability; if that total is not zero the
new probabilities sum to 1; and if the surviving probabilities are positive `prune_paths` does not
raise `ZeroDivisionError` on this row. -/
theorem prob_survivors_of_removed {g : Game K} {strat : Array Strat} {reach : Array K} {s : Nat}
    (ho : g.owners.getD s .prob = .prob)
    (hrem : ((g.tl.getD s []).filter (fun t => !dead reach t)).length ≠ (g.tl.getD s []).length) :
    let live := (g.tl.getD s []).filter (fun t => !dead reach t)
    condRow g strat reach s = live.map (fun t => { t with p := t.p / (live.map (·.p)).sum }) ∧
    ((live.map (·.p)).sum ≠ 0 → ((condRow g strat reach s).map (·.p)).sum = 1) ∧
    ((∀ t ∈ live, 0 < t.p) →
      prunePathsProb reach (g.tl.getD s []) = .ok (condRow g strat reach s)) := by
  intro live
  rw [condRow_prob ho]
  refine ⟨condProb_field_of_removed reach hrem,
    fun hne0 => condProb_sum_one_of_removed reach hrem hne0, fun hpos => ?_⟩
  apply prunePathsProb_pos
  intro t ht hd
  exact hpos t (List.mem_filter.mpr ⟨ht, by rw [hd]; rfl⟩)

/-- **D.** Over an ordered field, for a probabilistic state whose row is a positive distribution:
the conditioned row consists of the live transitions, in their original order and with their
original action and target, each carrying its original probability divided by the total surviving
probability; if anything survives the new probabilities sum to 1; and `prune_paths` does not raise
`ZeroDivisionError` on this row. -/
theorem prob_survivors {g : Game K} {strat : Array Strat} {reach : Array K} {s : Nat}
    (ho : g.owners.getD s .prob = .prob)
    (hpos : ∀ t ∈ g.tl.getD s [], 0 < t.p)
    (hsum : ((g.tl.getD s []).map (·.p)).sum = 1) :
    let live := (g.tl.getD s []).filter (fun t => !dead reach t)
    condRow g strat reach s = live.map (fun t => { t with p := t.p / (live.map (·.p)).sum }) ∧
    (live ≠ [] → ((condRow g strat reach s).map (·.p)).sum = 1) ∧
    prunePathsProb reach (g.tl.getD s []) ≠ .error .zeroDiv := by
  intro live
  rw [condRow_prob ho]
  refine ⟨condProb_field reach hsum, fun hne => condProb_sum_one reach hpos hsum hne, ?_⟩
  rw [prunePathsProb_field reach hpos hsum]
  simp

/-- **D, on the solver's output.** The same, for the list actually stored in a probabilistic state
that is still reachable from the initial state. -/
theorem prob_survivors_nodes {g : Game K} (hg : Shape g) {strat : Array Strat} {reach : Array K}
    {nodes : Array (List (Tr K))} (h : condition true g strat reach = .ok nodes) {s : Nat}
    (ho : g.owners.getD s .prob = .prob)
    (hpos : ∀ t ∈ g.tl.getD s [], 0 < t.p)
    (hsum : ((g.tl.getD s []).map (·.p)).sum = 1)
    (hr : Relation.ReflTransGen (CondEdge g strat reach) 0 s) :
    let live := (g.tl.getD s []).filter (fun t => !dead reach t)
    nodes.getD s [] = live.map (fun t => { t with p := t.p / (live.map (·.p)).sum }) ∧
    (live ≠ [] → ((nodes.getD s []).map (·.p)).sum = 1) := by
  intro live
  rw [reachable_states_exact hg h hr]
  obtain ⟨h1, h2, _⟩ := prob_survivors (strat := strat) (reach := reach) ho hpos hsum
  exact ⟨h1, h2⟩

/-- **E, without normalisation.** Over an ordered field, if in every probabilistic row the
transitions into states of non-zero reachability probability carry positive probabilities (the
rows need not sum to 1) then conditioning always succeeds: the divisor of `prune_paths` is the
sum of the surviving probabilities, hence not zero, and `prune_states` terminates within its fuel
`n + 2`. -/
theorem condition_total_of_pos {g : Game K} (hg : Shape g) {reach : Array K}
    (hrows : ∀ s, s < g.owners.size → g.owners.getD s .prob = .prob →
      ∀ t ∈ g.tl.getD s [], dead reach t = false → 0 < t.p)
    (strat : Array Strat) :
    ∃ nodes, condition true g strat reach = .ok nodes := by
  obtain ⟨base, hb⟩ := prunePaths_pos hg hrows strat
  exact condition_total_of_prunePaths hg hb

/-- **E.** Over an ordered field, if every probabilistic row is a positive distribution then
conditioning always succeeds: no `ZeroDivisionError`, and `prune_states` terminates within its
fuel `n + 2`. -/
theorem condition_total {g : Game K} (hg : Shape g)
    (hrows : ∀ s, s < g.owners.size → g.owners.getD s .prob = .prob →
      (∀ t ∈ g.tl.getD s [], 0 < t.p) ∧ ((g.tl.getD s []).map (·.p)).sum = 1)
    (strat : Array Strat) (reach : Array K) :
    ∃ nodes, condition true g strat reach = .ok nodes := by
  obtain ⟨base, hb⟩ := prunePaths_field hg hrows strat reach
  exact condition_total_of_prunePaths hg hb

end OrderedField

/-! ### non-vacuity: concrete conditioning over `Rat`

States: 0 Player 1, 1 and 2 probabilistic, 3 and 4 dead (reachability 0) sinks, 5 final.
State 1 has two ADJACENT dead successors (3, 4) before its live one; state 2 has two SEPARATED
dead successors (3 first, 4 third) among live ones; state 0 has a dead successor between live
ones. -/

private def tr (a : String) (p : Rat) (t : Nat) : Tr Rat := { act := a, p := p, tgt := t }

private def exGame : Game Rat :=
  { rewards := #[0, 0, 0, 0, 0, 0]
    owners := #[.p1, .prob, .prob, .prob, .p2, .prob]
    tl := #[ [tr "a" 0 1, tr "c" 0 3, tr "b" 0 2, tr "z" 0 5],
             [tr "" (1/4) 3, tr "" (1/4) 4, tr "" (1/2) 5],
             [tr "" (1/5) 3, tr "" (2/5) 5, tr "" (1/5) 4, tr "" (1/5) 1],
             [tr "" 1 3],
             [tr "x" 0 4],
             [tr "" 1 5] ]
    finals := [5] }

private def exStrat : Array Strat := #[some ["a", "b", "c"], none, none, none, some ["x"], none]
private def exReach : Array Rat := #[1, 1, 1, 0, 0, 1]

example : Shape exGame := rfl

example :
    condition true exGame exStrat exReach =
      .ok #[ [tr "a" 0 1, tr "b" 0 2],
             [tr "" 1 5],
             [tr "" (2/3) 5, tr "" (1/3) 1],
             [],
             [tr "x" 0 4],   -- unreachable Player-2 self-loop: its own target, hence not cleared
             [tr "" 1 5] ] := by
  decide +kernel

/-- a probabilistic state ALL of whose successors are dead is emptied, not a division by zero -/
example :
    condition true
      { rewards := #[0, 0, 0], owners := #[.prob, .prob, .prob],
        tl := #[[tr "" (1/2) 1, tr "" (1/2) 2], [tr "" (1/2) 1, tr "" (1/2) 1], [tr "" 1 2]],
        finals := [2] }
      #[none, none, none] #[(1/2 : Rat), 0, 1] =
      .ok #[[tr "" 1 2], [], [tr "" 1 2]] := by
  decide +kernel

/-- the divisor is the SUM OF THE SURVIVING probabilities, not `1 -` the removed ones: on a row
that does not sum to 1 (here 1/4 + 1/4 + 1/4) the survivors are renormalised to 1/2 each (dividing
by `1 - 1/4` would give 1/3 each) -/
example :
    condition true
      { rewards := #[0, 0, 0], owners := #[.prob, .prob, .prob],
        tl := #[[tr "" (1/4) 1, tr "" (1/4) 2, tr "" (1/4) 0], [tr "" 1 1], [tr "" 1 2]],
        finals := [2] }
      #[none, none, none] #[(1 : Rat), 0, 1] =
      .ok #[[tr "" (1/2) 2, tr "" (1/2) 0], [], [tr "" 1 2]] := by
  decide +kernel

/-- surviving probabilities that cancel (sum 0) are the one remaining `ZeroDivisionError` -/
example :
    condition true
      { rewards := #[0, 0, 0], owners := #[.prob, .prob, .prob],
        tl := #[[tr "" 1 1, tr "" (1/2) 2, tr "" (-1/2) 0], [tr "" 1 1], [tr "" 1 2]],
        finals := [2] }
      #[none, none, none] #[(1 : Rat), 0, 1] = .error .zeroDiv := by
  decide +kernel

/-- the hypotheses of `condition_total` are satisfiable -/
example : ∃ nodes, condition true exGame exStrat exReach = .ok nodes :=
  condition_total (g := exGame) rfl (by decide +kernel) exStrat exReach

end CR.C03
