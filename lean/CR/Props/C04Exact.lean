/-
Property C04, exact form: reachability strategies in terms of the TRUE VALUES of the game.

`C04.strat_argmax_reported` describes the reported strategy as the arg-max / arg-min list of the
rounded REPORTED probabilities.  When the last sweep of the reachability loop changed nothing, the
reported probabilities are the value of the game (`C01.reach_exact_of_zero_diff'`), so the
reported strategy is exactly the arg-max / arg-min list, in transition order, of the rounded true
values of the successors — over an arbitrary linearly ordered field `K`, for an arbitrary rounding
function, threshold, fuel and pruning flag.

"The value" is `C01.IsValue` (the least pre-fixed point of the Bellman operator); under the
hypotheses of this file it exists: it is the reported vector (`reported_is_value_of_exact`).
Helper lemmas: `CR/Lemmas/GlueStrat.lean`.
-/
import CR.Props.C04
import CR.Props.C01Path
import CR.Lemmas.GlueStrat
import CR.Lemmas.Rew

set_option linter.unusedSectionVars false

namespace CR.C04
open CR CR.VI

variable {K : Type} [Field K] [LinearOrder K] [IsStrictOrderedRing K]
variable {rnd : K → Int} {thr : K} {fuel : Nat} {prune : Bool} {g : Game K} {r : ReachOut K}

/-- the hypothesis `IsValue g v` below is satisfiable whenever the other hypotheses hold: if the
last sweep changed nothing, the reported vector IS the value (it is a pre-fixed point by
`C01.reach_exact_of_zero_diff'` and below every pre-fixed point by `C01.reach_le_prefixed`) -/
theorem reported_is_value_of_exact (hwf : C01.WF g)
    (H : solveReach rnd thr fuel prune g = .ok r) (x : Array K)
    (hsw : sweepReach g.owners g.tl r.order x = (r.probs, 0)) : C01.IsValue g r.probs :=
  ⟨(C01.reach_exact_of_zero_diff' hwf H x hsw).1,
    fun y hy s hs => C01.reach_le_prefixed hwf H y hy s hs⟩

/-- **C04, exact form.**  If the last sweep changed nothing (`sweepReach … x = (r.probs, 0)`) and
`v` is the value of the game, then for every Player-1 state the reported strategy is EXACTLY the
list, in transition order, of the actions whose successor's rounded TRUE VALUE equals the
maximum of the rounded true values over the row (clamped below by the literal `0`), and for every
Player-2 state the list of those equal to the minimum (clamped above by `rnd 1`); probabilistic
states have no strategy.  (Successor indices are in range by `C01.WF`, which `init_states`
guarantees: `C01.initStates_range`.) -/
theorem strat_optimal_of_exact (hwf : C01.WF g) (H : solveReach rnd thr fuel prune g = .ok r)
    (x : Array K) (hsw : sweepReach g.owners g.tl r.order x = (r.probs, 0))
    (v : Array K) (hv : C01.IsValue g v) :
    (∀ s, g.owners.getD s .prob = .p1 →
      r.strat.getD s none = some
        (((g.tl.getD s []).filter (fun t => rnd (v.getD t.tgt 0) ==
            (g.tl.getD s []).foldl (fun m t => max m (rnd (v.getD t.tgt 0))) 0)).map
          (·.act))) ∧
    (∀ s, g.owners.getD s .prob = .p2 →
      r.strat.getD s none = some
        (((g.tl.getD s []).filter (fun t => rnd (v.getD t.tgt 0) ==
            (g.tl.getD s []).foldl (fun m t => min m (rnd (v.getD t.tgt 0))) (rnd 1))).map
          (·.act))) ∧
    (∀ s, g.owners.getD s .prob = .prob → r.strat.getD s none = none) := by
  obtain ⟨_, h1, h2, h3⟩ := strat_argmax_reported H
  have hex := (C01.reach_exact_of_zero_diff' hwf H x hsw).2 v hv
  have hkey : ∀ s, g.owners.getD s .prob ≠ .prob → ∀ t ∈ g.tl.getD s [],
      rnd (r.probs.getD t.tgt 0) = rnd (v.getD t.tgt 0) := by
    intro s hs t ht
    rw [hex t.tgt (hwf.2.1 s (owner_lt_size hs) t ht)]
  refine ⟨fun s hp => ?_, fun s hp => ?_, h3⟩
  · rw [h1 s hp]
    exact congrArg some (GlueStrat.argList_congr _ _ max 0 (·.act) _
      (hkey s (by rw [hp]; simp)))
  · rw [h2 s hp]
    exact congrArg some (GlueStrat.argList_congr _ _ min (rnd 1) (·.act) _
      (hkey s (by rw [hp]; simp)))

/-- **every listed action is value-optimal up to rounding** (monotone rounding function).
Under the hypotheses of `strat_optimal_of_exact`, every action listed for a Player-1 state is
carried by a successor `t` of the state such that no successor `t'` has a larger rounded true
value, and a successor whose true value is at least that of `t` has the SAME rounded value (so
`t` is a true maximiser, or differs from one by less than the rounding resolution); dually for
Player 2.  (The inequality between the rounded values does not need monotonicity.) -/
theorem strat_optimal_of_exact_exactcmp (hmono : ∀ a b : K, a ≤ b → rnd a ≤ rnd b)
    (hwf : C01.WF g) (H : solveReach rnd thr fuel prune g = .ok r)
    (x : Array K) (hsw : sweepReach g.owners g.tl r.order x = (r.probs, 0))
    (v : Array K) (hv : C01.IsValue g v) (s : Nat) (l : List String)
    (hl : r.strat.getD s none = some l) :
    (g.owners.getD s .prob = .p1 → ∀ a ∈ l, ∃ t ∈ g.tl.getD s [], t.act = a ∧
      ∀ t' ∈ g.tl.getD s [], rnd (v.getD t'.tgt 0) ≤ rnd (v.getD t.tgt 0) ∧
        (v.getD t.tgt 0 ≤ v.getD t'.tgt 0 → rnd (v.getD t'.tgt 0) = rnd (v.getD t.tgt 0))) ∧
    (g.owners.getD s .prob = .p2 → ∀ a ∈ l, ∃ t ∈ g.tl.getD s [], t.act = a ∧
      ∀ t' ∈ g.tl.getD s [], rnd (v.getD t.tgt 0) ≤ rnd (v.getD t'.tgt 0) ∧
        (v.getD t'.tgt 0 ≤ v.getD t.tgt 0 → rnd (v.getD t'.tgt 0) = rnd (v.getD t.tgt 0))) := by
  obtain ⟨h1, h2, _⟩ := strat_optimal_of_exact hwf H x hsw v hv
  constructor
  · intro hp a ha
    rw [h1 s hp] at hl
    rw [← Option.some.inj hl] at ha
    obtain ⟨t, ht, rfl⟩ := List.mem_map.mp ha
    obtain ⟨htm, hte⟩ := List.mem_filter.mp ht
    have hte' := eq_of_beq hte
    refine ⟨t, htm, rfl, fun t' ht' => ?_⟩
    have hle : rnd (v.getD t'.tgt 0) ≤ rnd (v.getD t.tgt 0) := by
      rw [hte']
      exact (foldl_max_spec (fun t : Tr K => rnd (v.getD t.tgt 0)) 0 _).2.1 t' ht'
    exact ⟨hle, fun hvv => le_antisymm hle (hmono _ _ hvv)⟩
  · intro hp a ha
    rw [h2 s hp] at hl
    rw [← Option.some.inj hl] at ha
    obtain ⟨t, ht, rfl⟩ := List.mem_map.mp ha
    obtain ⟨htm, hte⟩ := List.mem_filter.mp ht
    have hte' := eq_of_beq hte
    refine ⟨t, htm, rfl, fun t' ht' => ?_⟩
    have hle : rnd (v.getD t.tgt 0) ≤ rnd (v.getD t'.tgt 0) := by
      rw [hte']
      exact (foldl_min_spec (fun t : Tr K => rnd (v.getD t.tgt 0)) (rnd 1) _).2.1 t' ht'
    exact ⟨hle, fun hvv => le_antisymm (hmono _ _ hvv) hle⟩

/-- **every value-optimal action is listed** (monotone rounding function with `rnd 0 = 0`,
which `round(·, 6)` satisfies).  Under the hypotheses of `strat_optimal_of_exact`, the action of
every successor of a Player-1 state whose true value is maximal over the row is in the reported
strategy, and the action of every successor of a Player-2 state whose true value is minimal over
the row is in the reported strategy. -/
theorem strat_contains_optimal_of_exact (hmono : ∀ a b : K, a ≤ b → rnd a ≤ rnd b)
    (h0 : rnd 0 = 0) (hwf : C01.WF g) (H : solveReach rnd thr fuel prune g = .ok r)
    (x : Array K) (hsw : sweepReach g.owners g.tl r.order x = (r.probs, 0))
    (v : Array K) (hv : C01.IsValue g v) (s : Nat) :
    (g.owners.getD s .prob = .p1 → ∀ t ∈ g.tl.getD s [],
      (∀ t' ∈ g.tl.getD s [], v.getD t'.tgt 0 ≤ v.getD t.tgt 0) →
      ∃ l, r.strat.getD s none = some l ∧ t.act ∈ l) ∧
    (g.owners.getD s .prob = .p2 → ∀ t ∈ g.tl.getD s [],
      (∀ t' ∈ g.tl.getD s [], v.getD t.tgt 0 ≤ v.getD t'.tgt 0) →
      ∃ l, r.strat.getD s none = some l ∧ t.act ∈ l) := by
  obtain ⟨h1, h2, _⟩ := strat_optimal_of_exact hwf H x hsw v hv
  have hrange : ∀ t ∈ g.tl.getD s [], g.owners.getD s .prob ≠ .prob →
      0 ≤ v.getD t.tgt 0 ∧ v.getD t.tgt 0 ≤ 1 := by
    intro t ht hs
    rw [← (C01.reach_exact_of_zero_diff' hwf H x hsw).2 v hv t.tgt
      (hwf.2.1 s (owner_lt_size hs) t ht)]
    exact C01.reach_range hwf H t.tgt
  constructor
  · intro hp t ht hopt
    refine ⟨_, h1 s hp, List.mem_map.mpr ⟨t, List.mem_filter.mpr ⟨ht, ?_⟩, rfl⟩⟩
    obtain ⟨_, hub, hatt⟩ := foldl_max_spec (fun t : Tr K => rnd (v.getD t.tgt 0)) 0 (g.tl.getD s [])
    have hge := hub t ht
    have : rnd (v.getD t.tgt 0) =
        (g.tl.getD s []).foldl (fun m t => max m (rnd (v.getD t.tgt 0))) 0 := by
      refine le_antisymm hge ?_
      rcases hatt with h | ⟨u, hu, h⟩
      · rw [h, ← h0]; exact hmono _ _ (hrange t ht (by rw [hp]; simp)).1
      · rw [← h]; exact hmono _ _ (hopt u hu)
    simpa using this
  · intro hp t ht hopt
    refine ⟨_, h2 s hp, List.mem_map.mpr ⟨t, List.mem_filter.mpr ⟨ht, ?_⟩, rfl⟩⟩
    obtain ⟨_, hlb, hatt⟩ :=
      foldl_min_spec (fun t : Tr K => rnd (v.getD t.tgt 0)) (rnd 1) (g.tl.getD s [])
    have hle := hlb t ht
    have : rnd (v.getD t.tgt 0) =
        (g.tl.getD s []).foldl (fun m t => min m (rnd (v.getD t.tgt 0))) (rnd 1) := by
      refine le_antisymm ?_ hle
      rcases hatt with h | ⟨u, hu, h⟩
      · rw [h]; exact hmono _ _ (hrange t ht (by rw [hp]; simp)).2
      · rw [← h]; exact hmono _ _ (hopt u hu)
    simpa using this

/-! ### non-vacuity: all hypotheses hold together on the 6-state game over `Rat`

(`g6`: a three-way tie at the Player-1 state 0, a Player-2 state 1 choosing the smaller value;
`reverseDfs` does not reduce in the kernel, its value is supplied by `Examples.g6_ord`.) -/

section NonVacuity
open Examples

/-- a run whose last sweep changed nothing, on a well-formed game with a Player-1 and a Player-2
state; the value is the reported vector `[1/2, 1/2, 1/2, 1/2, 1, 0]`; the strategies are the
arg-max list `a, b, c` (all three successors have value 1/2) and the arg-min list `y`
(value 1/2 against 1) of the TRUE values -/
example : ∃ r, solveReach (roundRat 6) Examples.thr 1000 true g6 = .ok r ∧
    C01.IsValue g6 r.probs ∧ r.probs = #[1/2, 1/2, 1/2, 1/2, 1, 0] ∧
    r.strat.getD 0 none = some
      (((g6.tl.getD 0 []).filter (fun t => roundRat 6 (r.probs.getD t.tgt 0) ==
          (g6.tl.getD 0 []).foldl (fun m t => max m (roundRat 6 (r.probs.getD t.tgt 0))) 0)).map
        (·.act)) ∧
    r.strat.getD 0 none = some ["a", "b", "c"] ∧ r.strat.getD 1 none = some ["y"] := by
  have g6_wf : C01.WF g6 := by
    refine ⟨rfl, ?_, ?_⟩
    · intro s hs
      have hs' : s < 6 := hs
      have : s = 0 ∨ s = 1 ∨ s = 2 ∨ s = 3 ∨ s = 4 ∨ s = 5 := by omega
      rcases this with rfl | rfl | rfl | rfl | rfl | rfl <;> simp [g6, tr]
    · intro s hs ho
      have hs' : s < 6 := hs
      have : s = 0 ∨ s = 1 ∨ s = 2 ∨ s = 3 ∨ s = 4 ∨ s = 5 := by omega
      rcases this with rfl | rfl | rfl | rfl | rfl | rfl <;>
        simp [g6, tr] at ho ⊢ <;> norm_num
  obtain ⟨r, H, hr⟩ : ∃ r, solveReach (roundRat 6) Examples.thr 1000 true g6 = .ok r ∧
      (r.probs, r.strat, r.order) =
        (#[1/2, 1/2, 1/2, 1/2, 1, 0],
         #[some ["a", "b", "c"], some ["y"], none, none, none, none], [0, 1, 2, 3]) :=
    exists_ok_of_toOption_map (by unfold solveReach; rw [g6_ord]; decide +kernel)
  have hp : r.probs = #[1/2, 1/2, 1/2, 1/2, 1, 0] := congrArg (·.1) hr
  have hs : r.strat = #[some ["a", "b", "c"], some ["y"], none, none, none, none] :=
    congrArg (·.2.1) hr
  have ho : r.order = [0, 1, 2, 3] := congrArg (·.2.2) hr
  have hsw : sweepReach g6.owners g6.tl r.order r.probs = (r.probs, 0) := by
    rw [ho, hp]; decide +kernel
  have hv := reported_is_value_of_exact g6_wf H r.probs hsw
  refine ⟨r, H, hv, hp, (strat_optimal_of_exact g6_wf H r.probs hsw r.probs hv).1 0 rfl, ?_, ?_⟩
  · rw [hs]; rfl
  · rw [hs]; rfl

/-- the rounding function of the `Rat` instance satisfies the hypotheses of the two corollaries -/
example : (∀ a b : Rat, a ≤ b → roundRat 6 a ≤ roundRat 6 b) ∧ roundRat 6 (0 : Rat) = 0 :=
  ⟨CR.Rew.roundRat_mono 6, by decide +kernel⟩

end NonVacuity

end CR.C04
