/-
Property C13: presentation independence.

"Renumbering the states (keeping the initial state first), reordering the transitions inside any
state, or renaming actions consistently changes the reported probabilities and expected rewards
only by the corresponding renumbering (within convergence tolerance), changes strategies only by
the renaming, and never changes whether the game is declared solvable."

The property is decided by refinement to PRESENTATION-INDEPENDENT SPECIFICATIONS: a
re-presentation `Presents π ρ g g'` (`CR/Lemmas/Equiv.lean`: `π` a permutation of `0..n-1` with
`π 0 = 0`, every row of `g'` a `List.Perm` of the renamed / renumbered row of `g`, `ρ` injective)
commutes with every specification the other property theorems relate the solver's output to:

1. graph reachability and hence the set of states value iteration sweeps (`reverseDfs`, via C07);
2. the Bellman operator `C01.Bell` (max / min over a permuted list; the weighted SUM over a
   permuted list is equal in a field — this is where exact arithmetic is used);
3. pre-fixed points and the least one, `C01.IsValue` = the value; the zero set; solvability;
4. the sets of value-optimal actions (the `ρ`-image);
5. two runs whose last sweep changed nothing report vectors related exactly by `π`;
6. the conditioned rows `condRow` of C03 (a permutation of the renamed / renumbered row);
7. the reported strategy lists (same rounding function, exactly related vectors): a permutation
   of the renamed list.

Hypotheses beyond `Presents`: `TgtOk g` (one row per state, all targets are states — what
`check_game` / `init_states` guarantee, implied by `C01.WF g`).  Without it a target `≥ n` would
be read as value 0 in `g` but `π` is unconstrained outside `0..n-1`.  No range hypothesis on the
final states is needed (`finals` relates them on `0..n-1`; a final state of `g'` outside
`0..n-1` is not reachable and never read).

NOT proved here (and not true as an exact statement):
* equality of the two FLOATING-POINT runs: reordering a row changes the order of the weighted
  sum and hence the rounding; the Gauss–Seidel sweep order (ascending state index) also changes
  under renumbering, so intermediate iterates differ even in exact arithmetic;
* equality of two residual-stopped runs that have not converged exactly.  What is provable is the
  sandwich `both_below_same_value`: both reports are lower bounds of the SAME value
  (`r.probs[s] ≤ v[s]` and `r'.probs[π s] ≤ v[s]`), each within its own stopping residual
  (C01.reach_residual_le_thr) of a Bellman fixed point;
* equality of the strategy LISTS: `bestStrat` lists actions in row order, so after a reorder the
  list is a permutation of the renamed list (7), not the renamed list itself; and for runs that
  are only close (not exactly related by `π`) the ROUNDED values compared by `bestStrat` may tie
  in one presentation and not in the other, so nothing is claimed there;
* the expected-reward phase (`viRew`): only its input, the conditioned rows, is treated (6, 7'').
-/
import CR.Lemmas.Equiv
import Mathlib.Tactic.NormNum

set_option linter.unusedSectionVars false

namespace CR.C13

open CR CR.Present

variable {K : Type} [Field K] [LinearOrder K] [IsStrictOrderedRing K]
variable {π : Nat → Nat} {ρ : String → String} {g g' : Game K}

/-! ### 1. reachability and the sweep order -/

/-- 1. graph reachability commutes with the renumbering -/
theorem reach_equivariant (h : Presents π ρ g g') (hr : TgtOk g) :
    ∀ s < g.owners.size, ∀ t < g.owners.size,
      (C07.Reach (targets g) s t ↔ C07.Reach (targets g') (π s) (π t)) := by
  intro s hs t ht
  refine ⟨reach_push h hr hs, fun he => ?_⟩
  obtain ⟨t', ht', heq, hst⟩ := reach_pull h hr hs he
  rwa [h.inj t ht t' ht' heq]

/-- 1'. the set of states value iteration updates (`ReachOut.order`) is the renumbered set -/
theorem dfs_equivariant (h : Presents π ρ g g') (hr : TgtOk g) :
    ∀ s < g.owners.size,
      (s ∈ reverseDfs (targets g) g.finals ↔ π s ∈ reverseDfs (targets g') g'.finals) := by
  intro s hs
  rw [mem_order_iff hr, mem_order_iff (h.tgtOk hr), h.finals s hs]
  refine and_congr_right (fun _ => ⟨?_, ?_⟩)
  · rintro ⟨f, hf, hsf⟩
    have hflt := reach_lt hr hs hsf
    exact ⟨π f, (h.finals f hflt).mpr hf, reach_push h hr hs hsf⟩
  · rintro ⟨f', hf', hsf'⟩
    obtain ⟨f, hflt, rfl, hsf⟩ := reach_pull h hr hs hsf'
    exact ⟨f, (h.finals f hflt).mp hf', hsf⟩

/-- 1''. ... stated for the `order` fields of two successful runs -/
theorem order_equivariant (h : Presents π ρ g g') (hr : TgtOk g)
    {rnd rnd' : K → Int} {thr thr' : K} {fuel fuel' : Nat} {prune prune' : Bool}
    {r r' : ReachOut K} (H : solveReach rnd thr fuel prune g = .ok r)
    (H' : solveReach rnd' thr' fuel' prune' g' = .ok r') :
    ∀ s < g.owners.size, (s ∈ r.order ↔ π s ∈ r'.order) := by
  rw [(VI.solveReach_ok H).2.2.1, (VI.solveReach_ok H').2.2.1]
  exact dfs_equivariant h hr

/-! ### 2. the Bellman operator -/

/-- 2. the Bellman operator commutes with the renumbering (for ANY `x'` that agrees with `x`
along `π`) -/
theorem bell_equivariant (h : Presents π ρ g g') (hr : TgtOk g) {x x' : Array K}
    (hx : ∀ s < g.owners.size, x'.getD (π s) 0 = x.getD s 0) :
    ∀ s < g.owners.size, C01.Bell g' x' (π s) = C01.Bell g x s :=
  fun _ hs => bell_eq h hr hx hs

/-- a transported vector always exists (`push`), and every vector of `g'` is the transport of
one of `g` (`pull`) -/
theorem transport_exists (h : Presents π ρ g g') :
    (∀ x : Array K, x.size = g.owners.size → ∃ x', Transports π g.owners.size x x') ∧
    (∀ x' : Array K, x'.size = g.owners.size → ∃ x, Transports π g.owners.size x x') :=
  ⟨fun _ hx => ⟨_, transports_push h hx⟩, fun _ hx' => ⟨_, transports_pull hx'⟩⟩

/-! ### 3. pre-fixed points, the value, the zero set, solvability -/

/-- 3a. pre-fixed points correspond -/
theorem prefixed_equivariant (h : Presents π ρ g g') (hr : TgtOk g) {y y' : Array K}
    (ht : Transports π g.owners.size y y') : C01.PreFixed g y ↔ C01.PreFixed g' y' :=
  ⟨preFixed_push h hr ht, preFixed_pull h hr ht⟩

/-- 3. `v` is the value of `g` iff its transport is the value of `g'` -/
theorem value_equivariant (h : Presents π ρ g g') (hr : TgtOk g) {v v' : Array K}
    (ht : Transports π g.owners.size v v') : C01.IsValue g v ↔ C01.IsValue g' v' :=
  ⟨isValue_push h hr ht, isValue_pull h hr ht⟩

/-- 3'. ANY value of `g'` is the renumbering of ANY value of `g` (no transport hypothesis) -/
theorem value_unique_equivariant (h : Presents π ρ g g') (hr : TgtOk g) {v v' : Array K}
    (hv : C01.IsValue g v) (hv' : C01.IsValue g' v') :
    ∀ s < g.owners.size, v'.getD (π s) 0 = v.getD s 0 := by
  intro s hs
  have ht := transports_push h hv.1.1
  rw [← ht.2.2 s hs]
  exact isValue_unique hv' (isValue_push h hr ht hv) _ (by rw [h.n_owners]; exact h.maps s hs)

/-- 3''. the zero set is the renumbered zero set, and whether the initial state has value 0 —
the condition under which the game is declared to have no solution — is presentation
independent -/
theorem zero_set_equivariant (h : Presents π ρ g g') (hr : TgtOk g) {v v' : Array K}
    (hv : C01.IsValue g v) (hv' : C01.IsValue g' v') :
    (∀ s < g.owners.size, (v'.getD (π s) 0 = 0 ↔ v.getD s 0 = 0)) ∧
    (v'.getD 0 0 = 0 ↔ v.getD 0 0 = 0) := by
  have hu := value_unique_equivariant h hr hv hv'
  refine ⟨fun s hs => by rw [hu s hs], ?_⟩
  by_cases hn : 0 < g.owners.size
  · have := hu 0 hn
    rw [h.fix0] at this
    rw [this]
  · have h0 : g.owners.size = 0 := by omega
    rw [VI.getD_of_size_le v' 0 0 (by rw [hv'.1.1, h.n_owners, h0]),
      VI.getD_of_size_le v 0 0 (by rw [hv.1.1, h0])]

/-! ### 4. optimal actions -/

/-- 4 (maximiser, Player 1). the value-optimal actions of `g'` at `π s` are exactly the renamed
value-optimal actions of `g` at `s` -/
theorem optimal_actions_equivariant (h : Presents π ρ g g') (hr : TgtOk g) {v v' : Array K}
    (hv : ∀ s < g.owners.size, v'.getD (π s) 0 = v.getD s 0) {s : Nat}
    (hs : s < g.owners.size) :
    (∀ a, a ∈ OptActsMax g v s ↔ ρ a ∈ OptActsMax g' v' (π s)) ∧
    (∀ b ∈ OptActsMax g' v' (π s), ∃ a ∈ OptActsMax g v s, b = ρ a) ∧
    OptActsMax g' v' (π s) = ρ '' OptActsMax g v s := by
  have himg := optActsMax_image h hr hv hs
  refine ⟨fun a => ?_, fun b hb => ?_, himg⟩
  · rw [himg, h.ρ_injective.mem_set_image]
  · rw [himg] at hb
    obtain ⟨a, ha, rfl⟩ := hb
    exact ⟨a, ha, rfl⟩

/-- 4 (minimiser, Player 2) -/
theorem optimal_actions_equivariant_min (h : Presents π ρ g g') (hr : TgtOk g) {v v' : Array K}
    (hv : ∀ s < g.owners.size, v'.getD (π s) 0 = v.getD s 0) {s : Nat}
    (hs : s < g.owners.size) :
    (∀ a, a ∈ OptActsMin g v s ↔ ρ a ∈ OptActsMin g' v' (π s)) ∧
    (∀ b ∈ OptActsMin g' v' (π s), ∃ a ∈ OptActsMin g v s, b = ρ a) ∧
    OptActsMin g' v' (π s) = ρ '' OptActsMin g v s := by
  have himg := optActsMin_image h hr hv hs
  refine ⟨fun a => ?_, fun b hb => ?_, himg⟩
  · rw [himg, h.ρ_injective.mem_set_image]
  · rw [himg] at hb
    obtain ⟨a, ha, rfl⟩ := hb
    exact ⟨a, ha, rfl⟩

/-! ### 5. the reports of two runs -/

section Runs
variable {rnd rnd' : K → Int} {thr thr' : K} {fuel fuel' : Nat} {prune prune' : Bool}
  {r r' : ReachOut K}

/-- well-formedness (`C01.WF`) is presentation independent, so it is assumed for `g` only -/
theorem wf_equivariant (h : Presents π ρ g g') (hwf : C01.WF g) : C01.WF g' := h.wf hwf

/-- the hypothesis `hclosed` of `C01.reach_exact_of_zero_diff` holds for every successful run on
a well-formed game (so it is not a hypothesis below) -/
theorem closed_of_ok (hr : TgtOk g) (H : solveReach rnd thr fuel prune g = .ok r) :
    ∀ s < g.owners.size, s ∉ r.order → s ∉ g.finals →
      ∀ t ∈ g.tl.getD s [], t.tgt ∉ r.order ∧ t.tgt ∉ g.finals := by
  rw [(VI.solveReach_ok H).2.2.1]
  exact order_closed hr

/-- a run whose last sweep changed nothing reports THE value -/
theorem isValue_of_zero_diff (hwf : C01.WF g) (H : solveReach rnd thr fuel prune g = .ok r)
    (x : Array K) (hsw : sweepReach g.owners g.tl r.order x = (r.probs, 0)) :
    C01.IsValue g r.probs :=
  ⟨(C01.reach_exact_of_zero_diff hwf H x hsw (closed_of_ok (tgtOk_of_wf hwf) H)).2.1,
    fun y hy => C01.reach_le_prefixed hwf H y hy⟩

/-- 5. if in both presentations the last sweep of the reachability run changed nothing, the two
reports are related EXACTLY by the renumbering (both are the value of their game, and the value
is equivariant by 3) -/
theorem solve_equivariant_of_exact (h : Presents π ρ g g') (hwf : C01.WF g)
    (H : solveReach rnd thr fuel prune g = .ok r)
    (H' : solveReach rnd' thr' fuel' prune' g' = .ok r')
    (x : Array K) (hsw : sweepReach g.owners g.tl r.order x = (r.probs, 0))
    (x' : Array K) (hsw' : sweepReach g'.owners g'.tl r'.order x' = (r'.probs, 0)) :
    ∀ s < g.owners.size, r'.probs.getD (π s) 0 = r.probs.getD s 0 :=
  value_unique_equivariant h (tgtOk_of_wf hwf) (isValue_of_zero_diff hwf H x hsw)
    (isValue_of_zero_diff (h.wf hwf) H' x' hsw')

/-- 5'. ... consequently such runs agree on the zero set and on `probs[0] = 0`, the test that
makes `solveReach` (with `prune = true`) declare "no solution" -/
theorem solvable_equivariant_of_exact (h : Presents π ρ g g') (hwf : C01.WF g)
    (H : solveReach rnd thr fuel prune g = .ok r)
    (H' : solveReach rnd' thr' fuel' prune' g' = .ok r')
    (x : Array K) (hsw : sweepReach g.owners g.tl r.order x = (r.probs, 0))
    (x' : Array K) (hsw' : sweepReach g'.owners g'.tl r'.order x' = (r'.probs, 0)) :
    (r'.probs.getD 0 0 = 0 ↔ r.probs.getD 0 0 = 0) :=
  (zero_set_equivariant h (tgtOk_of_wf hwf) (isValue_of_zero_diff hwf H x hsw)
    (isValue_of_zero_diff (h.wf hwf) H' x' hsw')).2

/-- the sandwich for runs stopped by the residual test: both reports are lower bounds of the
same value -/
theorem both_below_same_value (h : Presents π ρ g g') (hwf : C01.WF g)
    (H : solveReach rnd thr fuel prune g = .ok r)
    (H' : solveReach rnd' thr' fuel' prune' g' = .ok r')
    (v : Array K) (hv : C01.IsValue g v) :
    ∀ s < g.owners.size, r.probs.getD s 0 ≤ v.getD s 0 ∧ r'.probs.getD (π s) 0 ≤ v.getD s 0 := by
  intro s hs
  have ht := transports_push h hv.1.1
  have hv' := isValue_push h (tgtOk_of_wf hwf) ht hv
  refine ⟨C01.reach_le_value hwf H v hv s hs, ?_⟩
  rw [← ht.2.2 s hs]
  exact C01.reach_le_value (h.wf hwf) H' _ hv' _ (by rw [h.n_owners]; exact h.maps s hs)

/-- the zero set of the value bounds both reports: where the value is 0 both presentations
report exactly 0 -/
theorem both_zero_where_value_zero (h : Presents π ρ g g') (hwf : C01.WF g)
    (H : solveReach rnd thr fuel prune g = .ok r)
    (H' : solveReach rnd' thr' fuel' prune' g' = .ok r')
    (v : Array K) (hv : C01.IsValue g v) :
    ∀ s < g.owners.size, v.getD s 0 = 0 →
      r.probs.getD s 0 = 0 ∧ r'.probs.getD (π s) 0 = 0 := by
  intro s hs hz
  obtain ⟨h1, h2⟩ := both_below_same_value h hwf H H' v hv s hs
  rw [hz] at h1 h2
  exact ⟨le_antisymm h1 (C01.reach_range hwf H s).1,
    le_antisymm h2 (C01.reach_range (h.wf hwf) H' _).1⟩

end Runs

/-! ### 6. conditioning -/

/-- 6. with transported reachability vectors and strategy tables that name the same actions up
to `ρ` (`StratRel`), the conditioned row (`C03`'s `condRow`) of `g'` at `π s` is a permutation of
the renamed / renumbered conditioned row of `g` at `s` (same survivors, same renormalised
probabilities) -/
theorem cond_equivariant (h : Presents π ρ g g') (hr : TgtOk g) {reach reach' : Array K}
    (hx : ∀ s < g.owners.size, reach'.getD (π s) 0 = reach.getD s 0)
    {st st' : Array Strat} (hst : StratRel π ρ g.owners.size st st') :
    ∀ s < g.owners.size,
      (condRow g' st' reach' (π s)).Perm ((condRow g st reach s).map (trMap π ρ)) :=
  fun _ hs => condRow_perm h hr hx hst hs

/-- 6'. hence the conditioned games again present each other: `Presents` is preserved by
conditioning (rows only; owners, rewards, finals are untouched by conditioning) -/
theorem cond_presents (h : Presents π ρ g g') (hr : TgtOk g) {reach reach' : Array K}
    (hx : ∀ s < g.owners.size, reach'.getD (π s) 0 = reach.getD s 0)
    {st st' : Array Strat} (hst : StratRel π ρ g.owners.size st st')
    {nodes nodes' : Array (List (Tr K))} (hsz : nodes.size = g.tl.size)
    (hsz' : nodes'.size = g'.tl.size)
    (hn : ∀ s < g.owners.size, nodes.getD s [] = condRow g st reach s)
    (hn' : ∀ s < g.owners.size, nodes'.getD (π s) [] = condRow g' st' reach' (π s)) :
    Presents π ρ { g with tl := nodes } { g' with tl := nodes' } where
  n_owners := h.n_owners
  n_tl := by rw [hsz', hsz]; exact h.n_tl
  n_rewards := h.n_rewards
  maps := h.maps
  inj := h.inj
  fix0 := h.fix0
  owners := h.owners
  rewards := h.rewards
  rows := fun s hs => by
    show (nodes'.getD (π s) []).Perm ((nodes.getD s []).map (trMap π ρ))
    rw [hn s hs, hn' s hs]; exact condRow_perm h hr hx hst hs
  finals := h.finals
  ρ_inj := h.ρ_inj

/-! ### 7. the reported strategies -/

/-- 7. with the same rounding function and vectors that agree along `π`, the strategy entry
computed for `π s` in `g'` lists exactly the renamed actions of the entry for `s` in `g`, possibly
in a different order (`StratPerm`: both `none`, or both lists and one a `List.Perm` of the
`ρ`-image of the other) -/
theorem strategies_equivariant (h : Presents π ρ g g') (hr : TgtOk g) (rnd : K → Int)
    {x x' : Array K} (hx : ∀ s < g.owners.size, x'.getD (π s) 0 = x.getD s 0) :
    ∀ s < g.owners.size,
      StratPerm ρ ((reachStrategies rnd g.owners g.tl x).getD s none)
        ((reachStrategies rnd g'.owners g'.tl x').getD (π s) none) :=
  fun _ hs => reachStrategies_perm h hr rnd hx hs

/-- 7'. two exactly converged runs with the same rounding function report strategies that differ
only by the renaming (and the order inside a list) -/
theorem strategies_equivariant_of_exact {rnd : K → Int} {thr thr' : K} {fuel fuel' : Nat}
    {prune prune' : Bool} {r r' : ReachOut K} (h : Presents π ρ g g') (hwf : C01.WF g)
    (H : solveReach rnd thr fuel prune g = .ok r)
    (H' : solveReach rnd thr' fuel' prune' g' = .ok r')
    (x : Array K) (hsw : sweepReach g.owners g.tl r.order x = (r.probs, 0))
    (x' : Array K) (hsw' : sweepReach g'.owners g'.tl r'.order x' = (r'.probs, 0)) :
    ∀ s < g.owners.size, StratPerm ρ (r.strat.getD s none) (r'.strat.getD (π s) none) := by
  rw [(solveReach_ok_inv H).2, (solveReach_ok_inv H').2]
  exact strategies_equivariant h (tgtOk_of_wf hwf) rnd
    (solve_equivariant_of_exact h hwf H H' x hsw x' hsw')

/-- 7''. ... and therefore the conditioned games built from the two reports present each other
row by row (6 applied to the reports) -/
theorem cond_equivariant_of_exact {rnd : K → Int} {thr thr' : K} {fuel fuel' : Nat}
    {prune prune' : Bool} {r r' : ReachOut K} (h : Presents π ρ g g') (hwf : C01.WF g)
    (H : solveReach rnd thr fuel prune g = .ok r)
    (H' : solveReach rnd thr' fuel' prune' g' = .ok r')
    (x : Array K) (hsw : sweepReach g.owners g.tl r.order x = (r.probs, 0))
    (x' : Array K) (hsw' : sweepReach g'.owners g'.tl r'.order x' = (r'.probs, 0)) :
    ∀ s < g.owners.size,
      (condRow g' r'.strat r'.probs (π s)).Perm
        ((condRow g r.strat r.probs s).map (trMap π ρ)) :=
  cond_equivariant h (tgtOk_of_wf hwf) (solve_equivariant_of_exact h hwf H H' x hsw x' hsw')
    (fun s hs a => stratPerm_contains h.ρ_injective
      (strategies_equivariant_of_exact h hwf H H' x hsw x' hsw' s hs) a)

/-! ### non-vacuity -/

section NonVacuity

/-- four states: 0 Player 1 (actions `l` to 1, `r` to 2), 1 probabilistic (1/2 to the final
state 3, 1/2 to 2), 2 Player 2 (`u` to 3, `d` to itself: value 0), 3 final and absorbing -/
def exG : Game Rat where
  rewards := #[1, 2, 3, 0]
  owners := #[.p1, .prob, .p2, .prob]
  tl := #[[⟨"l", 0, 1⟩, ⟨"r", 0, 2⟩], [⟨"a", 1/2, 3⟩, ⟨"a", 1/2, 2⟩],
          [⟨"u", 0, 3⟩, ⟨"d", 0, 2⟩], [⟨"a", 1, 3⟩]]
  finals := [3]

/-- the renumbering: swap states 1 and 2 -/
def exπ : Nat → Nat := fun s => if s = 1 then 2 else if s = 2 then 1 else s

/-- the renaming -/
def exρ : String → String := fun a => "z_" ++ a

/-- `exG` with states 1 and 2 swapped, the rows of (old) states 0 and 1 reordered, and every
action prefixed with `z_` -/
def exG' : Game Rat where
  rewards := #[1, 3, 2, 0]
  owners := #[.p1, .p2, .prob, .prob]
  tl := #[[⟨"z_r", 0, 1⟩, ⟨"z_l", 0, 2⟩], [⟨"z_u", 0, 3⟩, ⟨"z_d", 0, 1⟩],
          [⟨"z_a", 1/2, 1⟩, ⟨"z_a", 1/2, 3⟩], [⟨"z_a", 1, 3⟩]]
  finals := [3]

private theorem four {P : Nat → Prop} (h0 : P 0) (h1 : P 1) (h2 : P 2) (h3 : P 3) :
    ∀ s < 4, P s := by
  intro s hs
  have : s = 0 ∨ s = 1 ∨ s = 2 ∨ s = 3 := by omega
  rcases this with rfl | rfl | rfl | rfl <;> assumption

private theorem exPresents : Presents exπ exρ exG exG' where
  n_owners := rfl
  n_tl := rfl
  n_rewards := rfl
  maps := four (by decide) (by decide) (by decide) (by decide)
  inj := by
    refine four ?_ ?_ ?_ ?_ <;> refine four ?_ ?_ ?_ ?_ <;> decide
  fix0 := rfl
  owners := four rfl rfl rfl rfl
  rewards := four rfl rfl rfl rfl
  rows := by
    refine four ?_ ?_ ?_ ?_
    · exact List.Perm.swap _ _ _
    · exact List.Perm.swap _ _ _
    · exact List.Perm.refl _
    · exact List.Perm.refl _
  finals := four (by decide) (by decide) (by decide) (by decide)
  ρ_inj := fun _ _ hab => (String.append_right_inj "z_").mp hab

/-- the set-up is satisfiable: `exG'` re-presents `exG` (state swap, two rows reordered, all
actions renamed) -/
example : Presents exπ exρ exG exG' := exPresents

private theorem exWF : C01.WF exG := by
  refine ⟨rfl, four ?_ ?_ ?_ ?_, four ?_ ?_ ?_ ?_⟩ <;> simp [exG]
  norm_num

example : C01.WF exG := exWF

example : TgtOk exG := tgtOk_of_wf exWF

/-- a transported pair -/
example : Transports exπ 4 (#[5, 6, 7, 8] : Array Rat) #[5, 7, 6, 8] :=
  ⟨rfl, rfl, four rfl rfl rfl rfl⟩

/-- the conclusion of 2 on the example, with both sides evaluated: the probabilistic state 1 of
`exG` (state 2 of `exG'`) has Bellman value `8 · 1/2 + 7 · 1/2 = 15/2` -/
example : C01.Bell exG' #[5, 7, 6, 8] (exπ 1) = C01.Bell exG #[5, 6, 7, 8] 1 ∧
    C01.Bell exG #[5, 6, 7, 8] 1 = 15 / 2 := by
  refine ⟨bell_equivariant (x := #[5, 6, 7, 8]) (x' := #[5, 7, 6, 8]) exPresents
    (tgtOk_of_wf exWF) (four rfl rfl rfl rfl) 1 (by decide), ?_⟩
  simp [C01.Bell, stepReach, exG]; norm_num

/-- related strategy tables -/
example : StratRel exπ exρ 4 #[some ["l"], none, some ["u", "d"], none]
    #[some ["z_l"], some ["z_d", "z_u"], none, none] := by
  have e : ∀ a b : String, ("z_" ++ a = "z_" ++ b) ↔ a = b :=
    fun a b => String.append_right_inj "z_"
  have l1 : "z_l" = "z_" ++ "l" := by decide
  have l2 : "z_d" = "z_" ++ "d" := by decide
  have l3 : "z_u" = "z_" ++ "u" := by decide
  refine four ?_ ?_ ?_ ?_ <;> intro a <;> simp [exπ, exρ, Array.getD]
  · rw [l1, e]
  · rw [l2, l3]; simp only [e]; exact Bool.or_comm _ _

/-! The hypotheses of 5 / 7' / 7'' (two successful runs whose last sweep changed nothing) are
satisfiable: with threshold 0 both presentations of the example stop after three sweeps, the
third of which changes nothing.  (`reverseDfs` is defined by well-founded recursion and does not
reduce in the kernel; its value is computed by rewriting, everything else by kernel evaluation.) -/

private theorem ok_of_toOption {ε σ : Type} {r : Except ε σ} {a : σ}
    (h : r.toOption = some a) : r = .ok a := by
  cases r with
  | error e => cases h
  | ok o => simp only [Except.toOption, Option.some.injEq] at h; rw [h]

private theorem exOrd : VI.gameOrder exG = [0, 1, 2] := by
  have hrev : revTable (exG.tl.toList.map (fun row => row.map (·.tgt)))
      = #[[], [0], [0, 1, 2], [1, 2, 3]] := by decide +kernel
  unfold VI.gameOrder reverseDfs
  rw [hrev]
  simp [exG, dfsLoop, List.mergeSort]

private theorem exOrd' : VI.gameOrder exG' = [0, 1, 2] := by
  have hrev : revTable (exG'.tl.toList.map (fun row => row.map (·.tgt)))
      = #[[], [0, 1, 2], [0], [1, 2, 3]] := by decide +kernel
  unfold VI.gameOrder reverseDfs
  rw [hrev]
  simp [exG', dfsLoop, List.mergeSort]

private theorem exVi :
    (viReach exG.owners exG.tl [0, 1, 2] 0 10 1 (VI.initVec exG) 0).toOption
      = some (#[1/2, 1/2, 0, 1], 3) := by decide +kernel

private theorem exVi' :
    (viReach exG'.owners exG'.tl [0, 1, 2] 0 10 1 (VI.initVec exG') 0).toOption
      = some (#[1/2, 0, 1/2, 1], 3) := by decide +kernel

/-- the run on `exG` -/
def exR : ReachOut Rat :=
  ⟨#[1/2, 1/2, 0, 1], reachStrategies (fun _ => 0) exG.owners exG.tl #[1/2, 1/2, 0, 1], 3,
    [0, 1, 2]⟩

/-- the run on `exG'` -/
def exR' : ReachOut Rat :=
  ⟨#[1/2, 0, 1/2, 1], reachStrategies (fun _ => 0) exG'.owners exG'.tl #[1/2, 0, 1/2, 1], 3,
    [0, 1, 2]⟩

private theorem exRun : solveReach (fun _ => 0) (0 : Rat) 10 true exG = .ok exR := by
  have hc : checkGame exG = .ok () := by decide +kernel
  have hi : initStates exG = .ok () := by decide +kernel
  unfold solveReach
  simp only [bind, Except.bind, hc, hi]
  rw [show reverseDfs (exG.tl.toList.map (fun row => row.map (·.tgt))) exG.finals = [0, 1, 2]
    from exOrd]
  rw [show (Array.range exG.owners.size).map
    (fun s => if exG.finals.contains s then (1 : Rat) else 0) = VI.initVec exG from rfl]
  rw [ok_of_toOption exVi]
  show (if (true && (#[1/2, 1/2, 0, 1] : Array Rat).getD 0 0 == 0) = true then _ else _) = _
  rw [if_neg (by decide +kernel)]
  rfl

private theorem exRun' : solveReach (fun _ => 0) (0 : Rat) 10 true exG' = .ok exR' := by
  have hc : checkGame exG' = .ok () := by decide +kernel
  have hi : initStates exG' = .ok () := by decide +kernel
  unfold solveReach
  simp only [bind, Except.bind, hc, hi]
  rw [show reverseDfs (exG'.tl.toList.map (fun row => row.map (·.tgt))) exG'.finals = [0, 1, 2]
    from exOrd']
  rw [show (Array.range exG'.owners.size).map
    (fun s => if exG'.finals.contains s then (1 : Rat) else 0) = VI.initVec exG' from rfl]
  rw [ok_of_toOption exVi']
  show (if (true && (#[1/2, 0, 1/2, 1] : Array Rat).getD 0 0 == 0) = true then _ else _) = _
  rw [if_neg (by decide +kernel)]
  rfl

private theorem exSw : sweepReach exG.owners exG.tl exR.order exR.probs = (exR.probs, 0) := by
  decide +kernel

private theorem exSw' :
    sweepReach exG'.owners exG'.tl exR'.order exR'.probs = (exR'.probs, 0) := by
  decide +kernel

/-- all hypotheses of `solve_equivariant_of_exact` hold for the example -/
example : solveReach (fun _ => 0) (0 : Rat) 10 true exG = .ok exR ∧
    solveReach (fun _ => 0) (0 : Rat) 10 true exG' = .ok exR' ∧
    sweepReach exG.owners exG.tl exR.order exR.probs = (exR.probs, 0) ∧
    sweepReach exG'.owners exG'.tl exR'.order exR'.probs = (exR'.probs, 0) :=
  ⟨exRun, exRun', exSw, exSw'⟩

/-- ... and its conclusion is what the two concrete reports show: `[1/2, 1/2, 0, 1]` and
`[1/2, 0, 1/2, 1]` are related by the swap of states 1 and 2 -/
example : ∀ s < 4, exR'.probs.getD (exπ s) 0 = exR.probs.getD s 0 :=
  solve_equivariant_of_exact exPresents exWF exRun exRun' _ exSw _ exSw'

/-- the value of the example is `[1/2, 1/2, 0, 1]`, so the hypothesis `IsValue g v` of
`both_below_same_value` is satisfiable, and state 2 (Player 2 can stay forever) is in the zero
set while the initial state is not: the game is declared solvable in both presentations -/
example : C01.IsValue exG #[1/2, 1/2, 0, 1] ∧ C01.IsValue exG' #[1/2, 0, 1/2, 1] ∧
    exR.probs.getD 0 0 ≠ 0 ∧ exR'.probs.getD 0 0 ≠ 0 :=
  ⟨isValue_of_zero_diff exWF exRun _ exSw,
    isValue_of_zero_diff (wf_equivariant exPresents exWF) exRun' _ exSw',
    by decide +kernel, by decide +kernel⟩

/-- the reported strategies of the two runs (rounding function `fun _ => 0`, so every action
ties): `l, r` at state 0 become `z_r, z_l` — the renamed actions, in the order of the reordered
row -/
example : StratPerm exρ (exR.strat.getD 0 none) (exR'.strat.getD (exπ 0) none) ∧
    exR.strat.getD 0 none = some ["l", "r"] ∧ exR'.strat.getD 0 none = some ["z_r", "z_l"] :=
  ⟨strategies_equivariant_of_exact exPresents exWF exRun exRun' _ exSw _ exSw' 0 (by decide),
    by decide +kernel, by decide +kernel⟩

end NonVacuity

end CR.C13
