/-
C15: random boards are reproducible, in range and honour their parameters; parameter sets
outside the documented ranges are refused with `ValueError` before anything is written
(model: `CR/Model/Gen.lean`).

Reproducibility: the board is modelled as a *function* `genBoard L W pLoose m fd d` of the
parameters and of the draws `d : Draws` returned by the calls to the `random` API.  A generator
seeded with `random.seed(seed)` is deterministic, so the draws are a function of the seed and the
call sequence, and the call sequence (two `random()` per tile, one `choices` and – with
`force_down` – one `randrange` per row) depends on the parameters only.  Equal parameters and
equal seed therefore give equal boards by construction (`congrArg`); nothing is to be proved.

The theorems below hold for *all* draws (the ones with an "API contract" hypothesis: for all
draws the `random` API may return according to its documentation).
-/
import CR.Model.Gen

namespace CR.C15

open CR CR.Gen

/-- row `i` of the arrows -/
private theorem moves_getD (L W m : Nat) (p : Float) (fd : Bool) (d : Draws) {i : Nat}
    (hi : i < L) :
    (genBoard L W p m fd d).moves.getD i [] =
      if fd then (d.rows.getD i []).set (d.downs.getD i 0) 3 else d.rows.getD i [] := by
  simp [genBoard, List.getD_eq_getElem?_getD, List.getElem?_map, List.getElem?_range hi]

private theorem ls_eq (L W m : Nat) (p : Float) (fd : Bool) (d : Draws) {i j : Nat}
    (hi : i < L) (hj : j < W) :
    (genBoard L W p m fd d).ls i j = looseOf p (d.us.getD (2 * (i * W + j) + 1) 0) := by
  simp [genBoard, Board.ls, List.getD_eq_getElem?_getD, List.getElem?_map,
    List.getElem?_range hi, List.getElem?_range hj]

private theorem rw_eq (L W m : Nat) (p : Float) (fd : Bool) (d : Draws) {i j : Nat}
    (hi : i < L) (hj : j < W) :
    (genBoard L W p m fd d).rw i j = rewardOf m (d.us.getD (2 * (i * W + j)) 0) := by
  simp [genBoard, Board.rw, List.getD_eq_getElem?_getD, List.getElem?_map,
    List.getElem?_range hi, List.getElem?_range hj]

/-- 1. the three tables have `length` rows of `width` entries (for the arrows: when
`random.choices(..., k=width)` returns `width` entries, its contract) -/
theorem board_dims (L W m : Nat) (pLoose : Float) (fd : Bool) (d : Draws) :
    let b := genBoard L W pLoose m fd d
    b.rewards.length = L ∧ (∀ r ∈ b.rewards, r.length = W) ∧
    b.loose.length = L ∧ (∀ r ∈ b.loose, r.length = W) ∧
    b.moves.length = L ∧
    ((∀ i < L, (d.rows.getD i []).length = W) → ∀ r ∈ b.moves, r.length = W) := by
  intro b
  refine ⟨by simp [b, genBoard], ?_, by simp [b, genBoard], ?_, by simp [b, genBoard], ?_⟩
  · intro r hr
    simp only [b, genBoard, List.mem_map, List.mem_range] at hr
    obtain ⟨i, _, rfl⟩ := hr
    simp
  · intro r hr
    simp only [b, genBoard, List.mem_map, List.mem_range] at hr
    obtain ⟨i, _, rfl⟩ := hr
    simp
  · intro hrows r hr
    simp only [b, genBoard, List.mem_map, List.mem_range] at hr
    obtain ⟨i, hi, rfl⟩ := hr
    have := hrows i hi
    cases fd
    · exact this
    · simp only [if_true, List.length_set]; exact this

/-- 2. a tile is loose exactly when its draw is below the requested probability, and every flag
is 0 or 1 (`<` is the IEEE comparison of doubles) -/
theorem flag_iff (L W m : Nat) (pLoose : Float) (fd : Bool) (d : Draws) (i j : Nat)
    (hi : i < L) (hj : j < W) :
    let b := genBoard L W pLoose m fd d
    let u := d.us.getD (2 * (i * W + j) + 1) 0
    (b.ls i j = 1 ↔ u < pLoose) ∧ (b.ls i j = 0 ↔ ¬ u < pLoose) := by
  intro b u
  have e : b.ls i j = if u < pLoose then 1 else 0 := ls_eq L W m pLoose fd d hi hj
  rw [e]
  by_cases h : u < pLoose
  · rw [if_pos h]
    exact ⟨⟨fun _ => h, fun _ => rfl⟩, ⟨fun h' => absurd h' (by decide), fun h' => absurd h h'⟩⟩
  · rw [if_neg h]
    exact ⟨⟨fun h' => absurd h' (by decide), fun h' => absurd h' h⟩, ⟨fun _ => h, fun _ => rfl⟩⟩

theorem flags_binary (L W m : Nat) (pLoose : Float) (fd : Bool) (d : Draws) (i j : Nat)
    (hi : i < L) (hj : j < W) :
    let b := genBoard L W pLoose m fd d
    b.ls i j = 0 ∨ b.ls i j = 1 := by
  intro b
  simp only [b, ls_eq L W m pLoose fd d hi hj, looseOf]
  split <;> simp

/-- 3. every reward is within `0..max_reward` (naturals: `0 ≤` is in the type) -/
theorem rewards_range (L W m : Nat) (pLoose : Float) (fd : Bool) (d : Draws) (i j : Nat)
    (hi : i < L) (hj : j < W) :
    (genBoard L W pLoose m fd d).rw i j ≤ m := by
  rw [rw_eq L W m pLoose fd d hi hj]
  exact Nat.min_le_left _ _

/-- 4. arrows: only allowed values; without `force_down` no down-only tile, with it at least
one per row.  API contract: `choices(population, k=width)` returns `width` members of the
population (`0..2`, with `force_down` `0..3`), `randrange(0, width)` a value below `width`. -/
theorem arrows_allowed (L W m : Nat) (pLoose : Float) (fd : Bool) (d : Draws)
    (hrows : ∀ i < L, (d.rows.getD i []).length = W ∧
      ∀ a ∈ d.rows.getD i [], a ≤ (if fd then 3 else 2))
    (hdowns : fd = true → ∀ i < L, d.downs.getD i 0 < W) :
    let b := genBoard L W pLoose m fd d
    (∀ i < L, ∀ j < W, b.mv i j ≤ 3) ∧
    (fd = false → ∀ i < L, ∀ j < W, b.mv i j ≤ 2) ∧
    (fd = true → ∀ i < L, ∃ j < W, b.mv i j = 3) := by
  intro b
  have key : ∀ i < L, ∀ j < W, b.mv i j ≤ (if fd then 3 else 2) := by
    intro i hi j hj
    obtain ⟨hlen, hval⟩ := hrows i hi
    have hj' : j < (d.rows.getD i []).length := by omega
    simp only [b, Board.mv, moves_getD L W m pLoose fd d hi]
    cases fd
    · simp only [Bool.false_eq_true, if_false] at hval ⊢
      rw [List.getD_eq_getElem?_getD, List.getElem?_eq_getElem hj']
      exact hval _ (List.getElem_mem hj')
    · simp only [if_true] at hval ⊢
      rw [List.getD_eq_getElem?_getD, List.getElem?_set]
      split
      · split <;> simp
      · rw [List.getElem?_eq_getElem hj']
        exact hval _ (List.getElem_mem hj')
  refine ⟨?_, ?_, ?_⟩
  · intro i hi j hj
    have := key i hi j hj
    cases fd <;> simp at this <;> omega
  · intro hfd i hi j hj
    have := key i hi j hj
    simpa [hfd] using this
  · intro hfd i hi
    subst hfd
    have hk := hdowns rfl i hi
    refine ⟨d.downs.getD i 0, hk, ?_⟩
    have hlen := (hrows i hi).1
    simp only [b, Board.mv, moves_getD L W m pLoose true d hi, if_true]
    rw [List.getD_eq_getElem?_getD, List.getElem?_set, if_pos rfl, if_pos (by omega)]
    rfl

/-- the probability check as a proposition (a NaN passes, as in Python) -/
theorem prob_check_iff (p : Float) : (p ≤ 0 || p ≥ 1) = false ↔ (¬ p ≤ 0 ∧ ¬ p ≥ 1) := by
  simp

/-- 5. a parameter set is accepted iff every documented range holds -/
theorem check_input_iff (seed w l : Int) (pr plt plo pti : Float) (m : Int) :
    checkInput seed w l pr plt plo pti m = none ↔
      (0 ≤ seed ∧ 0 < w ∧ 0 < l ∧ (pr ≤ 0 || pr ≥ 1) = false ∧ (plt ≤ 0 || plt ≥ 1) = false ∧
        (plo ≤ 0 || plo ≥ 1) = false ∧ (pti ≤ 0 || pti ≥ 1) = false ∧ 0 < m) := by
  unfold checkInput
  constructor
  · intro h
    split at h
    · cases h
    rename_i g0
    split at h
    · cases h
    rename_i g1
    split at h
    · cases h
    rename_i g2
    split at h
    · cases h
    rename_i g3
    split at h
    · cases h
    rename_i g4
    split at h
    · cases h
    rename_i g5
    split at h
    · cases h
    rename_i g6
    split at h
    · cases h
    rename_i g7
    exact ⟨by omega, by omega, by omega, by simpa using g3, by simpa using g4, by simpa using g5,
      by simpa using g6, by omega⟩
  · rintro ⟨h0, h1, h2, h3, h4, h5, h6, h7⟩
    rw [if_neg (by omega), if_neg (by omega), if_neg (by omega), if_neg (by simp [h3]),
      if_neg (by simp [h4]), if_neg (by simp [h5]), if_neg (by simp [h6]), if_neg (by omega)]

/-- 5b. when several checks fail, the first one in the documented order
(seed, width, length, robot, light, loose-tile, tile-break probability, max reward) is reported -/
theorem check_input_first (seed w l : Int) (pr plt plo pti : Float) (m : Int) :
    let r := checkInput seed w l pr plt plo pti m
    (seed < 0 → r = some 0) ∧ (0 ≤ seed →
    (w ≤ 0 → r = some 1) ∧ (0 < w →
    (l ≤ 0 → r = some 2) ∧ (0 < l →
    ((pr ≤ 0 || pr ≥ 1) = true → r = some 3) ∧ ((pr ≤ 0 || pr ≥ 1) = false →
    ((plt ≤ 0 || plt ≥ 1) = true → r = some 4) ∧ ((plt ≤ 0 || plt ≥ 1) = false →
    ((plo ≤ 0 || plo ≥ 1) = true → r = some 5) ∧ ((plo ≤ 0 || plo ≥ 1) = false →
    ((pti ≤ 0 || pti ≥ 1) = true → r = some 6) ∧ ((pti ≤ 0 || pti ≥ 1) = false →
    (m ≤ 0 → r = some 7) ∧ (0 < m → r = none)))))))) := by
  intro r
  simp only [r, checkInput]
  refine ⟨fun h => by rw [if_pos h], fun h0 => ?_⟩
  rw [if_neg (by omega)]
  refine ⟨fun h => by rw [if_pos h], fun h1 => ?_⟩
  rw [if_neg (by omega)]
  refine ⟨fun h => by rw [if_pos h], fun h2 => ?_⟩
  rw [if_neg (by omega)]
  refine ⟨fun h => by rw [if_pos h], fun h3 => ?_⟩
  rw [if_neg (by simp [h3])]
  refine ⟨fun h => by rw [if_pos h], fun h4 => ?_⟩
  rw [if_neg (by simp [h4])]
  refine ⟨fun h => by rw [if_pos h], fun h5 => ?_⟩
  rw [if_neg (by simp [h5])]
  refine ⟨fun h => by rw [if_pos h], fun h6 => ?_⟩
  rw [if_neg (by simp [h6])]
  exact ⟨fun h => by rw [if_pos h], fun h7 => by rw [if_neg (by omega)]⟩

/-- 6a. a refused parameter set raises and does nothing else: no seeding, no draw, no file -/
theorem refused_before_write (seed w l : Int) (pr plt plo pti : Float) (m : Int) (fd : Bool)
    (k : Nat) (h : checkInput seed w l pr plt plo pti m = some k) :
    mainEffects seed w l pr plt plo pti m fd = [.raiseValueError k] := by
  simp [mainEffects, h]

/-- 6b. an accepted one seeds the generator first, then draws, then opens the file whose name
states the parameters -/
theorem accepted_effects (seed w l : Int) (pr plt plo pti : Float) (m : Int) (fd : Bool)
    (h : checkInput seed w l pr plt plo pti m = none) :
    mainEffects seed w l pr plt plo pti m fd =
      [.seedRng seed, .drawBoard,
       .openWrite (fileName seed.toNat w.toNat l.toNat m.toNat pr plt pti plo fd)] := by
  simp [mainEffects, h]

/-! ### non-vacuity -/

/-- draws for a 2×3 board -/
example :
    let d : Draws := { us := [0.9, 0.1, 0.9, 0.5, 0.9, 0.29, 0.9, 0.3, 0.9, 0.31, 0.9, 0.0],
                       rows := [[0, 1, 2], [2, 2, 0]], downs := [1, 0] }
    (genBoard 2 3 0.3 6 false d).loose = [[1, 0, 1], [0, 0, 1]] ∧
    (genBoard 2 3 0.3 6 false d).moves = [[0, 1, 2], [2, 2, 0]] ∧
    (genBoard 2 3 0.3 6 true d).moves = [[0, 3, 2], [3, 2, 0]] ∧
    (∀ i < 2, (d.rows.getD i []).length = 3 ∧ ∀ a ∈ d.rows.getD i [], a ≤ 2) ∧
    (∀ i < 2, d.downs.getD i 0 < 3) := by
  decide +kernel

example : checkInput 47 5 5 0.1 0.1 0.3 0.1 6 = none := by decide +kernel
example : checkInput (-1) 0 5 0.1 0.1 0.3 0.1 6 = some 0 := by decide +kernel
example : checkInput 47 5 5 0.1 1.0 0.0 0.1 0 = some 4 := by decide +kernel
example : checkInput 47 5 5 0.1 0.1 0.3 0.1 0 = some 7 := by decide +kernel
/-- a NaN probability is not refused (Python: every comparison with NaN is false) -/
example : checkInput 47 5 5 (0 / 0) 0.1 0.3 0.1 6 = none := by decide +kernel

example : mainEffects 47 5 5 0.1 0.1 0.3 0.1 6 false =
    [.seedRng 47, .drawBoard,
     .openWrite "inputs/robot_47_w5_l5_r6_rb10_lb10_tb10_lt30.py"] := by decide +kernel
example : mainEffects 47 5 5 0.1 0.1 1.5 0.1 6 false = [.raiseValueError 5] := by
  decide +kernel

end CR.C15
