/-
Property C10 — the caller's game description is left alone, and solving is repeatable.

"Solving a game never changes the rewards, players, transition lists or final states the caller
passed in, and solving the same description again - through the same object or a fresh one, in
either pruning mode, in any order - returns identical results."

The pure model (`CR.Model.Solver`) has no notion of object identity, so it cannot even express
the aliasing between a node's `next_states` attribute and the caller's inner list.  The aliasing
model (`CR.Model.Heap`) can: `HState.desc` are the caller's list objects, `HState.nodes` says
where each node's attribute points.  `conditionHS`/`solveHS` return the heap (resp. the caller's
lists) as it is when the phase ends, normally or with a pending exception; `conditionH`/`solveH`
are their `Except` projections.  Rewards, players and final states are immutable values of the
model (`Game.rewards`, `Game.owners`, `Game.finals`): no operation of the model writes them.

All theorems are generic in the number type and the rounding function and need no
well-formedness hypothesis on the game.
-/
import CR.Lemmas.Heap

namespace CR.C10
open CR CR.Heap

section
variable {α : Type} [Add α] [Sub α] [Mul α] [Div α] [Neg α] [LT α] [DecidableLT α]
  [LE α] [DecidableLE α] [BEq α] [OfNat α 0] [OfNat α 1]

/-! ### 1. no operation of the current code touches the caller's list objects -/

/-- C10.1 — the heap at the end of the conditioning phase — whether it ended normally or with an
exception pending — has the caller's lists unchanged. -/
theorem conditionHS_preserves_desc (prune : Bool) (g : Game α) (strat : Array Strat)
    (reach : Array α) (h : HState α) :
    (conditionHS prune g strat reach h).1.desc = h.desc :=
  conditionHS_desc prune g strat reach h

/-- C10.1 for the `Except` projection. -/
theorem conditionH_preserves_desc {prune : Bool} {g : Game α} {strat : Array Strat}
    {reach : Array α} {h h' : HState α} (hc : conditionH prune g strat reach h = .ok h') :
    h'.desc = h.desc := by
  have hd := conditionHS_desc prune g strat reach h
  unfold conditionH HRes.toExcept at hc
  split at hc
  · cases hc; exact hd
  · cases hc

/-! ### 2. the pure model is a sound abstraction of the aliasing model -/

/-- C10.2 — started from `init_states` (every node aliasing the caller's list), the aliasing
model and the pure `condition` agree on what every node holds afterwards. -/
theorem conditionH_refines {prune : Bool} {g : Game α} {strat : Array Strat} {reach : Array α}
    {h' : HState α} (hc : conditionH prune g strat reach (HState.init g.tl) = .ok h') :
    ∃ nodes, condition prune g strat reach = .ok nodes ∧ nodes.size = h'.nodes.size ∧
      ∀ s, s < nodes.size → h'.read s = nodes.getD s [] := by
  have hv := conditionH_init_view prune g strat reach
  rw [hc] at hv
  exact ⟨h'.view, hv.symm, HState.view_size h', fun s _ => (HState.view_getD h' s).symm⟩

/-- C10.2, converse direction: whenever the pure `condition` succeeds so does the aliasing
model, with the same node lists. -/
theorem conditionH_complete {prune : Bool} {g : Game α} {strat : Array Strat} {reach : Array α}
    {nodes : Array (List (Tr α))} (hc : condition prune g strat reach = .ok nodes) :
    ∃ h', conditionH prune g strat reach (HState.init g.tl) = .ok h' ∧ h'.view = nodes ∧
      h'.desc = g.tl := by
  have hv := conditionH_init_view prune g strat reach
  rw [hc] at hv
  cases hh : conditionH prune g strat reach (HState.init g.tl) with
  | error e => rw [hh] at hv; cases hv
  | ok h' =>
    rw [hh] at hv
    exact ⟨h', rfl, Except.ok.inj hv, by rw [conditionH_preserves_desc hh]; rfl⟩

/-- C10.2 — the two models raise the same exceptions. -/
theorem conditionH_error_iff {prune : Bool} {g : Game α} {strat : Array Strat} {reach : Array α}
    {e : Err} :
    conditionH prune g strat reach (HState.init g.tl) = .error e ↔
      condition prune g strat reach = .error e := by
  have hv := conditionH_init_view prune g strat reach
  cases hh : conditionH prune g strat reach (HState.init g.tl) with
  | error e' =>
    rw [hh] at hv
    rw [← hv]
    exact ⟨fun h => by cases h; rfl, fun h => by cases h; rfl⟩
  | ok h' =>
    rw [hh] at hv
    rw [← hv]
    constructor <;> intro h <;> cases h

/-! ### 3. `solve` leaves the description alone -/

/-- C10.3 — after `solve()` — whether it returned or raised — the caller's transition lists are
the ones passed in. -/
theorem solveHS_preserves_description (rnd : α → Int) (thr : α) (fuel : Nat) (prune : Bool)
    (g : Game α) : (solveHS rnd thr fuel prune g).2 = g.tl :=
  solveHS_snd rnd thr fuel prune g

/-- C10.3 for the `Except` projection. -/
theorem solve_preserves_description {rnd : α → Int} {thr : α} {fuel : Nat} {prune : Bool}
    {g : Game α} {out : SolveOut α} {desc' : Array (List (Tr α))}
    (h : solveH rnd thr fuel prune g = .ok (out, desc')) : desc' = g.tl := by
  rw [solveH_eq] at h
  cases hs : solve rnd thr fuel prune g with
  | error e => rw [hs] at h; cases h
  | ok o =>
    rw [hs] at h
    have := Except.ok.inj h
    exact (congrArg Prod.snd this).symm

/-! ### 4. every theorem about `solve` applies to the aliasing model -/

/-- C10.4 — outcome (result or exception) of the aliasing model = outcome of the pure model. -/
theorem solveHS_refines (rnd : α → Int) (thr : α) (fuel : Nat) (prune : Bool) (g : Game α) :
    (solveHS rnd thr fuel prune g).1 = solve rnd thr fuel prune g :=
  solveHS_fst rnd thr fuel prune g

theorem solveH_refines {rnd : α → Int} {thr : α} {fuel : Nat} {prune : Bool} {g : Game α}
    {out : SolveOut α} {d : Array (List (Tr α))} :
    solveH rnd thr fuel prune g = .ok (out, d) ↔
      (solve rnd thr fuel prune g = .ok out ∧ d = g.tl) := by
  rw [solveH_eq]
  cases hs : solve rnd thr fuel prune g with
  | error e =>
    constructor
    · intro h; cases h
    · intro h; cases h.1
  | ok o =>
    constructor
    · intro h
      have := Except.ok.inj h
      exact ⟨congrArg Except.ok (congrArg Prod.fst this), (congrArg Prod.snd this).symm⟩
    · rintro ⟨h1, h2⟩
      cases h1
      subst h2
      rfl

theorem solveH_error_iff {rnd : α → Int} {thr : α} {fuel : Nat} {prune : Bool} {g : Game α}
    {e : Err} :
    solveH rnd thr fuel prune g = .error e ↔ solve rnd thr fuel prune g = .error e := by
  rw [solveH_eq]
  cases hs : solve rnd thr fuel prune g with
  | error e' => exact ⟨fun h => by cases h; rfl, fun h => by cases h; rfl⟩
  | ok o => constructor <;> intro h <;> cases h

/-! ### 5. repeatability -/

/-- C10.5 — any sequence of `solve()` calls on one description object, in any order of pruning
modes, each call working on the lists as the previous call (successful or not) left them: the
outcome of every call is the outcome of `solve` in that call's mode on the ORIGINAL
description. -/
theorem solve_repeatable (rnd : α → Int) (thr : α) (fuel : Nat) (g : Game α)
    (modes : List Bool) :
    runOps rnd thr fuel g modes g.tl = modes.map (fun m => solve rnd thr fuel m g) := by
  induction modes with
  | nil => rfl
  | cons m ms ih =>
    have hg : ({ g with tl := g.tl } : Game α) = g := rfl
    unfold runOps
    simp only [List.map_cons]
    rw [hg]
    rw [solveHS_snd, solveHS_fst, ih]

/-- C10.5, pointwise: the `k`-th outcome depends on the `k`-th mode only — two calls in the same
mode return identical outcomes wherever they occur in the sequence. -/
theorem solve_repeatable_get (rnd : α → Int) (thr : α) (fuel : Nat) (g : Game α)
    (modes : List Bool) (k : Nat) :
    (runOps rnd thr fuel g modes g.tl)[k]? =
      modes[k]?.map (fun m => solve rnd thr fuel m g) := by
  rw [solve_repeatable, List.getElem?_map]

theorem solve_repeatable_same_mode (rnd : α → Int) (thr : α) (fuel : Nat) (g : Game α)
    (modes : List Bool) (i j : Nat) (m : Bool) (hi : modes[i]? = some m) (hj : modes[j]? = some m) :
    (runOps rnd thr fuel g modes g.tl)[i]? = (runOps rnd thr fuel g modes g.tl)[j]? := by
  rw [solve_repeatable_get, solve_repeatable_get, hi, hj]

end

/-! ### 6. the repaired defect, and non-vacuity -/

open Examples

/-- the OLD pruning (in-place removal) edits the caller's lists: afterwards the description of
state 0 says `[(1/2, 2)]` — not even a distribution — instead of `[(1/2, 1), (1/2, 2)]`, and
the sink state 1 (whose only successor, itself, is dead) has lost its transitions altogether, so
that a second `solve()` on this description is rejected with "Missing transitions". -/
example : ∃ h', conditionH_old true gDead #[none, none, none] #[1/2, 0, 1]
      (HState.init gDead.tl) = .ok h' ∧
    h'.desc.map (·.map key) = #[[("", 1/2, 2)], [], [("", 1, 2)]] ∧
    h'.desc ≠ gDead.tl := by
  obtain ⟨h', h1, h2⟩ := exists_ok_of_toOption_map
    (r := conditionH_old true gDead #[none, none, none] #[1/2, 0, 1] (HState.init gDead.tl))
    (f := fun h => h.desc.map (·.map key))
    (x := #[[("", 1/2, 2)], [], [("", 1, 2)]]) (by decide +kernel)
  refine ⟨h', h1, h2, fun heq => ?_⟩
  rw [heq] at h2
  revert h2
  decide +kernel

/-- the CURRENT pruning on the same game: node 0 ends up with the renormalised list
`[(1, 2)]`, node 1 with `[]`, and the caller's lists are untouched. -/
example : ∃ h', conditionH true gDead #[none, none, none] #[1/2, 0, 1]
      (HState.init gDead.tl) = .ok h' ∧
    h'.view.map (·.map key) = #[[("", 1, 2)], [], [("", 1, 2)]] ∧
    h'.desc = gDead.tl := by
  obtain ⟨h', h1, h2⟩ := exists_ok_of_toOption_map
    (r := conditionH true gDead #[none, none, none] #[1/2, 0, 1] (HState.init gDead.tl))
    (f := fun h => h.view.map (·.map key))
    (x := #[[("", 1, 2)], [], [("", 1, 2)]]) (by decide +kernel)
  exact ⟨h', h1, h2, conditionH_preserves_desc h1⟩

/-- non-vacuity: a concrete pruned `solveH` run (7-state game; the probabilistic state 1 loses
its dead successor 4 and is rebound to the renormalised list, the states 2, 4, 6 are cleared),
evaluated in the aliasing model itself: it returns, and the caller's lists afterwards are the
original ones. -/
example : ∃ out d, solveH (roundRat 6) thr 1000 true g7 = .ok (out, d) ∧
    out.rewards = #[2, 2, 0, 2, 0, 0, 0] ∧
    out.nodes.map (·.map key) =
      #[[("alfa", 0, 1)], [("", 1, 3)], [], [("gamma", 0, 5)], [], [("", 1, 5)], []] ∧
    d.map (·.map key) = g7.tl.map (·.map key) ∧ d = g7.tl := by
  obtain ⟨⟨out, d⟩, h1, h2⟩ := exists_ok_of_toOption_map
    (r := solveH (roundRat 6) thr 1000 true g7)
    (f := fun r => decide (r.1.rewards = #[2, 2, 0, 2, 0, 0, 0]) &&
      decide (r.1.nodes.map (·.map key) =
        #[[("alfa", 0, 1)], [("", 1, 3)], [], [("gamma", 0, 5)], [], [("", 1, 5)], []]) &&
      decide (r.2.map (·.map key) = g7.tl.map (·.map key)))
    (x := true)
    (by unfold solveH solveHS solveReach; rw [g7_ord]; decide +kernel)
  simp only [Bool.and_eq_true, decide_eq_true_eq] at h2
  exact ⟨out, d, h1, h2.1.1, h2.1.2, h2.2, solve_preserves_description h1⟩

/-- non-vacuity of C10.5: pruned, unpruned, pruned again on the same description object — the
first and the third outcome are the same successful result. -/
example : ∃ o1 o2, runOps (roundRat 6) thr 1000 g7 [true, false, true] g7.tl =
    [.ok o1, .ok o2, .ok o1] ∧ o1.rewards = #[2, 2, 0, 2, 0, 0, 0] ∧
      o2.rewards = #[3/2, 3/2, 0, 2, 0, 0, 0] := by
  obtain ⟨o1, h1, r1⟩ := exists_ok_of_toOption_map
    (r := solve (roundRat 6) thr 1000 true g7) (f := fun o => o.rewards)
    (x := #[2, 2, 0, 2, 0, 0, 0]) (by unfold solve solveReach; rw [g7_ord]; decide +kernel)
  obtain ⟨o2, h2, r2⟩ := exists_ok_of_toOption_map
    (r := solve (roundRat 6) thr 1000 false g7) (f := fun o => o.rewards)
    (x := #[3/2, 3/2, 0, 2, 0, 0, 0]) (by unfold solve solveReach; rw [g7_ord]; decide +kernel)
  refine ⟨o1, o2, ?_, r1, r2⟩
  rw [solve_repeatable]
  simp only [List.map_cons, List.map_nil, h1, h2]

end CR.C10
