/-
C01, asymptotic correctness of the reachability phase.

The clause "within tolerance of the true value" is false for a FIXED threshold (the loop stops on
a small residual, `C01Neg.tolerance_clause_fails`).  What IS true, for every well-formed game over
the reals: the reported vector converges to the max–min value as the threshold goes to 0.  For
every game and every ε > 0 there is a δ > 0 such that EVERY successful run with a threshold below
δ (any rounding function, any fuel, pruning on or off) reports, for every state, a number in
`(value − ε, value]`.

Proof idea: the Gauss–Seidel iterates increase and are bounded by the value, so they converge
(monotone convergence in ℝ); the sweep is non-expansive in the sup norm, so the limit is a fixed
point of the sweep, hence (backward-search set is closed, finals are pinned) a pre-fixed point of
the Bellman operator, hence ≥ the value (least pre-fixed point); so the limit IS the value.  Take N
with iterate N within ε of the value, δ := the smallest positive residual among the first N sweeps.
A run with thr < δ either stops after ≥ N sweeps (monotone: within ε), or stopped earlier on a
ZERO residual, in which case the report is exactly the value (`reach_exact_of_zero_diff'`).

The statement about the bare iterates needs the documented rule "every state has a transition"
(`hne`); a successful run guarantees it (`init_states`), so the statements about runs do not.
`limit_needs_nonempty_rows` at the end shows that the hypothesis cannot be dropped.
-/
import CR.Lemmas.Limit
import CR.Props.C01Path
import CR.Props.C01Value

set_option linter.unusedSectionVars false

namespace CR.C01

open CR CR.VI

/-- **the iterates converge to the value** (Kleene): for every ε > 0 some iterate is within ε of
the value at every state, and all later ones too.  The hypothesis `hne` (every state has a
transition) is needed: `WF` does not contain it, and for the game with a single Player-2 state
without transitions and no final state the iterates stay at 0 while the value is 1 (the minimum
over an empty row is its start value 1), see `limit_needs_nonempty_rows` below. -/
theorem iterates_converge_to_value (g : Game ℝ) (hwf : WF g)
    (hne : ∀ s < g.owners.size, g.tl.getD s [] ≠ []) (v : Array ℝ) (hv : IsValue g v)
    (ε : ℝ) (hε : 0 < ε) :
    ∃ N : Nat, ∀ k, N ≤ k → ∀ s < g.owners.size,
      v.getD s 0 - ε < ((sweepVec g.owners g.tl (gameOrder g))^[k] (initVec g)).getD s 0 ∧
      ((sweepVec g.owners g.tl (gameOrder g))^[k] (initVec g)).getD s 0 ≤ v.getD s 0 :=
  Limit.iter_converges hwf hne v hv ε hε

/-- a successful run implies that every state has a transition -/
private theorem rows_nonempty_of_ok {g : Game ℝ} (hwf : WF g) {rnd : ℝ → Int} {thr : ℝ}
    {fuel : Nat} {prune : Bool} {r : ReachOut ℝ} (H : solveReach rnd thr fuel prune g = .ok r) :
    ∀ s < g.owners.size, g.tl.getD s [] ≠ [] := by
  obtain ⟨_, his, _, _⟩ := solveReach_ok H
  intro s hs
  have hlt : s < g.tl.size := by rw [hwf.1]; exact hs
  have : g.tl.getD s [] = g.tl[s] := by simp [Array.getD, hlt]
  rw [this]
  exact initStates_ok g his _ (Array.getElem_mem hlt)

/-- **C01, limit form of the tolerance clause.**  For every well-formed game over the reals and
every ε > 0 there is δ > 0 such that every successful run with threshold < δ reports at every
state a number within ε below the value (never above it). -/
theorem reach_converges_to_value (g : Game ℝ) (hwf : WF g) (v : Array ℝ) (hv : IsValue g v)
    (ε : ℝ) (hε : 0 < ε) :
    ∃ δ : ℝ, 0 < δ ∧ ∀ (rnd : ℝ → Int) (thr : ℝ) (fuel : Nat) (prune : Bool) (r : ReachOut ℝ),
      thr < δ → solveReach rnd thr fuel prune g = .ok r →
      ∀ s < g.owners.size, v.getD s 0 - ε < r.probs.getD s 0 ∧ r.probs.getD s 0 ≤ v.getD s 0 := by
  by_cases hne : ∀ s < g.owners.size, g.tl.getD s [] ≠ []
  · obtain ⟨N, hN⟩ := Limit.iter_converges hwf hne v hv ε hε
    obtain ⟨δ, hδ0, hδ1, hδ⟩ := Limit.exists_delta (Limit.dres g) (Limit.dres_nonneg g) N
    refine ⟨δ, hδ0, fun rnd thr fuel prune r hthr H s hs => ?_⟩
    obtain ⟨_, _, hord, _⟩ := solveReach_ok H
    have hprobs : r.probs = Limit.iter g r.iters := by
      have := reach_probs_eq_iterate H
      rw [hord] at this
      exact this
    rcases reach_stop H with ⟨hthr1, _, _⟩ | ⟨x, d, hit, hx, hsw, hd, hd0, _, _⟩
    · exact absurd (lt_of_lt_of_le hthr hδ1) hthr1
    · by_cases hk : r.iters - 1 < N
      · have hx' : x = Limit.iter g (r.iters - 1) := by rw [hord] at hx; exact hx
        have hdd : Limit.dres g (r.iters - 1) = d := by
          unfold Limit.dres
          rw [← hx', ← hord, hsw]
        have hdle : d ≤ thr := not_lt.mp hd
        have hd00 : d = 0 := by
          rcases hδ _ hk with h | h
          · rw [← hdd]; exact h
          · rw [hdd] at h; linarith
        subst hd00
        have := (reach_exact_of_zero_diff' hwf H x hsw).2 v hv s hs
        rw [this]
        exact ⟨by linarith, le_rfl⟩
      · have := hN r.iters (by omega) s hs
        rw [hprobs]
        exact this
  · refine ⟨1, one_pos, fun rnd thr fuel prune r _ H => ?_⟩
    exact absurd (rows_nonempty_of_ok hwf H) hne

/-- the same with the value quantified existentially (it exists and is unique over ℝ) -/
theorem reach_converges (g : Game ℝ) (hwf : WF g) (ε : ℝ) (hε : 0 < ε) :
    ∃ v : Array ℝ, IsValue g v ∧ ∃ δ : ℝ, 0 < δ ∧
      ∀ (rnd : ℝ → Int) (thr : ℝ) (fuel : Nat) (prune : Bool) (r : ReachOut ℝ),
      thr < δ → solveReach rnd thr fuel prune g = .ok r →
      ∀ s < g.owners.size, |r.probs.getD s 0 - v.getD s 0| < ε := by
  obtain ⟨v, hv⟩ := value_exists g hwf
  obtain ⟨δ, hδ, h⟩ := reach_converges_to_value g hwf v hv ε hε
  refine ⟨v, hv, δ, hδ, fun rnd thr fuel prune r hthr H s hs => ?_⟩
  obtain ⟨h1, h2⟩ := h rnd thr fuel prune r hthr H s hs
  rw [abs_lt]
  constructor <;> linarith

/-! ### non-vacuity, and the hypothesis `hne` cannot be dropped -/

/-- the hypotheses of `iterates_converge_to_value` are satisfiable (the cyclic three-state example
game over ℝ is well-formed and every state has a transition), so its conclusion holds there -/
example : ∃ v : Array ℝ, IsValue exGameR v ∧ ∃ N : Nat, ∀ k, N ≤ k → ∀ s < exGameR.owners.size,
    v.getD s 0 - 1 / 100 <
      ((sweepVec exGameR.owners exGameR.tl (gameOrder exGameR))^[k] (initVec exGameR)).getD s 0 ∧
    ((sweepVec exGameR.owners exGameR.tl (gameOrder exGameR))^[k] (initVec exGameR)).getD s 0
      ≤ v.getD s 0 := by
  obtain ⟨v, hv⟩ := value_exists exGameR exGameR_wf
  refine ⟨v, hv, iterates_converge_to_value exGameR exGameR_wf ?_ v hv (1 / 100) (by norm_num)⟩
  intro s hs
  have hs' : s < 3 := hs
  have : s = 0 ∨ s = 1 ∨ s = 2 := by omega
  rcases this with rfl | rfl | rfl <;> simp [exGameR]

/-- one Player-2 state WITHOUT transitions, no final state -/
noncomputable def cexGame : Game ℝ where
  rewards := #[0]
  owners := #[.p2]
  tl := #[[]]
  finals := []

private theorem cex_wf : WF cexGame := by
  refine ⟨rfl, ?_, ?_⟩
  · intro s hs
    have : s = 0 := by have : s < 1 := hs; omega
    subst this; simp [cexGame]
  · intro s hs
    have : s = 0 := by have : s < 1 := hs; omega
    subst this; simp [cexGame]

private theorem cex_value : IsValue cexGame #[1] := by
  refine ⟨⟨rfl, ?_, ?_⟩, ?_⟩
  · intro s hs
    have : s = 0 := by have : s < 1 := hs; omega
    subst this; simp
  · intro s hs
    have : s = 0 := by have : s < 1 := hs; omega
    subst this; simp [Bell, stepReach, cexGame]
  · intro y hy s hs
    have : s = 0 := by have : s < 1 := hs; omega
    subst this
    have := hy.2.2 0 hs
    simpa [Bell, stepReach, cexGame] using this

private theorem cex_iter (k : Nat) :
    (sweepVec cexGame.owners cexGame.tl (gameOrder cexGame))^[k] (initVec cexGame) = #[0] := by
  have hord : gameOrder cexGame = [] := by simp [gameOrder, reverseDfs, cexGame]
  rw [hord]
  induction k with
  | zero =>
    apply Array.ext
    · simp [initVec, cexGame]
    · intro i h1 h2; simp [initVec, cexGame]
  | succ k ih => rw [Function.iterate_succ_apply', ih]; rfl

/-- **the hypothesis "every state has a transition" of `iterates_converge_to_value` cannot be
dropped**: a well-formed game (in the sense of `WF`) with value `[1]` whose iterates all equal
`[0]`, so no iterate is within 1/2 of the value -/
theorem limit_needs_nonempty_rows :
    ∃ (g : Game ℝ) (v : Array ℝ), WF g ∧ IsValue g v ∧
      ¬ ∃ N : Nat, ∀ k, N ≤ k → ∀ s < g.owners.size,
        v.getD s 0 - 1 / 2 < ((sweepVec g.owners g.tl (gameOrder g))^[k] (initVec g)).getD s 0 ∧
        ((sweepVec g.owners g.tl (gameOrder g))^[k] (initVec g)).getD s 0 ≤ v.getD s 0 := by
  refine ⟨cexGame, #[1], cex_wf, cex_value, ?_⟩
  rintro ⟨N, h⟩
  have := (h N le_rfl 0 (by decide)).1
  rw [cex_iter] at this
  norm_num at this

end CR.C01
