/-
Property C13 (presentation independence), the EXPECTED-REWARD PHASE.

"Renumbering the states (keeping the initial state first), reordering the transitions inside any
state, or renaming actions consistently changes the reported probabilities and expected rewards
only by the corresponding renumbering …, changes strategies only by the renaming …"

`CR.Props.C13` treats the reachability phase and the conditioned rows.  This file extends it to
the reward phase (`viRew`) and the final strategies.  Vocabulary (helper lemmas and definitions
are in `CR/Lemmas/EquivRew.lean` and `CR/Lemmas/EquivRewPrune.lean`):

* `RewRel π ρ o o' r r' nodes nodes'`: the "reward game" (owners `o'`, state rewards `r'`,
  transition lists `nodes'`) is (`o`, `r`, `nodes`) with the states renumbered by `π` (injective,
  hence bijective, on `0..n-1`, `n = o.size = o'.size`), owners and rewards related along `π`,
  the row of `π s` in `nodes'` a `List.Perm` of the row of `s` in `nodes` mapped by `trMap π ρ`,
  and all targets of `nodes` states (`< n`; without this a target `≥ n` would be read as value 0
  on one side while `π` is unconstrained outside `0..n-1` — the analogue of `TgtOk` in C13);
* `Brew`, `Absorbing`, `Ranked`, `ExactRew`: as in `CR.Props.C02` / `C02Ranked`;
* `Presents`, `StratPerm`, `trMap`, `invOn`, `pull`, `push`: as in `CR.Props.C13`.

What is proved:
1. `brew_equivariant`: the reward Bellman operator commutes with the re-presentation (max / min
   over a permuted list, the weighted sum over a permuted list — equal in a field; the Player-2
   minimum is started at the FIRST transition of the row, which differs between the two
   presentations, and is shown not to matter);
2. `absorbing_equivariant`, `exactRew_equivariant`, `ranked_equivariant`,
   `exactRew_unique_equivariant`: absorbing states, exact solutions of the reward equations and
   rankedness correspond; ANY exact solution of a ranked game is the renumbering of ANY exact
   solution of its re-presentation;
3. `condition_equivariant` / `nodes_equivariant_of_exact`: conditioning — INCLUDING the emptying
   of unreachable states by the `prune_states` loop — commutes with the re-presentation, so the
   conditioned lists of two exactly converged runs are `RewRel`-related at EVERY state, with
   pruning on or off;
4. `rewards_equivariant_of_exact`: two runs (same rounding function, same pruning flag; any
   thresholds and fuels) whose reachability phases converged exactly and whose reward phases
   satisfy the hypothesis of `C02.rew_exact_of_ranked` on ranked conditioned lists report
   expected rewards related EXACTLY by `π`, at every state;
5. `final_strategies_equivariant_of_exact`: … and final strategies that list exactly the renamed
   actions, possibly in a different order (`StratPerm`) — no monotonicity of the rounding function
   is needed for this; with the strict monotonicity of `C05.final_optimal_of_ranked_strict` both
   are the (renamed) lists of the value-optimal permitted actions
   (`final_strategies_optimal_equivariant`).

NOT proved (and not true as exact statements): the same for runs that were stopped by the residual
test before converging exactly (the intermediate Gauss–Seidel iterates depend on the state order),
and for floating-point runs (the order of a weighted sum changes the rounding).
-/
import CR.Lemmas.EquivRewPrune
import CR.Lemmas.EquivRewEx
import CR.Props.C13
import CR.Props.C05Ranked

set_option linter.unusedSectionVars false

namespace CR.C13

open CR CR.VI CR.Rew CR.C06 CR.Rank CR.Present

variable {K : Type} [Field K] [LinearOrder K] [IsStrictOrderedRing K]
variable {π : Nat → Nat} {ρ : String → String}

/-! ### 1. the reward Bellman operator -/

section Operator
variable {o o' : Array Owner} {r r' : Array K} {nodes nodes' : Array (List (Tr K))}

/-- `RewRel` spelled out -/
theorem rewRel_iff :
    RewRel π ρ o o' r r' nodes nodes' ↔
      o'.size = o.size ∧ (∀ s < o.size, π s < o.size) ∧
      (∀ s < o.size, ∀ s' < o.size, π s = π s' → s = s') ∧
      (∀ s < o.size, o'.getD (π s) .prob = o.getD s .prob) ∧
      (∀ s < o.size, r'.getD (π s) 0 = r.getD s 0) ∧
      (∀ s < o.size, (nodes'.getD (π s) []).Perm ((nodes.getD s []).map (trMap π ρ))) ∧
      (∀ s < o.size, ∀ t ∈ nodes.getD s [], t.tgt < o.size) :=
  ⟨fun h => ⟨h.n_owners, h.maps, h.inj, h.owners, h.rewards, h.rows, h.tgt⟩,
    fun ⟨h1, h2, h3, h4, h5, h6, h7⟩ => ⟨h1, h2, h3, h4, h5, h6, h7⟩⟩

/-- the renumbering of a `RewRel` pair is onto `0..n-1` -/
theorem rewRel_surjective (h : RewRel π ρ o o' r r' nodes nodes') :
    ∀ u < o.size, ∃ s < o.size, π s = u := h.surj

/-- 1. the reward Bellman operator commutes with the re-presentation: for ANY `x'` that agrees
with `x` along `π`, `Brew` of the re-presented lists at `π s` is `Brew` of the original lists at
`s` -/
theorem brew_equivariant (h : RewRel π ρ o o' r r' nodes nodes') {x x' : Array K}
    (hx : ∀ s < o.size, x'.getD (π s) 0 = x.getD s 0) :
    ∀ s < o.size, Brew o' r' nodes' x' (π s) = Brew o r nodes x s :=
  fun _ hs => brew_eq h hx hs

/-- 1'. … stated for a `Presents` pair of games and their own transition lists -/
theorem brew_equivariant_of_presents {g g' : Game K} (h : Presents π ρ g g') (hr : TgtOk g)
    {x x' : Array K} (hx : ∀ s < g.owners.size, x'.getD (π s) 0 = x.getD s 0) :
    ∀ s < g.owners.size,
      Brew g'.owners g'.rewards g'.tl x' (π s) = Brew g.owners g.rewards g.tl x s :=
  brew_equivariant (h.rewRel h.rows hr.2) hx

/-- fixed points of `Brew` correspond -/
theorem brew_fixed_point_equivariant (h : RewRel π ρ o o' r r' nodes nodes') {x x' : Array K}
    (hx : ∀ s < o.size, x'.getD (π s) 0 = x.getD s 0) :
    (∀ s < o.size, Brew o r nodes x s = x.getD s 0) ↔
      (∀ u < o'.size, Brew o' r' nodes' x' u = x'.getD u 0) := by
  constructor
  · intro hfix u hu
    rw [h.n_owners] at hu
    obtain ⟨s, hs, rfl⟩ := h.surj u hu
    rw [brew_eq h hx hs, hx s hs]; exact hfix s hs
  · intro hfix s hs
    rw [← brew_eq h hx hs, ← hx s hs]
    exact hfix _ (by rw [h.n_owners]; exact h.maps s hs)

/-! ### 2. absorbing states, exact solutions, rankedness -/

/-- 2a. absorbing states (probabilistic, reward 0, a single self-loop of probability 1)
correspond -/
theorem absorbing_equivariant (h : RewRel π ρ o o' r r' nodes nodes') :
    ∀ s < o.size, (Absorbing o r nodes s ↔ Absorbing o' r' nodes' (π s)) :=
  fun _ hs => (absorbing_iff h hs).symm

/-- 2. `w` solves the reward equations of `nodes` exactly iff its transport solves those of
`nodes'` exactly -/
theorem exactRew_equivariant (h : RewRel π ρ o o' r r' nodes nodes') {w w' : Array K}
    (hw : ∀ s < o.size, w'.getD (π s) 0 = w.getD s 0) :
    ExactRew o r nodes w ↔ ExactRew o' r' nodes' w' :=
  ⟨exactRew_push h hw, exactRew_pull h hw⟩

/-- 2 (for `Transports`) -/
theorem exactRew_equivariant_of_transports (h : RewRel π ρ o o' r r' nodes nodes')
    {w w' : Array K} (ht : Transports π o.size w w') :
    ExactRew o r nodes w ↔ ExactRew o' r' nodes' w' :=
  exactRew_equivariant h ht.2.2

/-- 2b. rankedness transports, with the rank function `rk ∘ π⁻¹` (`invOn`: the inverse of `π` on
`0..n-1`) and the SAME bound `R` -/
theorem ranked_equivariant (h : RewRel π ρ o o' r r' nodes nodes') {rk : Nat → Nat} {R : Nat}
    (hrk : Ranked o r nodes rk R) :
    Ranked o' r' nodes' (fun u => rk (invOn π o.size u)) R ∧
      ∀ s < o.size, (fun u => rk (invOn π o.size u)) (π s) = rk s :=
  ⟨ranked_push h hrk, fun s hs => by simp only [h.invOn_left hs]⟩

/-- 2c. on ranked lists, ANY exact solution of the re-presentation is the renumbering of ANY
exact solution of the original (no transport hypothesis) -/
theorem exactRew_unique_equivariant (h : RewRel π ρ o o' r r' nodes nodes') {rk : Nat → Nat}
    {R : Nat} (hrk : Ranked o r nodes rk R) {w w' : Array K} (hsz' : w'.size = o.size)
    (hw : ExactRew o r nodes w) (hw' : ExactRew o' r' nodes' w') :
    ∀ s < o.size, w'.getD (π s) 0 = w.getD s 0 := by
  have ht := transports_pull (π := π) hsz'
  have hy := exactRew_pull h ht.2.2 hw'
  exact fun s hs => (ht.2.2 s hs).trans (C02.exactRew_unique hrk _ _ hy hw s hs)

end Operator

/-! ### 3. conditioning, including the emptying of unreachable states -/

variable {g g' : Game K}

/-- 3. conditioning commutes with the re-presentation: from reachability vectors related along
`π` and strategy tables naming the same actions up to `ρ`, the results of `condition` (with the
same pruning flag: `prune_reachability`, then `prune_paths` and the `prune_states` loop) are
related row by row at EVERY state — a state is emptied in `g'` iff its pre-image is emptied in
`g` -/
theorem condition_equivariant (h : Presents π ρ g g') (hr : TgtOk g) {reach reach' : Array K}
    (hx : ∀ s < g.owners.size, reach'.getD (π s) 0 = reach.getD s 0)
    {st st' : Array Strat} (hst : StratRel π ρ g.owners.size st st') {prune : Bool}
    {nodes nodes' : Array (List (Tr K))} (hc : condition prune g st reach = .ok nodes)
    (hc' : condition prune g' st' reach' = .ok nodes') :
    RewRel π ρ g.owners g'.owners g.rewards g'.rewards nodes nodes' ∧
      ∀ s < g.owners.size, (nodes'.getD (π s) [] = [] ↔ nodes.getD s [] = []) := by
  have hrel := condition_rel h hr hx hst hc hc'
  exact ⟨hrel, fun s hs => hrel.row_nil_iff hs⟩

section Runs
variable {rnd : K → Int} {thr thr' : K} {fuel fuel' : Nat} {prune : Bool}
  {out out' : SolveOut K} {ro ro' : ReachOut K}

/-- 3'. the conditioned lists of two runs whose reachability phases converged exactly (the last
sweep of `viReach` changed nothing: hypotheses of `solve_equivariant_of_exact`, for the
`solveReach` runs inside `solve` — `Hr`, `Hr'` are determined by `H`, `H'`: `C02.rew_result`)
are related at every state -/
theorem nodes_equivariant_of_exact (h : Presents π ρ g g') (hwf : C01.WF g)
    (H : solve rnd thr fuel prune g = .ok out) (H' : solve rnd thr' fuel' prune g' = .ok out')
    (Hr : solveReach rnd thr fuel prune g = .ok ro)
    (Hr' : solveReach rnd thr' fuel' prune g' = .ok ro')
    (x : Array K) (hsw : sweepReach g.owners g.tl ro.order x = (ro.probs, 0))
    (x' : Array K) (hsw' : sweepReach g'.owners g'.tl ro'.order x' = (ro'.probs, 0)) :
    RewRel π ρ g.owners g'.owners g.rewards g'.rewards out.nodes out'.nodes := by
  obtain ⟨⟨ro0, h1, hp, hst, _⟩, hcond, _⟩ := C02.rew_result H
  obtain ⟨⟨ro0', h1', hp', hst', _⟩, hcond', _⟩ := C02.rew_result H'
  have e : ro0 = ro := Except.ok.inj (h1.symm.trans Hr)
  have e' : ro0' = ro' := Except.ok.inj (h1'.symm.trans Hr')
  rw [e] at hp hst
  rw [e'] at hp' hst'
  have hprobs : ∀ s < g.owners.size, out'.probs.getD (π s) 0 = out.probs.getD s 0 := by
    rw [hp, hp']; exact solve_equivariant_of_exact h hwf Hr Hr' x hsw x' hsw'
  have hstrat : StratRel π ρ g.owners.size out.reachStrat out'.reachStrat := by
    rw [hst, hst']
    exact fun s hs a => stratPerm_contains h.ρ_injective
      (strategies_equivariant_of_exact h hwf Hr Hr' x hsw x' hsw' s hs) a
  exact condition_rel h (tgtOk_of_wf hwf) hprobs hstrat hcond hcond'

/-! ### 4. the reported expected rewards -/

/-- 4. **expected rewards**.  Two presentations of a well-formed game, two successful runs with
the same rounding function and the same pruning flag (any thresholds, any fuels) such that
(a) both reachability phases converged exactly, (b) both conditioned lists are ranked and both
reward loops performed at least `R + 1` sweeps or ended with a sweep that changed nothing (the
hypothesis of `C02.rew_exact_of_ranked`).  Then the reported expected rewards are related
EXACTLY by the renumbering, at EVERY state (reachable from the initial state or not, emptied or
not, pruning on or off). -/
theorem rewards_equivariant_of_exact {rk rk' : Nat → Nat} {R R' : Nat}
    (h : Presents π ρ g g') (hwf : C01.WF g)
    (H : solve rnd thr fuel prune g = .ok out) (H' : solve rnd thr' fuel' prune g' = .ok out')
    (Hr : solveReach rnd thr fuel prune g = .ok ro)
    (Hr' : solveReach rnd thr' fuel' prune g' = .ok ro')
    (x : Array K) (hsw : sweepReach g.owners g.tl ro.order x = (ro.probs, 0))
    (x' : Array K) (hsw' : sweepReach g'.owners g'.tl ro'.order x' = (ro'.probs, 0))
    (hrk : Ranked g.owners g.rewards out.nodes rk R)
    (hrk' : Ranked g'.owners g'.rewards out'.nodes rk' R')
    (hconv : R + 1 ≤ out.itRew ∨
      ∃ v : RewVecs K, sweepRew rnd g.owners g.rewards out.nodes out.probs v =
        .ok ({ er := out.rewards, ermr := out.rewMinReach, pmr := out.probMinRew }, 0))
    (hconv' : R' + 1 ≤ out'.itRew ∨
      ∃ v : RewVecs K, sweepRew rnd g'.owners g'.rewards out'.nodes out'.probs v =
        .ok ({ er := out'.rewards, ermr := out'.rewMinReach, pmr := out'.probMinRew }, 0)) :
    ∀ s < g.owners.size, out'.rewards.getD (π s) 0 = out.rewards.getD s 0 :=
  exactRew_unique_equivariant (nodes_equivariant_of_exact h hwf H H' Hr Hr' x hsw x' hsw') hrk
    ((C02.rew_size H').1.trans h.n_owners) (C02.rew_exact_of_ranked H hrk hconv).1
    (C02.rew_exact_of_ranked H' hrk' hconv').1

/-- 4'. rankedness need only be assumed for ONE presentation: the conditioned lists of the other
are then ranked with the same bound (`ranked_equivariant`) -/
theorem rewards_equivariant_of_exact_of_ranked {rk : Nat → Nat} {R : Nat}
    (h : Presents π ρ g g') (hwf : C01.WF g)
    (H : solve rnd thr fuel prune g = .ok out) (H' : solve rnd thr' fuel' prune g' = .ok out')
    (Hr : solveReach rnd thr fuel prune g = .ok ro)
    (Hr' : solveReach rnd thr' fuel' prune g' = .ok ro')
    (x : Array K) (hsw : sweepReach g.owners g.tl ro.order x = (ro.probs, 0))
    (x' : Array K) (hsw' : sweepReach g'.owners g'.tl ro'.order x' = (ro'.probs, 0))
    (hrk : Ranked g.owners g.rewards out.nodes rk R)
    (hconv : R + 1 ≤ out.itRew ∨
      ∃ v : RewVecs K, sweepRew rnd g.owners g.rewards out.nodes out.probs v =
        .ok ({ er := out.rewards, ermr := out.rewMinReach, pmr := out.probMinRew }, 0))
    (hconv' : R + 1 ≤ out'.itRew ∨
      ∃ v : RewVecs K, sweepRew rnd g'.owners g'.rewards out'.nodes out'.probs v =
        .ok ({ er := out'.rewards, ermr := out'.rewMinReach, pmr := out'.probMinRew }, 0)) :
    Ranked g'.owners g'.rewards out'.nodes (fun u => rk (invOn π g.owners.size u)) R ∧
      ∀ s < g.owners.size, out'.rewards.getD (π s) 0 = out.rewards.getD s 0 := by
  have hrk' := ranked_push (nodes_equivariant_of_exact h hwf H H' Hr Hr' x hsw x' hsw') hrk
  exact ⟨hrk', rewards_equivariant_of_exact h hwf H H' Hr Hr' x hsw x' hsw' hrk hrk' hconv hconv'⟩

/-- 4''. with threshold 0 in both runs the hypotheses on the reward loops are automatic -/
theorem rewards_equivariant_of_thr_zero {rk : Nat → Nat} {R : Nat}
    (h : Presents π ρ g g') (hwf : C01.WF g) (hthr : thr = 0) (hthr' : thr' = 0)
    (H : solve rnd thr fuel prune g = .ok out) (H' : solve rnd thr' fuel' prune g' = .ok out')
    (Hr : solveReach rnd thr fuel prune g = .ok ro)
    (Hr' : solveReach rnd thr' fuel' prune g' = .ok ro')
    (x : Array K) (hsw : sweepReach g.owners g.tl ro.order x = (ro.probs, 0))
    (x' : Array K) (hsw' : sweepReach g'.owners g'.tl ro'.order x' = (ro'.probs, 0))
    (hrk : Ranked g.owners g.rewards out.nodes rk R) :
    ∀ s < g.owners.size, out'.rewards.getD (π s) 0 = out.rewards.getD s 0 :=
  (rewards_equivariant_of_exact_of_ranked h hwf H H' Hr Hr' x hsw x' hsw' hrk
    (Or.inr (solve_thr_zero_sweep hthr H)) (Or.inr (solve_thr_zero_sweep hthr' H'))).2

/-! ### 5. the final strategies -/

/-- 5. **final strategies**.  Under the hypotheses of 4 the final strategy reported for `π s` in
`g'` lists exactly the renamed actions of the final strategy reported for `s` in `g`, possibly in
a different order (`StratPerm`: both `none` — probabilistic states — or both lists and one a
`List.Perm` of the `ρ`-image of the other); at EVERY state.  No monotonicity of the rounding
function is needed: both runs round exactly related values with the same function. -/
theorem final_strategies_equivariant_of_exact {rk rk' : Nat → Nat} {R R' : Nat}
    (h : Presents π ρ g g') (hwf : C01.WF g)
    (H : solve rnd thr fuel prune g = .ok out) (H' : solve rnd thr' fuel' prune g' = .ok out')
    (Hr : solveReach rnd thr fuel prune g = .ok ro)
    (Hr' : solveReach rnd thr' fuel' prune g' = .ok ro')
    (x : Array K) (hsw : sweepReach g.owners g.tl ro.order x = (ro.probs, 0))
    (x' : Array K) (hsw' : sweepReach g'.owners g'.tl ro'.order x' = (ro'.probs, 0))
    (hrk : Ranked g.owners g.rewards out.nodes rk R)
    (hrk' : Ranked g'.owners g'.rewards out'.nodes rk' R')
    (hconv : R + 1 ≤ out.itRew ∨
      ∃ v : RewVecs K, sweepRew rnd g.owners g.rewards out.nodes out.probs v =
        .ok ({ er := out.rewards, ermr := out.rewMinReach, pmr := out.probMinRew }, 0))
    (hconv' : R' + 1 ≤ out'.itRew ∨
      ∃ v : RewVecs K, sweepRew rnd g'.owners g'.rewards out'.nodes out'.probs v =
        .ok ({ er := out'.rewards, ermr := out'.rewMinReach, pmr := out'.probMinRew }, 0)) :
    ∀ s < g.owners.size,
      StratPerm ρ (out.finalStrat.getD s none) (out'.finalStrat.getD (π s) none) := by
  have hrel := nodes_equivariant_of_exact h hwf H H' Hr Hr' x hsw x' hsw'
  have hrew := rewards_equivariant_of_exact h hwf H H' Hr Hr' x hsw x' hsw' hrk hrk' hconv hconv'
  obtain ⟨_, _, _, _, _, _, _, hf⟩ := solve_ok_full H
  obtain ⟨_, _, _, _, _, _, _, hf'⟩ := solve_ok_full H'
  rw [hf, hf']
  exact fun s hs => rewardStrategies_perm hrel rnd hrew hs

/-- 5'. **optimal final strategies in both presentations**.  Under the hypotheses of 4, if the
rounding function is strictly monotone on the exact rewards of the successors of `s` in the
conditioned game of `g` (and, for Player 1, rounds none of them below 0 — the hypotheses of
`C05.final_optimal_of_ranked_strict`, for `g` ONLY), then the final strategy reported for `π s`
in `g'` is a permutation of the `ρ`-renamed list of exactly those permitted actions of `s` whose
successor has the largest (Player 1) / smallest (Player 2) exact conditioned expected reward. -/
theorem final_strategies_optimal_equivariant {rk rk' : Nat → Nat} {R R' : Nat}
    (h : Presents π ρ g g') (hwf : C01.WF g)
    (H : solve rnd thr fuel prune g = .ok out) (H' : solve rnd thr' fuel' prune g' = .ok out')
    (Hr : solveReach rnd thr fuel prune g = .ok ro)
    (Hr' : solveReach rnd thr' fuel' prune g' = .ok ro')
    (x : Array K) (hsw : sweepReach g.owners g.tl ro.order x = (ro.probs, 0))
    (x' : Array K) (hsw' : sweepReach g'.owners g'.tl ro'.order x' = (ro'.probs, 0))
    (hrk : Ranked g.owners g.rewards out.nodes rk R)
    (hrk' : Ranked g'.owners g'.rewards out'.nodes rk' R')
    (hconv : R + 1 ≤ out.itRew ∨
      ∃ v : RewVecs K, sweepRew rnd g.owners g.rewards out.nodes out.probs v =
        .ok ({ er := out.rewards, ermr := out.rewMinReach, pmr := out.probMinRew }, 0))
    (hconv' : R' + 1 ≤ out'.itRew ∨
      ∃ v : RewVecs K, sweepRew rnd g'.owners g'.rewards out'.nodes out'.probs v =
        .ok ({ er := out'.rewards, ermr := out'.rewMinReach, pmr := out'.probMinRew }, 0))
    (s : Nat) (hs : s < g.owners.size)
    (hmono : ∀ t ∈ out.nodes.getD s [], ∀ t' ∈ out.nodes.getD s [],
      out.rewards.getD t.tgt 0 < out.rewards.getD t'.tgt 0 →
        rnd (out.rewards.getD t.tgt 0) < rnd (out.rewards.getD t'.tgt 0)) :
    (g.owners.getD s .prob = .p1 →
      (∀ t ∈ out.nodes.getD s [], 0 ≤ rnd (out.rewards.getD t.tgt 0)) →
      ∃ l', out'.finalStrat.getD (π s) none = some l' ∧
        l'.Perm ((((out.nodes.getD s []).filter (fun t => decide (∀ t' ∈ out.nodes.getD s [],
          out.rewards.getD t'.tgt 0 ≤ out.rewards.getD t.tgt 0))).map (·.act)).map ρ)) ∧
    (g.owners.getD s .prob = .p2 → out.nodes.getD s [] ≠ [] →
      ∃ l', out'.finalStrat.getD (π s) none = some l' ∧
        l'.Perm ((((out.nodes.getD s []).filter (fun t => decide (∀ t' ∈ out.nodes.getD s [],
          out.rewards.getD t.tgt 0 ≤ out.rewards.getD t'.tgt 0))).map (·.act)).map ρ)) := by
  have hperm := final_strategies_equivariant_of_exact h hwf H H' Hr Hr' x hsw x' hsw' hrk hrk'
    hconv hconv' s hs
  have hex := (C02.rew_exact_of_ranked H hrk hconv).1
  obtain ⟨h1, h2⟩ := C05.final_optimal_of_ranked_strict H hrk hconv out.rewards hex s hmono
  refine ⟨fun hp hnn => ?_, fun hp hne => ?_⟩
  · rw [h1 hp hnn] at hperm; exact stratPerm_some hperm
  · rw [h2 hp hne] at hperm; exact stratPerm_some hperm

end Runs

/-! ### non-vacuity -/

section NonVacuity
open CR.Present.Examples

/-- the relation of 1 is satisfiable: the transition lists of the pair `exG`, `exG'` of
`CR.Props.C13` (states 1 and 2 swapped, two rows reordered, all actions renamed) -/
example : RewRel exπ exρ exG.owners exG'.owners exG.rewards exG'.rewards exG.tl exG'.tl :=
  exG_rewRel

/-- the conclusion of 1 on that pair, with both sides evaluated: the probabilistic state 1 of
`exG` (state 2 of `exG'`, row reordered) has reward 2 and Bellman value `2 + 8·1/2 + 7·1/2`; the
Player-1 state 0 (row reordered) has `1 + max(0, 6, 7)` -/
example :
    Brew exG'.owners exG'.rewards exG'.tl #[5, 7, 6, 8] (exπ 1)
      = Brew exG.owners exG.rewards exG.tl #[5, 6, 7, 8] 1 ∧
    Brew exG.owners exG.rewards exG.tl #[5, 6, 7, 8] 1 = 19 / 2 ∧
    Brew exG'.owners exG'.rewards exG'.tl #[5, 7, 6, 8] (exπ 0)
      = Brew exG.owners exG.rewards exG.tl #[5, 6, 7, 8] 0 ∧
    Brew exG.owners exG.rewards exG.tl #[5, 6, 7, 8] 0 = 8 := by
  have hx : ∀ s < exG.owners.size,
      (#[5, 7, 6, 8] : Array Rat).getD (exπ s) 0 = (#[5, 6, 7, 8] : Array Rat).getD s 0 :=
    four rfl rfl rfl rfl
  exact ⟨brew_equivariant exG_rewRel hx 1 (by decide), by decide +kernel,
    brew_equivariant exG_rewRel hx 0 (by decide), by decide +kernel⟩

/-- a second pair: `exH'` re-presents the five-state game `exH` (states 1 and 2 swapped, the
rows of the Player-1, the probabilistic AND the Player-2 state reordered, all actions renamed) -/
example : Presents exπ exρ exH exH' ∧ C01.WF exH := ⟨exH_presents, exH_wf⟩

/-- 1' on the second pair, at the Player-2 state 2 of `exH` (state 1 of `exH'`): its row
`[u → 3, d → 1]` is presented as `[z_d → 2, z_u → 3]`, so the two minima are started at
DIFFERENT transitions; both are `3 + min(8, 6)` -/
example :
    Brew exH'.owners exH'.rewards exH'.tl #[5, 7, 6, 8, 9] (exπ 2)
      = Brew exH.owners exH.rewards exH.tl #[5, 6, 7, 8, 9] 2 ∧
    Brew exH.owners exH.rewards exH.tl #[5, 6, 7, 8, 9] 2 = 9 :=
  ⟨brew_equivariant_of_presents exH_presents (tgtOk_of_wf exH_wf)
    (x := #[5, 6, 7, 8, 9]) (x' := #[5, 7, 6, 8, 9]) (five rfl rfl rfl rfl rfl) 2 (by decide),
    by decide +kernel⟩

/-- 2 on the second pair: `[4, 2, 3, 0, 0]` solves the reward equations of the conditioned lists
of `exH` exactly, hence `[4, 3, 2, 0, 0]` those of any related lists -/
example (nodes' : Array (List (Tr Rat)))
    (h : RewRel exπ exρ exH.owners exH'.owners exH.rewards exH'.rewards exHnodes nodes') :
    ExactRew exH.owners exH.rewards exHnodes #[4, 2, 3, 0, 0] ∧
      ExactRew exH'.owners exH'.rewards nodes' #[4, 3, 2, 0, 0] := by
  have hex : ExactRew exH.owners exH.rewards exHnodes #[4, 2, 3, 0, 0] := by
    refine ⟨five ?_ ?_ ?_ ?_ ?_, five ?_ ?_ ?_ ?_ ?_⟩
    iterate 5 decide +kernel
    · exact fun ha => absurd ha.1 (by decide)
    · exact fun ha => absurd ha.2.1 (by decide +kernel)
    · exact fun ha => absurd ha.1 (by decide)
    · exact fun _ => by decide +kernel
    · exact fun _ => by decide +kernel
  exact ⟨hex, (exactRew_equivariant h (w := #[4, 2, 3, 0, 0]) (w' := #[4, 3, 2, 0, 0])
    (five rfl rfl rfl rfl rfl)).mp hex⟩

/-- 3–5 on the second pair.  All hypotheses hold together for the two runs of `solve` (rounding
to 6 digits, threshold 0, pruning on) on `exH` and `exH'`: both reachability phases end with a
sweep that changes nothing, the conditioned lists of `exH` are ranked (`rkH`, bound 2), and with
threshold 0 both reward loops end with a sweep that changes nothing.  The conclusions — obtained
from the theorems, not by evaluation — are what the two concrete reports show: expected rewards
`[4, 2, 3, 0, 0]` and `[4, 3, 2, 0, 0]`, final strategies `r`, `u` and `z_r`, `z_u`; the dead sink 4
is emptied in both. -/
example : ∃ out out' : SolveOut Rat,
    solve (roundRat 6) (0 : Rat) 10 true exH = .ok out ∧
    solve (roundRat 6) (0 : Rat) 10 true exH' = .ok out' ∧
    RewRel exπ exρ exH.owners exH'.owners exH.rewards exH'.rewards out.nodes out'.nodes ∧
    (∀ s < 5, out'.rewards.getD (exπ s) 0 = out.rewards.getD s 0) ∧
    (∀ s < 5, StratPerm exρ (out.finalStrat.getD s none) (out'.finalStrat.getD (exπ s) none)) ∧
    out.rewards = #[4, 2, 3, 0, 0] ∧ out'.rewards = #[4, 3, 2, 0, 0] ∧
    out.nodes.getD 4 [] = [] ∧ out'.nodes.getD 4 [] = [] ∧
    out.finalStrat = #[some ["r"], none, some ["u"], none, none] ∧
    out'.finalStrat = #[some ["z_r"], some ["z_u"], none, none, none] := by
  obtain ⟨out, out', ro, ro', H, H', Hr, Hr', hsw, hsw', hrk, h1, h1', hn, hn', hf, hf'⟩ :=
    exH_runs
  have hc := Or.inr (a := 2 + 1 ≤ out.itRew) (solve_thr_zero_sweep rfl H)
  have hc' := Or.inr (a := 2 + 1 ≤ out'.itRew) (solve_thr_zero_sweep rfl H')
  obtain ⟨hrk', hrew⟩ := rewards_equivariant_of_exact_of_ranked exH_presents exH_wf H H' Hr Hr'
    _ hsw _ hsw' hrk hc hc'
  exact ⟨out, out', H, H',
    nodes_equivariant_of_exact exH_presents exH_wf H H' Hr Hr' _ hsw _ hsw', hrew,
    final_strategies_equivariant_of_exact exH_presents exH_wf H H' Hr Hr' _ hsw _ hsw' hrk hrk'
      hc hc',
    h1, h1', by rw [hn]; rfl, by rw [hn']; rfl, hf, hf'⟩

/-- 5' on the second pair, at the Player-1 state 0: rounding to 6 digits is strictly monotone on
the exact rewards 2, 3 of its successors, so the final strategy of state 0 of `exH'` is a
permutation of the renamed list of the optimal actions of state 0 of `exH` (here `["z_r"]`) -/
example : ∃ out out' : SolveOut Rat,
    solve (roundRat 6) (0 : Rat) 10 true exH = .ok out ∧
    solve (roundRat 6) (0 : Rat) 10 true exH' = .ok out' ∧
    ∃ l', out'.finalStrat.getD (exπ 0) none = some l' ∧
      l'.Perm ((((out.nodes.getD 0 []).filter (fun t => decide (∀ t' ∈ out.nodes.getD 0 [],
        out.rewards.getD t'.tgt 0 ≤ out.rewards.getD t.tgt 0))).map (·.act)).map exρ) := by
  obtain ⟨out, out', ro, ro', H, H', Hr, Hr', hsw, hsw', hrk, h1, h1', hn, hn', hf, hf'⟩ :=
    exH_runs
  have hc := Or.inr (a := 2 + 1 ≤ out.itRew) (solve_thr_zero_sweep rfl H)
  have hc' := Or.inr (a := 2 + 1 ≤ out'.itRew) (solve_thr_zero_sweep rfl H')
  have hrk' := (rewards_equivariant_of_exact_of_ranked exH_presents exH_wf H H' Hr Hr'
    _ hsw _ hsw' hrk hc hc').1
  refine ⟨out, out', H, H', (final_strategies_optimal_equivariant exH_presents exH_wf H H' Hr Hr'
    _ hsw _ hsw' hrk hrk' hc hc' 0 (by decide) ?_).1 rfl ?_⟩
  · rw [hn, h1]; decide +kernel
  · rw [hn, h1]; decide +kernel

end NonVacuity

end CR.C13
