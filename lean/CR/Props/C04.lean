/-
Property C04 — reachability strategies.

"For every Player 1 state the reported reachability strategy is the list, in transition order,
of exactly those actions whose successor has the largest reachability value, for every
Player 2 state exactly those whose successor has the smallest, and probabilistic states have no
strategy. ... identical with pruning on or off."

All theorems are generic in the number type `α` and in the rounding function `rnd : α → Int`
(Python's `round(x, 6)` as a scaled integer).  Values are compared *after rounding*; the
Player-1 maximum is clamped below by the literal `0`, the Player-2 minimum is clamped above by
`rnd 1` — exactly as the code does.
-/
import CR.Lemmas.Strat

namespace CR.C04
open CR List

section Extract
variable {α : Type} [OfNat α 0]

/-- C04.1 — `bestStrat` is exactly the arg-max list (in transition order) of the rounded
successor values, where the maximum `M` is the running maximum started at the literal `0`. -/
theorem bestStrat_eq_filter (rnd : α → Int) (vals : Array α) (row : List (Tr α)) :
    bestStrat rnd vals row =
      (row.filter (fun t => rnd (vals.getD t.tgt 0) ==
          row.foldl (fun m t => max m (rnd (vals.getD t.tgt 0))) 0)).map (·.act) :=
  bestStrat_eq rnd vals row

/-- the running maximum started at `m` is the least upper bound of `m` and the keys, and is
attained (by `m` or by a key) -/
theorem foldl_max_spec {β : Type} (key : β → Int) (m : Int) (row : List β) :
    m ≤ row.foldl (fun m t => max m (key t)) m ∧
    (∀ t ∈ row, key t ≤ row.foldl (fun m t => max m (key t)) m) ∧
    (row.foldl (fun m t => max m (key t)) m = m ∨
      ∃ t ∈ row, key t = row.foldl (fun m t => max m (key t)) m) :=
  ⟨le_runMax key row m, key_le_runMax key row m, runMax_mem key row m⟩

/-- the running minimum started at `m` is the greatest lower bound of `m` and the keys, and is
attained -/
theorem foldl_min_spec {β : Type} (key : β → Int) (m : Int) (row : List β) :
    row.foldl (fun m t => min m (key t)) m ≤ m ∧
    (∀ t ∈ row, row.foldl (fun m t => min m (key t)) m ≤ key t) ∧
    (row.foldl (fun m t => min m (key t)) m = m ∨
      ∃ t ∈ row, key t = row.foldl (fun m t => min m (key t)) m) :=
  ⟨runMin_le key row m, runMin_le_key key row m, runMin_mem key row m⟩

/-- `bestStrat` is empty precisely when every rounded successor value is negative (or the row
is empty) -/
theorem bestStrat_eq_nil_iff (rnd : α → Int) (vals : Array α) (row : List (Tr α)) :
    bestStrat rnd vals row = [] ↔ ∀ t ∈ row, rnd (vals.getD t.tgt 0) < 0 := by
  constructor
  · intro h t ht
    rw [bestStrat_eq] at h
    rcases runMax_mem (rkey rnd vals) row 0 with h0 | ⟨u, hu, h1⟩
    · have hle := key_le_runMax (rkey rnd vals) row 0 t ht
      rw [h0] at hle
      rcases Int.lt_or_eq_of_le hle with hlt | heq
      · exact hlt
      · exact absurd h (map_filter_ne_nil _ _ _ t ht (by simp [h0, heq]))
    · exact absurd h (map_filter_ne_nil _ _ _ u hu (by simpa using h1))
  · intro h
    cases row with
    | nil => rfl
    | cons t ts =>
      rw [bestStrat_eq]
      have h0 : runMax (rkey rnd vals) 0 (t :: ts) = 0 := by
        rcases runMax_mem (rkey rnd vals) (t :: ts) 0 with h0 | ⟨u, hu, h1⟩
        · exact h0
        · have := h u hu
          have := le_runMax (rkey rnd vals) (t :: ts) 0
          simp only [rkey] at h1
          omega
      rw [h0]
      have : (t :: ts).filter (fun u => rkey rnd vals u == 0) = [] := by
        apply List.filter_eq_nil_iff.2
        intro u hu
        have := h u hu
        simp only [rkey, beq_iff_eq]
        omega
      rw [this]; rfl

/-- C04.2 — `worstStratFrom` is exactly the arg-min list of the rounded successor values, the
minimum being the running minimum started at `start`. -/
theorem worstStratFrom_eq_filter (rnd : α → Int) (start : Int) (vals : Array α)
    (row : List (Tr α)) :
    worstStratFrom rnd start vals row =
      (row.filter (fun t => rnd (vals.getD t.tgt 0) ==
          row.foldl (fun m t => min m (rnd (vals.getD t.tgt 0))) start)).map (·.act) :=
  worstStratFrom_eq rnd start vals row

/-- C04.3 — on a non-empty row `worstStratRew` starts from the first successor, hence it is
exactly the arg-min list of the rounded values (`M` is a lower bound that is attained: no
clamp), and it is non-empty. -/
theorem worstStratRew_eq_filter (rnd : α → Int) (vals : Array α) (t0 : Tr α)
    (rest : List (Tr α)) :
    worstStratRew rnd vals (t0 :: rest) =
      ((t0 :: rest).filter (fun t => rnd (vals.getD t.tgt 0) ==
          (t0 :: rest).foldl (fun m t => min m (rnd (vals.getD t.tgt 0)))
            (rnd (vals.getD t0.tgt 0)))).map (·.act) ∧
    (∀ t ∈ t0 :: rest,
      (t0 :: rest).foldl (fun m t => min m (rnd (vals.getD t.tgt 0))) (rnd (vals.getD t0.tgt 0))
        ≤ rnd (vals.getD t.tgt 0)) ∧
    (∃ t ∈ t0 :: rest, rnd (vals.getD t.tgt 0) =
      (t0 :: rest).foldl (fun m t => min m (rnd (vals.getD t.tgt 0)))
        (rnd (vals.getD t0.tgt 0))) ∧
    worstStratRew rnd vals (t0 :: rest) ≠ [] := by
  refine ⟨worstStratRew_cons rnd vals t0 rest, runMin_le_key (rkey rnd vals) _ _, ?_,
    worstStratRew_ne_nil rnd vals _ (by simp)⟩
  rcases runMin_mem (rkey rnd vals) (t0 :: rest) (rkey rnd vals t0) with h | h
  · exact ⟨t0, by simp, h.symm⟩
  · exact h

end Extract

section Shape
variable {α : Type} [OfNat α 0] [OfNat α 1]

/-- C04.4 — shape of the reported strategy array: one entry per state; `none` exactly for the
probabilistic states; for player states a sub-list (transition order) of the state's actions. -/
theorem strat_shape (rnd : α → Int) (owners : Array Owner) (nodes : Array (List (Tr α)))
    (reach : Array α) :
    (reachStrategies rnd owners nodes reach).size = owners.size ∧
    (∀ s, (reachStrategies rnd owners nodes reach).getD s none = none ↔
        owners.getD s .prob = .prob) ∧
    (∀ s, owners.getD s .prob ≠ .prob →
        ∃ l, (reachStrategies rnd owners nodes reach).getD s none = some l ∧
          l.Sublist ((nodes.getD s []).map (·.act))) := by
  refine ⟨reachStrategies_size rnd owners nodes reach, ?_, ?_⟩
  · intro s
    rw [reachStrategies_getD]
    cases owners.getD s .prob <;> simp
  · intro s hs
    rw [reachStrategies_getD]
    cases h : owners.getD s .prob with
    | prob => exact absurd h hs
    | p1 => exact ⟨_, rfl, bestStrat_sublist rnd reach _⟩
    | p2 => exact ⟨_, rfl, worstStratFrom_sublist rnd _ reach _⟩

/-- C04.5 (Player 1) — with a non-empty row and no negative rounded successor value the strategy
is non-empty. -/
theorem strat_nonempty_p1 (rnd : α → Int) (owners : Array Owner) (nodes : Array (List (Tr α)))
    (reach : Array α) (s : Nat) (hp : owners.getD s .prob = .p1) (hne : nodes.getD s [] ≠ [])
    (hpos : ∀ t ∈ nodes.getD s [], 0 ≤ rnd (reach.getD t.tgt 0)) :
    ∃ l, (reachStrategies rnd owners nodes reach).getD s none = some l ∧ l ≠ [] := by
  rw [reachStrategies_getD, hp]
  exact ⟨_, rfl, bestStrat_ne_nil rnd reach _ hne hpos⟩

/-- C04.5 (Player 1, all successors at rounded value 0) — then ALL actions are listed. -/
theorem strat_all_zero_p1 (rnd : α → Int) (owners : Array Owner) (nodes : Array (List (Tr α)))
    (reach : Array α) (s : Nat) (hp : owners.getD s .prob = .p1)
    (hz : ∀ t ∈ nodes.getD s [], rnd (reach.getD t.tgt 0) = 0) :
    (reachStrategies rnd owners nodes reach).getD s none =
      some ((nodes.getD s []).map (·.act)) := by
  rw [reachStrategies_getD, hp]
  exact congrArg some (bestStrat_all_zero rnd reach _ hz)

/-- C04.5 (Player 2) — with a non-empty row and no rounded successor value above `rnd 1` the
strategy is non-empty. -/
theorem strat_nonempty_p2 (rnd : α → Int) (owners : Array Owner) (nodes : Array (List (Tr α)))
    (reach : Array α) (s : Nat) (hp : owners.getD s .prob = .p2) (hne : nodes.getD s [] ≠ [])
    (hle : ∀ t ∈ nodes.getD s [], rnd (reach.getD t.tgt 0) ≤ rnd 1) :
    ∃ l, (reachStrategies rnd owners nodes reach).getD s none = some l ∧ l ≠ [] := by
  rw [reachStrategies_getD, hp]
  exact ⟨_, rfl, worstStratFrom_ne_nil rnd _ reach _ hne hle⟩

/-- C04.5 — both players at once. -/
theorem strat_nonempty (rnd : α → Int) (owners : Array Owner) (nodes : Array (List (Tr α)))
    (reach : Array α) (s : Nat) (hne : nodes.getD s [] ≠ []) :
    (owners.getD s .prob = .p1 → (∀ t ∈ nodes.getD s [], 0 ≤ rnd (reach.getD t.tgt 0)) →
      ∃ l, (reachStrategies rnd owners nodes reach).getD s none = some l ∧ l ≠ []) ∧
    (owners.getD s .prob = .p2 → (∀ t ∈ nodes.getD s [], rnd (reach.getD t.tgt 0) ≤ rnd 1) →
      ∃ l, (reachStrategies rnd owners nodes reach).getD s none = some l ∧ l ≠ []) :=
  ⟨fun hp hpos => strat_nonempty_p1 rnd owners nodes reach s hp hne hpos,
   fun hp hle => strat_nonempty_p2 rnd owners nodes reach s hp hne hle⟩

end Shape

section Solver
variable {α : Type} [Add α] [Sub α] [Mul α] [Neg α] [LT α] [DecidableLT α]
  [BEq α] [OfNat α 0] [OfNat α 1]

/-- C04.6 — the strategies reported by `solveReach`, in terms of the reported probabilities:
Player 1: the actions (transition order) whose successor's rounded probability equals the
maximum (clamped below by 0); Player 2: those equal to the minimum (clamped above by `rnd 1`);
probabilistic (and out-of-range) states: none.  Holds in both pruning modes. -/
theorem strat_argmax_reported {rnd : α → Int} {thr : α} {fuel : Nat} {prune : Bool}
    {g : Game α} {r : ReachOut α} (h : solveReach rnd thr fuel prune g = .ok r) :
    r.strat.size = g.owners.size ∧
    (∀ s, g.owners.getD s .prob = .p1 →
      r.strat.getD s none = some
        (((g.tl.getD s []).filter (fun t => rnd (r.probs.getD t.tgt 0) ==
            (g.tl.getD s []).foldl (fun m t => max m (rnd (r.probs.getD t.tgt 0))) 0)).map
          (·.act))) ∧
    (∀ s, g.owners.getD s .prob = .p2 →
      r.strat.getD s none = some
        (((g.tl.getD s []).filter (fun t => rnd (r.probs.getD t.tgt 0) ==
            (g.tl.getD s []).foldl (fun m t => min m (rnd (r.probs.getD t.tgt 0))) (rnd 1))).map
          (·.act))) ∧
    (∀ s, g.owners.getD s .prob = .prob → r.strat.getD s none = none) := by
  obtain ⟨_, hs⟩ := solveReach_ok_inv h
  rw [hs]
  refine ⟨reachStrategies_size _ _ _ _, ?_, ?_, ?_⟩
  · intro s hp
    rw [reachStrategies_getD, hp]
    exact congrArg some (bestStrat_eq rnd r.probs _)
  · intro s hp
    rw [reachStrategies_getD, hp]
    exact congrArg some (worstStratFrom_eq rnd _ r.probs _)
  · intro s hp
    rw [reachStrategies_getD, hp]

/-- C04.7a — a successful run with pruning is also the result without pruning. -/
theorem prune_irrelevant_true_false {rnd : α → Int} {thr : α} {fuel : Nat} {g : Game α}
    {r : ReachOut α} (h : solveReach rnd thr fuel true g = .ok r) :
    solveReach rnd thr fuel false g = .ok r := by
  rw [solveReach_true_eq] at h
  cases hf : solveReach rnd thr fuel false g with
  | error e => rw [hf] at h; cases h
  | ok r' =>
    rw [hf] at h
    simp only [Except.bind] at h
    split at h
    · cases h
    · cases h; rfl

/-- C04.7b — a successful run without pruning is the result with pruning, unless the initial
state has reachability value `== 0`, in which case pruning mode reports `noSolution`. -/
theorem prune_irrelevant_false_true {rnd : α → Int} {thr : α} {fuel : Nat} {g : Game α}
    {r : ReachOut α} (h : solveReach rnd thr fuel false g = .ok r) :
    solveReach rnd thr fuel true g = .ok r ∨
      ((r.probs.getD 0 0 == 0) = true ∧ solveReach rnd thr fuel true g = .error .noSolution) := by
  rw [solveReach_true_eq, h]
  simp only [Except.bind]
  by_cases hz : (r.probs.getD 0 0 == 0) = true
  · right; exact ⟨hz, by rw [if_pos hz]⟩
  · left; rw [if_neg hz]

/-- C04.7c — every error other than `noSolution` is reported in one mode iff in the other. -/
theorem prune_irrelevant_errors {rnd : α → Int} {thr : α} {fuel : Nat} {g : Game α} {e : Err}
    (he : e ≠ .noSolution) :
    solveReach rnd thr fuel true g = .error e ↔ solveReach rnd thr fuel false g = .error e := by
  rw [solveReach_true_eq]
  cases hf : solveReach rnd thr fuel false g with
  | error e' => simp [Except.bind]
  | ok r' =>
    simp only [Except.bind]
    constructor
    · intro h
      split at h
      · cases h; exact absurd rfl he
      · cases h
    · intro h; cases h

/-- C04.7 — reported probabilities and reachability strategies do not depend on whether
pruning was requested (the only difference is the `noSolution` verdict of pruning mode). -/
theorem prune_irrelevant (rnd : α → Int) (thr : α) (fuel : Nat) (g : Game α) :
    (∀ r, solveReach rnd thr fuel true g = .ok r → solveReach rnd thr fuel false g = .ok r) ∧
    (∀ r, solveReach rnd thr fuel false g = .ok r →
      (solveReach rnd thr fuel true g = .ok r ∨
        ((r.probs.getD 0 0 == 0) = true ∧
          solveReach rnd thr fuel true g = .error .noSolution))) ∧
    (∀ e, e ≠ Err.noSolution →
      (solveReach rnd thr fuel true g = .error e ↔ solveReach rnd thr fuel false g = .error e)) :=
  ⟨fun _ h => prune_irrelevant_true_false h, fun _ h => prune_irrelevant_false_true h,
   fun _ he => prune_irrelevant_errors he⟩

end Solver

/-! ### non-vacuity: concrete runs over `Rat`

`reverseDfs` is defined by well-founded recursion (`dfsLoop`, `mergeSort`) and does not reduce
in the kernel, so the runs below first rewrite its value on the concrete game
(`Examples.g7_ord`, `Examples.g6_ord`, proved with the equation lemmas) and evaluate everything
else — validation, value iteration over `Rat`, rounding, strategy extraction — in the kernel. -/

open Examples

/-- the 7-state game, pruning on: `solveReach` succeeds, with these probabilities/strategies -/
example : ∃ r, solveReach (roundRat 6) thr 1000 true g7 = .ok r ∧
    (r.probs, r.strat) =
      (#[3/4, 3/4, 1/2, 1, 0, 1, 0],
       #[some ["alfa"], none, none, some ["gamma"], none, none, none]) :=
  exists_ok_of_toOption_map (by unfold solveReach; rw [g7_ord]; decide +kernel)

/-- the same run without pruning gives the same result (an instance of C04.7) -/
example : ∃ r, solveReach (roundRat 6) thr 1000 false g7 = .ok r ∧
    (r.probs, r.strat) =
      (#[3/4, 3/4, 1/2, 1, 0, 1, 0],
       #[some ["alfa"], none, none, some ["gamma"], none, none, none]) :=
  exists_ok_of_toOption_map (by unfold solveReach; rw [g7_ord]; decide +kernel)

/-- the 6-state game: a three-way tie at the Player-1 state 0 (all actions listed, in
transition order) and a Player-2 state choosing the smaller value -/
example : ∃ r, solveReach (roundRat 6) thr 1000 true g6 = .ok r ∧
    (r.probs, r.strat) =
      (#[1/2, 1/2, 1/2, 1/2, 1, 0],
       #[some ["a", "b", "c"], some ["y"], none, none, none, none]) :=
  exists_ok_of_toOption_map (by unfold solveReach; rw [g6_ord]; decide +kernel)

/-- extractor level: arg-max with a tie, in transition order; all-zero row lists everything;
all-negative row lists nothing -/
example : bestStrat (roundRat 6) #[(1 : Rat)/2, 1/4, 1/2]
    [tr "a" 0 0, tr "b" 0 1, tr "c" 0 2] = ["a", "c"] := by decide +kernel
example : bestStrat (roundRat 6) #[(0 : Rat), 0] [tr "a" 0 0, tr "b" 0 1] = ["a", "b"] := by
  decide +kernel
example : bestStrat (roundRat 6) #[(-1 : Rat)] [tr "a" 0 0] = [] := by decide +kernel
example : worstStratFrom (roundRat 6) (roundRat 6 1) #[(1 : Rat)/2, 1/4, 1/4]
    [tr "a" 0 0, tr "b" 0 1, tr "c" 0 2] = ["b", "c"] := by decide +kernel
example : worstStratRew (roundRat 6) #[(5 : Rat), 3, 3]
    [tr "a" 0 0, tr "b" 0 1, tr "c" 0 2] = ["b", "c"] := by decide +kernel

end CR.C04
