/-
C15 (real-number part): the un-clamped reward formula
`floor(-log(a + u (1-a)) / log 2)` with `a = 2^-(m+1)` is already within `0..m` for every draw
`u` strictly inside `(0,1)`; the clamp `min(max_reward, ·)` only matters for the draw `u = 0`
(which `random.random()` may return), where the value is `m+1`.
Over ℝ (idealised arithmetic), separate file because of the heavy import.
-/
import Mathlib.Analysis.SpecialFunctions.Log.Base

namespace CR.C15

/-- 7. the reward formula over ℝ is in range on the open interval -/
theorem reward_formula_range (m : ℕ) (u : ℝ) (hu0 : 0 < u) (hu1 : u < 1) :
    let a : ℝ := (2 : ℝ) ^ (-(m + 1 : ℤ))
    0 ≤ ⌊-Real.logb 2 (a + u * (1 - a))⌋ ∧ ⌊-Real.logb 2 (a + u * (1 - a))⌋ ≤ (m : ℤ) := by
  intro a
  have ha0 : 0 < a := zpow_pos (by norm_num) _
  have ha1 : a < 1 := zpow_lt_one_of_neg₀ (by norm_num) (by omega)
  have hx0 : a < a + u * (1 - a) := by nlinarith
  have hx1 : a + u * (1 - a) < 1 := by nlinarith
  have hloga : Real.logb 2 a = -((m : ℝ) + 1) := by
    have hl : Real.log 2 ≠ 0 := ne_of_gt (Real.log_pos (by norm_num))
    simp only [a, Real.logb, Real.log_zpow]
    rw [mul_div_assoc, div_self hl]
    push_cast
    ring
  have h1 : Real.logb 2 (a + u * (1 - a)) < 0 :=
    Real.logb_neg (by norm_num) (by linarith) hx1
  have h2 : -((m : ℝ) + 1) < Real.logb 2 (a + u * (1 - a)) := by
    rw [← hloga]
    exact Real.logb_lt_logb (by norm_num) ha0 hx0
  constructor
  · exact Int.floor_nonneg.mpr (by linarith)
  · have : ⌊-Real.logb 2 (a + u * (1 - a))⌋ < (m : ℤ) + 1 := by
      rw [Int.floor_lt]
      push_cast
      linarith
    omega

/-- 7b. at `u = 0` the un-clamped value is `m + 1`: the clamp is needed -/
theorem reward_formula_at_zero (m : ℕ) :
    let a : ℝ := (2 : ℝ) ^ (-(m + 1 : ℤ))
    ⌊-Real.logb 2 (a + 0 * (1 - a))⌋ = (m : ℤ) + 1 := by
  intro a
  have hloga : Real.logb 2 a = -((m : ℝ) + 1) := by
    have hl : Real.log 2 ≠ 0 := ne_of_gt (Real.log_pos (by norm_num))
    simp only [a, Real.logb, Real.log_zpow]
    rw [mul_div_assoc, div_self hl]
    push_cast
    ring
  rw [zero_mul, add_zero, hloga, neg_neg]
  have : ((m : ℝ) + 1) = (((m : ℤ) + 1 : ℤ) : ℝ) := by push_cast; rfl
  rw [this, Int.floor_intCast]

/-- non-vacuity: the hypotheses are satisfiable, e.g. `m = 6`, `u = 1/2` -/
example :
    let a : ℝ := (2 : ℝ) ^ (-((6 : ℕ) + 1 : ℤ))
    0 ≤ ⌊-Real.logb 2 (a + 1 / 2 * (1 - a))⌋ ∧ ⌊-Real.logb 2 (a + 1 / 2 * (1 - a))⌋ ≤ ((6 : ℕ) : ℤ) :=
  reward_formula_range 6 (1 / 2) (by norm_num) (by norm_num)

end CR.C15
