/-
C17: generated file names identify the parameters that produced them: a probability given as
`k/100` always appears as `k`, and two different whole-percent parameter sets never share a file
(model: `CR/Model/Gen.lean`; helper lemmas: `CR/Lemmas/Names.lean`).

`Float` is Lean's IEEE-754 binary64; the table facts below are evaluated by the kernel
(`decide +kernel`) on real doubles for *every* `k` of the quantifier, not on a sample.
-/
import CR.Lemmas.Names

namespace CR.C17

open CR CR.Gen CR.NamesLemmas

/-- the full table `k = 1..99`, checked by kernel evaluation of IEEE doubles -/
private theorem percent_table :
    ∀ k ∈ List.range' 1 99, probToNat (Float.ofNat k / 100) = k := by
  decide +kernel

/-- 1. a probability given as `k/100` (the double nearest to it, as Python computes `k/100`)
is rendered as `k`, for every whole percent `1 ≤ k ≤ 99` -/
theorem percent_exact (k : Nat) (h1 : 1 ≤ k) (h2 : k ≤ 99) :
    probToNat (Float.ofNat k / 100) = k :=
  percent_table k (by simp [List.mem_range'_1]; omega)

/-- 1b. why rounding (and not truncation `int(p*100)`) is needed: truncation is wrong exactly for
29, 57 and 58 percent -/
theorem truncation_wrong :
    (List.range 100).filter (fun k => ((Float.ofNat k / 100) * 100).toUInt64.toNat != k)
      = [29, 57, 58] := by
  decide +kernel

/-- 2. the name states the parameters: whole-percent probabilities appear as their percentage
(`fileName` takes `pRobot pLight pTile pLoose`, rendered after `rb`, `lb`, `tb`, `lt`) -/
theorem name_states_params (seed w l m k1 k2 k3 k4 : Nat) (fd : Bool)
    (h1 : 1 ≤ k1 ∧ k1 ≤ 99) (h2 : 1 ≤ k2 ∧ k2 ≤ 99) (h3 : 1 ≤ k3 ∧ k3 ≤ 99)
    (h4 : 1 ≤ k4 ∧ k4 ≤ 99) :
    fileName seed w l m (Float.ofNat k1 / 100) (Float.ofNat k2 / 100) (Float.ofNat k3 / 100)
        (Float.ofNat k4 / 100) fd
      = fileNameN seed w l m k1 k2 k3 k4 fd := by
  unfold fileName fileNameN probToStr
  rw [percent_exact k1 h1.1 h1.2, percent_exact k2 h2.1 h2.2, percent_exact k3 h3.1 h3.2,
    percent_exact k4 h4.1 h4.2]

/-- 3. the name determines every field, including the `_force_down` flag -/
theorem name_injective {s w l m a b c d s' w' l' m' a' b' c' d' : Nat} {fd fd' : Bool}
    (h : fileNameN s w l m a b c d fd = fileNameN s' w' l' m' a' b' c' d' fd') :
    s = s' ∧ w = w' ∧ l = l' ∧ m = m' ∧ a = a' ∧ b = b' ∧ c = c' ∧ d = d' ∧ fd = fd' :=
  fileNameN_injective h

/-- 4. two whole-percent parameter sets that get the same file are equal -/
theorem name_injective_percent {s w l m a b c d s' w' l' m' a' b' c' d' : Nat} {fd fd' : Bool}
    (ha : 1 ≤ a ∧ a ≤ 99) (hb : 1 ≤ b ∧ b ≤ 99) (hc : 1 ≤ c ∧ c ≤ 99) (hd : 1 ≤ d ∧ d ≤ 99)
    (ha' : 1 ≤ a' ∧ a' ≤ 99) (hb' : 1 ≤ b' ∧ b' ≤ 99) (hc' : 1 ≤ c' ∧ c' ≤ 99)
    (hd' : 1 ≤ d' ∧ d' ≤ 99)
    (h : fileName s w l m (Float.ofNat a / 100) (Float.ofNat b / 100) (Float.ofNat c / 100)
          (Float.ofNat d / 100) fd
        = fileName s' w' l' m' (Float.ofNat a' / 100) (Float.ofNat b' / 100)
          (Float.ofNat c' / 100) (Float.ofNat d' / 100) fd') :
    s = s' ∧ w = w' ∧ l = l' ∧ m = m' ∧ a = a' ∧ b = b' ∧ c = c' ∧ d = d' ∧ fd = fd' := by
  rw [name_states_params _ _ _ _ _ _ _ _ _ ha hb hc hd,
    name_states_params _ _ _ _ _ _ _ _ _ ha' hb' hc' hd'] at h
  exact name_injective h

/-! ### non-vacuity -/

example : fileName 47 5 5 6 0.1 0.1 0.1 0.3 false
    = "inputs/robot_47_w5_l5_r6_rb10_lb10_tb10_lt30.py" := by decide +kernel

example : fileName 47 5 5 6 (Float.ofNat 29 / 100) (Float.ofNat 57 / 100) (Float.ofNat 58 / 100)
    (Float.ofNat 1 / 100) true
    = "inputs/robot_47_w5_l5_r6_rb29_lb57_tb58_lt1_force_down.py" := by decide +kernel

example : fileNameN 47 5 5 6 10 10 10 30 true
    = "inputs/robot_47_w5_l5_r6_rb10_lb10_tb10_lt30_force_down.py" := by decide +kernel

/-- the literal `0.29` is the same double as `29/100` -/
example : (0.29 : Float) = Float.ofNat 29 / 100 := by decide +kernel

/-- the flag alone separates two names -/
example : fileNameN 1 2 3 4 5 6 7 8 true ≠ fileNameN 1 2 3 4 5 6 7 8 false := by decide +kernel

/-- outside whole percents two different parameters may share a name (so 4 needs its
hypotheses): 0.101 and 0.1 both render as 10 -/
example : probToNat 0.101 = probToNat 0.1 := by decide +kernel

end CR.C17
