/-
C16: "When results are saved, the report file is named after the input file, contains one block
per game and pruning mode in run order, and every line of a block reads back to exactly the value
the batch run produced for that entry."
(model: `CR/Model/Report.lean`; helper lemmas: `CR/Lemmas/Report.lean`).
-/
import CR.Lemmas.Report

namespace CR.C16

open CR.Report CR.ReportLemmas

/-- 1. all 14 labels are padded to 26 characters -/
theorem labels_width : (∀ l ∈ labels, l.length = 26) ∧ labels.length = 14 :=
  ⟨ReportLemmas.labels_width, rfl⟩

/-- 2. a block is the separator followed by the 14 lines `label ++ field text`, in label order -/
theorem block_shape (name : String) (e : Entry) :
    (blockLines name e).length = 15 ∧
    (blockLines name e).head? = some separator ∧
    (fieldTexts name e).length = 14 ∧
    ∀ k, k < 14 →
      (blockLines name e)[k + 1]? = some (labels[k]! ++ (fieldTexts name e)[k]!) := by
  refine ⟨rfl, rfl, rfl, ?_⟩
  intro k hk
  have : k = 0 ∨ k = 1 ∨ k = 2 ∨ k = 3 ∨ k = 4 ∨ k = 5 ∨ k = 6 ∨ k = 7 ∨ k = 8 ∨ k = 9 ∨
      k = 10 ∨ k = 11 ∨ k = 12 ∨ k = 13 := by omega
  rcases this with h | h | h | h | h | h | h | h | h | h | h | h | h | h <;> subst h <;> rfl

/-- 3. the line reader returns the text after the label, verbatim -/
theorem line_readback (l : String) (hl : l ∈ labels) (t : String) : fieldOfLine (l ++ t) = t :=
  fieldOfLine_label l hl t

/-- 4. one block per entry, in run order, every field text read back verbatim -/
theorem report_blocks (rs : List (String × Entry)) :
    readBlocks (rs.flatMap (fun ne => blockLines ne.1 ne.2)) =
      rs.map (fun ne => fieldTexts ne.1 ne.2) :=
  readBlocks_flatMap rs

/-- 5a. the report text is the concatenation of the block lines, each terminated by a newline -/
theorem report_text (rs : List (String × Entry)) :
    renderReport rs =
      String.join ((rs.flatMap (fun ne => blockLines ne.1 ne.2)).map (· ++ "\n")) := rfl

/-- 5b. if no field text contains a newline, splitting the report text at newlines (Lean's
`String.splitOn "\n"`) gives back exactly the block lines, plus a final empty string -/
theorem report_lines (rs : List (String × Entry))
    (h : ∀ ne ∈ rs, ∀ t ∈ fieldTexts ne.1 ne.2, '\n' ∉ t.toList) :
    (renderReport rs).splitOn "\n" = rs.flatMap (fun ne => blockLines ne.1 ne.2) ++ [""] := by
  rw [report_text]
  apply splitOn_join_lines
  intro l hl
  obtain ⟨ne, hne, hl⟩ := List.mem_flatMap.1 hl
  exact blockLines_no_newline ne.1 ne.2 (h ne hne) l hl

/-- 5c. hence reading the blocks of the split report text gives the field texts of the run -/
theorem report_roundtrip (rs : List (String × Entry))
    (h : ∀ ne ∈ rs, ∀ t ∈ fieldTexts ne.1 ne.2, '\n' ∉ t.toList) :
    readBlocks (((renderReport rs).splitOn "\n").dropLast) =
      rs.map (fun ne => fieldTexts ne.1 ne.2) := by
  rw [report_lines rs h, List.dropLast_concat, report_blocks]

/-- 6. on well-formed values (`WFVal`, defined in `CR/Lemmas/Report.lean`: strings are printable
ASCII without `'`, `\`, `,`, `[`, `]`, newline; float texts are non-empty, contain none of
`, [ ] '` nor a space, and are not the text of `None`/`True`/`False`/an int; lists of well-formed
values, arbitrarily nested) the printed text determines the value -/
theorem renderVal_injective (a b : RVal) (wa : WFVal a) (wb : WFVal b)
    (h : renderVal a = renderVal b) : a = b :=
  renderVal_inj a b wa wb h

/-- 6'. hence two entries of well-formed values whose blocks have the same field texts are equal
field by field (name, message and time are printed verbatim) -/
theorem fieldTexts_injective (n n' : String) (e e' : Entry)
    (w : WFVal e.nStates ∧ WFVal e.nTransitions ∧ WFVal e.itReach ∧ WFVal e.itRew ∧
      WFVal e.reachStrat ∧ WFVal e.finalStrat ∧ WFVal e.probabilities ∧ WFVal e.probMinRew ∧
      WFVal e.rewards ∧ WFVal e.rewMinReach)
    (w' : WFVal e'.nStates ∧ WFVal e'.nTransitions ∧ WFVal e'.itReach ∧ WFVal e'.itRew ∧
      WFVal e'.reachStrat ∧ WFVal e'.finalStrat ∧ WFVal e'.probabilities ∧ WFVal e'.probMinRew ∧
      WFVal e'.rewards ∧ WFVal e'.rewMinReach)
    (h : fieldTexts n e = fieldTexts n' e') : n = n' ∧ e = e' := by
  obtain ⟨a1, a2, a3, a4, a5, a6, a7, a8, a9, a10⟩ := w
  obtain ⟨b1, b2, b3, b4, b5, b6, b7, b8, b9, b10⟩ := w'
  simp only [fieldTexts, List.cons.injEq, and_true] at h
  obtain ⟨hn, hm, h1, h2, h3, h4, h5, h6, hq, h7, h8, h9, h10, ht⟩ := h
  refine ⟨hn, ?_⟩
  cases e; cases e'
  simp only [Entry.mk.injEq]
  simp only at *
  refine ⟨hm, renderVal_inj _ _ a1 b1 h1, renderVal_inj _ _ a2 b2 h2, renderVal_inj _ _ a3 b3 h3,
    renderVal_inj _ _ a4 b4 h4, renderVal_inj _ _ a5 b5 h5, renderVal_inj _ _ a6 b6 h6,
    boolText_inj hq,
    renderVal_inj _ _ a7 b7 h7, renderVal_inj _ _ a8 b8 h8, renderVal_inj _ _ a9 b9 h9,
    renderVal_inj _ _ a10 b10 h10, ht⟩

/-- 7. the report is named after the input file: directory dropped, extension replaced -/
theorem outname_stem (d stem : String) (h1 : '/' ∉ stem.toList) (h2 : '.' ∉ stem.toList) :
    outName (d ++ "/" ++ stem ++ ".py") = "outputs/" ++ stem ++ ".txt" :=
  outName_dir_stem d stem h1 h2

/-- 7'. the same without a directory part -/
theorem outname_stem_nodir (stem : String) (h1 : '/' ∉ stem.toList) (h2 : '.' ∉ stem.toList) :
    outName (stem ++ ".py") = "outputs/" ++ stem ++ ".txt" :=
  outName_stem stem h1 h2

/-! ### non-vacuity -/

/-- the excluded case: a stem containing a dot is cut at its first dot -/
example : outName "inputs/a.b.py" = "outputs/a.txt" := by
  rw [outName_eq]; decide

example : outName "inputs/sub.dir/game_01.py" = "outputs/game_01.txt" :=
  outname_stem "inputs/sub.dir" "game_01" (by decide) (by decide)

example : outName "game_01.py" = "outputs/game_01.txt" :=
  outname_stem_nodir "game_01" (by decide) (by decide)

/-- a solved entry with nested strategy lists and float atoms -/
def exSolved : Entry where
  msg := "Solved"
  nStates := .int 3
  nTransitions := .int 5
  itReach := .int 12
  itRew := .int 7
  reachStrat := .list [.none, .list [.str "a", .str "b"], .list []]
  finalStrat := .list [.none, .list [.str "a", .str "b"], .list []]
  areEqual := true
  probabilities := .list [.float "0.75", .float "1.0", .float "0.0"]
  probMinRew := .list [.float "0.75", .float "1.0", .float "0.0"]
  rewards := .list [.float "2.5", .float "0.0", .float "inf"]
  rewMinReach := .list [.float "2.5", .float "0.0", .float "inf"]
  totalTime := "<t>"

/-- a failed entry -/
def exFailed : Entry where
  msg := "Error while solving the game: Missing transitions"
  nStates := .none
  nTransitions := .none
  itReach := .none
  itRew := .none
  reachStrat := .none
  finalStrat := .none
  areEqual := true
  probabilities := .none
  probMinRew := .none
  rewards := .none
  rewMinReach := .none
  totalTime := "<t>"

def exRun : List (String × Entry) := [("g1 (pruning)", exSolved), ("g2 (no pruning)", exFailed)]

example : renderVal exSolved.reachStrat = "[None, ['a', 'b'], []]" := by decide

example : fieldTexts "g1 (pruning)" exSolved =
    ["g1 (pruning)", "Solved", "3", "5", "12", "7", "[None, ['a', 'b'], []]",
     "[None, ['a', 'b'], []]", "True", "[0.75, 1.0, 0.0]", "[0.75, 1.0, 0.0]",
     "[2.5, 0.0, inf]", "[2.5, 0.0, inf]", "<t>"] := by decide

example : (blockLines "g2 (no pruning)" exFailed)[2]? =
    some "Message                 : Error while solving the game: Missing transitions" := by
  decide

example : readBlocks (exRun.flatMap (fun ne => blockLines ne.1 ne.2)) =
    [["g1 (pruning)", "Solved", "3", "5", "12", "7", "[None, ['a', 'b'], []]",
      "[None, ['a', 'b'], []]", "True", "[0.75, 1.0, 0.0]", "[0.75, 1.0, 0.0]",
      "[2.5, 0.0, inf]", "[2.5, 0.0, inf]", "<t>"],
     ["g2 (no pruning)", "Error while solving the game: Missing transitions", "None", "None",
      "None", "None", "None", "None", "True", "None", "None", "None", "None", "<t>"]] := by
  rw [report_blocks]; decide

/-- the hypothesis of `report_lines` holds for the example run -/
example : (renderReport exRun).splitOn "\n" =
    exRun.flatMap (fun ne => blockLines ne.1 ne.2) ++ [""] :=
  report_lines exRun (by decide)

/-- the example values are well-formed (so `renderVal_injective` applies to them) -/
example : WFVal exSolved.reachStrat :=
  ⟨trivial, ⟨(by decide : StrOK "a"), (by decide : StrOK "b"), trivial⟩, trivial, trivial⟩

example : WFVal exSolved.rewards :=
  ⟨floatOK_of_floatMark (by decide), floatOK_of_floatMark (by decide),
    floatOK_of_floatMark (by decide), trivial⟩

example : WFVal (.float "1e-05") ∧ WFVal (.float "-inf") ∧ WFVal (.float "nan") :=
  ⟨floatOK_of_floatMark (by decide), floatOK_of_floatMark (by decide),
    floatOK_of_floatMark (by decide)⟩

/-- outside the domain the text is ambiguous: a float atom spelled like an int, or a string
containing the list separator -/
example : renderVal (.float "3") = renderVal (.int 3) := by decide
example : renderVal (.list [.str "a', 'b"]) = renderVal (.list [.str "a", .str "b"]) := by decide

end CR.C16
