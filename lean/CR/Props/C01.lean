/-
Property C01: the reachability probabilities reported by `solveReach`.

"For every well-formed game, the probability the solver reports for a state is the value of the
turn-based reachability game in which Player 1 maximises and Player 2 minimises the chance of
ever visiting a final state: final states report exactly 1, states with no path to a final
state report exactly 0, and every other state reports a number that never exceeds the true
value ..."

All theorems are about an arbitrary `.ok` outcome
`H : solveReach rnd thr fuel prune g = .ok r` (arbitrary rounding function, threshold, fuel,
pruning flag) over an arbitrary linearly ordered field `K`.  "The value" is characterised as
the least pre-fixed point of the Bellman operator `Bell` (Condon); see `reach_le_value`.

Helper lemmas live in `CR/Lemmas/VI.lean`.
-/
import CR.Lemmas.VI
import Mathlib.Algebra.Order.Field.Rat
import Mathlib.Tactic.NormNum
import Mathlib.Tactic.Linarith

set_option linter.unusedSectionVars false

namespace CR.C01

open CR CR.VI

variable {K : Type} [Field K] [LinearOrder K] [IsStrictOrderedRing K]

/-! ### definitions used in the statements -/

/-- well-formedness: one row per state, targets in range, rows of probabilistic states are
probability distributions -/
def WF (g : Game K) : Prop :=
  g.tl.size = g.owners.size ∧
  (∀ s < g.owners.size, ∀ t ∈ g.tl.getD s [], t.tgt < g.owners.size) ∧
  (∀ s < g.owners.size, g.owners.getD s .prob = .prob →
    (∀ t ∈ g.tl.getD s [], 0 ≤ t.p) ∧ ((g.tl.getD s []).map (·.p)).sum = 1)

/-- the Bellman operator of the reachability game (finals pinned to 1), written with the
model's own step function -/
def Bell (g : Game K) (x : Array K) (s : Nat) : K :=
  if g.finals.contains s then 1 else stepReach g.owners g.tl x s

/-- a pre-fixed point in `[0,∞)`: every state is at least its Bellman value -/
def PreFixed (g : Game K) (y : Array K) : Prop :=
  y.size = g.owners.size ∧ (∀ s < g.owners.size, 0 ≤ y.getD s 0) ∧
    ∀ s < g.owners.size, Bell g y s ≤ y.getD s 0

/-- `v` is the value of the game: the least pre-fixed point -/
def IsValue (g : Game K) (v : Array K) : Prop :=
  PreFixed g v ∧ ∀ y, PreFixed g y → ∀ s < g.owners.size, v.getD s 0 ≤ y.getD s 0

/-! ### `stepReach` is the max / min / weighted sum of the successor values -/

/-- Player 1: the maximum of the successor values clamped below by 0 -/
theorem step_p1 (o : Array Owner) (tl : Array (List (Tr K))) (x : Array K) (s : Nat)
    (h : o.getD s .prob = .p1) :
    0 ≤ stepReach o tl x s ∧
    (∀ t ∈ tl.getD s [], x.getD t.tgt 0 ≤ stepReach o tl x s) ∧
    (stepReach o tl x s = 0 ∨ ∃ t ∈ tl.getD s [], stepReach o tl x s = x.getD t.tgt 0) := by
  rw [stepReach_p1 o tl x s h]
  exact ⟨le_maxOver_init _ _ _, fun t ht => le_maxOver_mem _ _ _ t ht, maxOver_attained _ _ _⟩

/-- Player 2: the minimum of the successor values clamped above by 1 -/
theorem step_p2 (o : Array Owner) (tl : Array (List (Tr K))) (x : Array K) (s : Nat)
    (h : o.getD s .prob = .p2) :
    stepReach o tl x s ≤ 1 ∧
    (∀ t ∈ tl.getD s [], stepReach o tl x s ≤ x.getD t.tgt 0) ∧
    (stepReach o tl x s = 1 ∨ ∃ t ∈ tl.getD s [], stepReach o tl x s = x.getD t.tgt 0) := by
  rw [stepReach_p2 o tl x s h]
  exact ⟨minOver_le_init _ _ _, fun t ht => minOver_le_mem _ _ _ t ht, minOver_attained _ _ _⟩

/-- probabilistic state: the weighted sum of the successor values -/
theorem step_prob (o : Array Owner) (tl : Array (List (Tr K))) (x : Array K) (s : Nat)
    (h : o.getD s .prob = .prob) :
    stepReach o tl x s = ((tl.getD s []).map (fun t => x.getD t.tgt 0 * t.p)).sum :=
  stepReach_prob o tl x s h

/-! ### glue -/

section
variable {rnd : K → Int} {thr : K} {fuel : Nat} {prune : Bool} {g : Game K} {r : ReachOut K}

private theorem WF.rowNonneg (h : WF g) {s : Nat} (hs : s < g.owners.size) :
    RowNonneg g.owners g.tl s := fun ho => (h.2.2 s hs ho).1

private theorem WF.rowSumOne (h : WF g) {s : Nat} (hs : s < g.owners.size) :
    RowSumOne g.owners g.tl s := fun ho => (h.2.2 s hs ho).2

/-- every property that holds for the initial vector and is preserved by the in-place update of
a coordinate listed in `r.order` holds for the reported vector -/
private theorem reach_inv (H : solveReach rnd thr fuel prune g = .ok r) (P : Array K → Prop)
    (h0 : P (initVec g))
    (hstep : ∀ x s, s ∈ r.order → P x → P (x.setIfInBounds s (stepReach g.owners g.tl x s))) :
    P r.probs := by
  obtain ⟨_, _, hord, hvi⟩ := solveReach_ok H
  rw [hord] at hstep
  exact viReach_inv P (gameOrder g) (fun x hx => sweepReach_inv P _ hstep x hx) thr fuel 1
    (initVec g) 0 (r.probs, r.iters) h0 hvi

private theorem order_not_final (H : solveReach rnd thr fuel prune g = .ok r) {s : Nat}
    (hs : s ∈ r.order) : g.finals.contains s = false := by
  obtain ⟨_, _, hord, _⟩ := solveReach_ok H
  rw [hord] at hs
  have := not_final_of_mem_reverseDfs _ _ s hs
  simpa using this

private theorem bell_of_order (H : solveReach rnd thr fuel prune g = .ok r) {s : Nat}
    (hs : s ∈ r.order) (x : Array K) : Bell g x s = stepReach g.owners g.tl x s := by
  unfold Bell; rw [order_not_final H hs]; rfl

/-! ### 1–3: shape, final states, untouched states -/

/-- 1. one probability per state -/
theorem reach_size (H : solveReach rnd thr fuel prune g = .ok r) :
    r.probs.size = g.owners.size :=
  reach_inv H (fun x => x.size = g.owners.size) (initVec_size g) (fun x s _ h => by simpa using h)

/-- states outside the sweep order keep their initial value (all indices, also out of range) -/
theorem reach_untouched_init (H : solveReach rnd thr fuel prune g = .ok r) (s : Nat)
    (hs : s ∉ r.order) : r.probs.getD s 0 = (initVec g).getD s 0 :=
  reach_inv H (fun x => x.getD s 0 = (initVec g).getD s 0) rfl (fun x s' hs' h => by
    rw [getD_setIfInBounds]
    have hne : s' ≠ s := fun e => hs (e ▸ hs')
    simp [hne, h])

/-- no final state is in the sweep order -/
theorem final_not_mem_order (H : solveReach rnd thr fuel prune g = .ok r) (f : Nat)
    (hf : f ∈ g.finals) : f ∉ r.order := by
  intro hmem
  have := order_not_final H hmem
  simp [hf] at this

/-- 2. final states report exactly 1 -/
theorem reach_final (H : solveReach rnd thr fuel prune g = .ok r) :
    ∀ f ∈ g.finals, r.probs.getD f 0 = 1 := by
  intro f hf
  obtain ⟨hcg, _, _, _⟩ := solveReach_ok H
  have hlt := (checkGame_ok g hcg).2 f hf
  rw [reach_untouched_init H f (final_not_mem_order H f hf), getD_initVec]
  simp [hlt, hf]

/-- 3. a state that is not in the sweep order reports 1 if it is final and 0 otherwise -/
theorem reach_untouched (H : solveReach rnd thr fuel prune g = .ok r) :
    ∀ s < g.owners.size, s ∉ r.order →
      r.probs.getD s 0 = if g.finals.contains s then 1 else 0 := by
  intro s hlt hs
  rw [reach_untouched_init H s hs, getD_initVec]
  simp [hlt]

/-! ### 4: range -/

/-- 4. reported values are probabilities (uses only the third component of `WF`) -/
theorem reach_range (hwf : WF g) (H : solveReach rnd thr fuel prune g = .ok r) :
    ∀ s, 0 ≤ r.probs.getD s 0 ∧ r.probs.getD s 0 ≤ 1 := by
  have := reach_inv H
    (fun x => x.size = g.owners.size ∧ ∀ j, 0 ≤ x.getD j 0 ∧ x.getD j 0 ≤ 1)
    ⟨initVec_size g, fun j => by
      rw [getD_initVec]
      by_cases hc : j < g.owners.size ∧ g.finals.contains j = true
      · rw [if_pos hc]; exact ⟨zero_le_one, le_rfl⟩
      · rw [if_neg hc]; exact ⟨le_rfl, zero_le_one⟩⟩
    (fun x s _ ⟨hn, hb⟩ => ⟨by simpa using hn, fun j => by
      rw [getD_setIfInBounds]
      by_cases hc : s = j ∧ s < x.size
      · rw [if_pos hc]
        have hs : s < g.owners.size := hn ▸ hc.2
        exact ⟨stepReach_nonneg (hwf.rowNonneg hs) x (fun j => (hb j).1),
          stepReach_le_one (hwf.rowNonneg hs) (hwf.rowSumOne hs) x (fun j => (hb j).2)⟩
      · rw [if_neg hc]; exact hb j⟩)
  exact this.2

/-! ### 5–6: never above the value -/

private theorem getD_le_of_prefixed {y : Array K} (hy : PreFixed g y) (x : Array K)
    (hn : x.size = g.owners.size) (h : ∀ s < g.owners.size, x.getD s 0 ≤ y.getD s 0) :
    ∀ j, x.getD j 0 ≤ y.getD j 0 := by
  intro j
  by_cases hj : j < g.owners.size
  · exact h j hj
  · have hj' : g.owners.size ≤ j := Nat.le_of_not_lt hj
    rw [getD_of_size_le x j 0 (hn ▸ hj'), getD_of_size_le y j 0 (hy.1 ▸ hj')]

/-- 5. the reported vector is below EVERY pre-fixed point of the Bellman operator
(uses only `p ≥ 0` on probabilistic rows from `WF`) -/
theorem reach_le_prefixed (hwf : WF g) (H : solveReach rnd thr fuel prune g = .ok r)
    (y : Array K) (hy : PreFixed g y) :
    ∀ s < g.owners.size, r.probs.getD s 0 ≤ y.getD s 0 := by
  have := reach_inv H
    (fun x => x.size = g.owners.size ∧ ∀ j, x.getD j 0 ≤ y.getD j 0)
    ⟨initVec_size g, getD_le_of_prefixed hy _ (initVec_size g) (fun s hs => by
      rw [getD_initVec]
      by_cases hc : s < g.owners.size ∧ g.finals.contains s = true
      · rw [if_pos hc]
        have := hy.2.2 s hs
        unfold Bell at this
        rwa [if_pos hc.2] at this
      · rw [if_neg hc]; exact hy.2.1 s hs)⟩
    (fun x s hso ⟨hn, hle⟩ => ⟨by simpa using hn, fun j => by
      rw [getD_setIfInBounds]
      by_cases hc : s = j ∧ s < x.size
      · rw [if_pos hc]
        obtain ⟨rfl, hlt⟩ := hc
        have hs : s < g.owners.size := hn ▸ hlt
        calc stepReach g.owners g.tl x s
            ≤ stepReach g.owners g.tl y s := stepReach_mono (hwf.rowNonneg hs) x y hle
          _ = Bell g y s := (bell_of_order H hso y).symm
          _ ≤ y.getD s 0 := hy.2.2 s hs
      · rw [if_neg hc]; exact hle j⟩)
  exact fun s _ => this.2 s

/-- 6. the reported vector never exceeds the value (the least pre-fixed point) -/
theorem reach_le_value (hwf : WF g) (H : solveReach rnd thr fuel prune g = .ok r)
    (v : Array K) (hv : IsValue g v) :
    ∀ s < g.owners.size, r.probs.getD s 0 ≤ v.getD s 0 :=
  reach_le_prefixed hwf H v hv.1

/-- 6'. reported ≤ value ≤ any pre-fixed point -/
theorem reach_sandwich (hwf : WF g) (H : solveReach rnd thr fuel prune g = .ok r)
    (v : Array K) (hv : IsValue g v) (y : Array K) (hy : PreFixed g y) :
    ∀ s < g.owners.size, r.probs.getD s 0 ≤ v.getD s 0 ∧ v.getD s 0 ≤ y.getD s 0 :=
  fun s hs => ⟨reach_le_value hwf H v hv s hs, hv.2 y hy s hs⟩

/-! ### 7: the iterates increase -/

/-- the reported vector is the `r.iters`-th Gauss–Seidel iterate of the initial vector -/
theorem reach_probs_eq_iterate (H : solveReach rnd thr fuel prune g = .ok r) :
    r.probs = (sweepVec g.owners g.tl r.order)^[r.iters] (initVec g) := by
  obtain ⟨_, _, hord, hvi⟩ := solveReach_ok H
  obtain ⟨k, hk1, hk2, _⟩ := viReach_spec _ _ _ _ _ _ _ hvi
  simp only [Nat.zero_add] at hk1
  rw [hord, hk1]; exact hk2

private theorem subSol_iterate (hwf : WF g) (H : solveReach rnd thr fuel prune g = .ok r)
    (k : Nat) :
    ((sweepVec g.owners g.tl r.order)^[k] (initVec g)).size = g.owners.size ∧
      SubSol g.owners g.tl r.order ((sweepVec g.owners g.tl r.order)^[k] (initVec g)) := by
  refine iterate_inv (fun x => x.size = g.owners.size ∧ SubSol g.owners g.tl r.order x) _ ?_ k _ ?_
  · intro x ⟨hn, hsub⟩
    have := subSol_sweep (o := g.owners) (tl := g.tl) r.order g.owners.size
      (fun s _ hs => hwf.rowNonneg hs) x hn hsub
    exact ⟨this.1, this.2.1⟩
  · refine ⟨initVec_size g, fun s hs hlt => ?_⟩
    rw [initVec_size] at hlt
    rw [getD_initVec, order_not_final H hs]
    simp only [Bool.false_eq_true, and_false, if_false]
    exact stepReach_nonneg (hwf.rowNonneg hlt) _ (fun j => by
      rw [getD_initVec]; split_ifs
      · exact zero_le_one
      · exact le_rfl)

/-- 7. under `WF`, every sweep of the run is pointwise ≥ its input: the iterates
`x₀ ≤ S x₀ ≤ S² x₀ ≤ …` increase, where `x₀` is the initial vector and `S` one sweep over
`r.order` (uses only `p ≥ 0`) -/
theorem reach_monotone_iterates (hwf : WF g) (H : solveReach rnd thr fuel prune g = .ok r)
    (k : Nat) (j : Nat) :
    ((sweepVec g.owners g.tl r.order)^[k] (initVec g)).getD j 0 ≤
      ((sweepVec g.owners g.tl r.order)^[k + 1] (initVec g)).getD j 0 := by
  obtain ⟨hn, hsub⟩ := subSol_iterate hwf H k
  rw [Function.iterate_succ_apply']
  exact (subSol_sweep (o := g.owners) (tl := g.tl) r.order g.owners.size
    (fun s _ hs => hwf.rowNonneg hs) _ hn hsub).2.2 j

/-- 7'. the reported vector is itself a sub-solution on the sweep order:
`r.probs[s] ≤ Bell r.probs s` for every swept state -/
theorem reach_subsolution (hwf : WF g) (H : solveReach rnd thr fuel prune g = .ok r) :
    ∀ s ∈ r.order, s < g.owners.size → r.probs.getD s 0 ≤ Bell g r.probs s := by
  intro s hs hlt
  have := (subSol_iterate hwf H r.iters).2
  rw [← reach_probs_eq_iterate H] at this
  rw [bell_of_order H hs]
  exact this s hs (by rw [reach_size H]; exact hlt)

/-! ### 8: what is known when the loop stops -/

/-- the sweep order has no duplicates -/
theorem order_nodup (H : solveReach rnd thr fuel prune g = .ok r) : r.order.Nodup := by
  obtain ⟨_, _, hord, _⟩ := solveReach_ok H
  rw [hord]; exact reverseDfs_nodup _ _

/-- 8. on `.ok`, either the loop never ran (`thr ≥ 1`, i.e. `¬ 1 > thr`; the initial vector is
reported) or the reported vector is the result of a last sweep, started from the previous
iterate `x`, whose reported change `d` is not above the threshold; `d` bounds the change of
every coordinate and is attained (it is 0 or the change of a swept in-range coordinate) -/
theorem reach_stop (H : solveReach rnd thr fuel prune g = .ok r) :
    (¬ (1 > thr) ∧ r.iters = 0 ∧ r.probs = initVec g) ∨
    ∃ (x : Array K) (d : K),
      1 ≤ r.iters ∧ x = (sweepVec g.owners g.tl r.order)^[r.iters - 1] (initVec g) ∧
      sweepReach g.owners g.tl r.order x = (r.probs, d) ∧ ¬ (d > thr) ∧ 0 ≤ d ∧
      (∀ j, |r.probs.getD j 0 - x.getD j 0| ≤ d) ∧
      (d = 0 ∨ ∃ s ∈ r.order, s < g.owners.size ∧ d = |r.probs.getD s 0 - x.getD s 0|) := by
  obtain ⟨hcg, _, hord, hvi⟩ := solveReach_ok H
  have hnd := order_nodup H
  obtain ⟨k, hk1, hk2, hk3⟩ := viReach_spec _ _ _ _ _ _ _ hvi
  simp only [Nat.zero_add] at hk1 hk2
  rw [← hord] at hk2 hk3
  rcases hk3 with ⟨rfl, hthr⟩ | ⟨k', rfl, _, hthr⟩
  · left; exact ⟨hthr, hk1, hk2⟩
  · right
    set x := (sweepVec g.owners g.tl r.order)^[k'] (initVec g) with hx
    have hxn : x.size = g.owners.size :=
      iterate_inv (fun (x : Array K) => x.size = g.owners.size) _
        (fun x h => by unfold sweepVec; rw [sweepReach_eq, sweepFrom_size]; exact h) k' _
        (initVec_size g)
    have hprobs : r.probs = (sweepReach g.owners g.tl r.order x).1 := by
      rw [hk2, Function.iterate_succ_apply']; rfl
    refine ⟨x, (sweepReach g.owners g.tl r.order x).2, by omega, ?_, ?_, hthr, ?_, ?_, ?_⟩
    · rw [hk1]; rfl
    · rw [hprobs]
    · exact sweepFrom_diff_ge (o := g.owners) (tl := g.tl) r.order (x, 0)
    · intro j
      rw [hprobs]
      exact sweepFrom_change_le (o := g.owners) (tl := g.tl) r.order hnd (x, 0) le_rfl j
    · have hco := checkGame_ok g hcg
      rcases sweepFrom_diff_attained (o := g.owners) (tl := g.tl) r.order hnd (x, 0) le_rfl
        (fun y s hs => stepReach_out_of_range (by rw [← hxn]; exact hs)
          (by rw [hco.1, ← hxn]; exact hs) y) with h | ⟨s, hs, hlt, h⟩
      · left; exact h
      · right; exact ⟨s, hs, hxn ▸ hlt, by rw [hprobs]; exact h⟩

/-- 8'. Bellman residual of a sweep result: if `r.probs` is the result of a sweep with reported
change `d`, every swept state is within `d` of its Bellman value
(uses `p ≥ 0` and `Σ p = 1` from `WF`: non-expansiveness of the step in the sup norm) -/
theorem reach_residual (hwf : WF g) (H : solveReach rnd thr fuel prune g = .ok r)
    (x : Array K) (d : K) (hsw : sweepReach g.owners g.tl r.order x = (r.probs, d)) :
    ∀ s ∈ r.order, s < g.owners.size → |Bell g r.probs s - r.probs.getD s 0| ≤ d := by
  intro s hs hlt
  have h1 : r.probs = (sweepFrom g.owners g.tl r.order (x, 0)).1 := by
    rw [← sweepReach_eq, hsw]
  have h2 : d = (sweepFrom g.owners g.tl r.order (x, 0)).2 := by
    rw [← sweepReach_eq, hsw]
  have hxn : x.size = g.owners.size := by
    rw [← reach_size H, h1, sweepFrom_size]
  rw [bell_of_order H hs, h1, h2]
  exact sweepFrom_residual (o := g.owners) (tl := g.tl) r.order (order_nodup H) (x, 0) le_rfl s
    (hwf.rowNonneg hlt) (hwf.rowSumOne hlt) hs (by rw [hxn]; exact hlt)

/-- 8''. on `.ok` the Bellman residual of the reported vector is at most the threshold on every
swept state -/
theorem reach_residual_le_thr (hwf : WF g) (H : solveReach rnd thr fuel prune g = .ok r) :
    ∀ s ∈ r.order, s < g.owners.size → |Bell g r.probs s - r.probs.getD s 0| ≤ thr := by
  intro s hs hlt
  rcases reach_stop H with ⟨hthr, _, _⟩ | ⟨x, d, _, _, hsw, hd, _, _, _⟩
  · -- the loop never ran: both numbers are in [0,1] and `1 ≤ thr`
    have hr := reach_range hwf H
    have hb : 0 ≤ Bell g r.probs s ∧ Bell g r.probs s ≤ 1 := by
      rw [bell_of_order H hs]
      exact ⟨stepReach_nonneg (hwf.rowNonneg hlt) _ (fun j => (hr j).1),
        stepReach_le_one (hwf.rowNonneg hlt) (hwf.rowSumOne hlt) _ (fun j => (hr j).2)⟩
    have h1 : (1 : K) ≤ thr := not_lt.mp hthr
    rw [abs_le]
    constructor <;> linarith [(hr s).1, (hr s).2, hb.1, hb.2]
  · exact le_trans (reach_residual hwf H x d hsw s hs hlt) (not_lt.mp hd)

/-! ### 9: exactness when the last sweep changed nothing -/

/-- 9. if the last sweep reported change 0 and the complement of `r.order ∪ finals` is closed
under successors (which is what "`r.order` is exactly the set of non-final states with a path
to a final state" gives), then the reported vector is a fixed point of the Bellman operator, a
pre-fixed point, and equal to the value -/
theorem reach_exact_of_zero_diff (hwf : WF g) (H : solveReach rnd thr fuel prune g = .ok r)
    (x : Array K) (hsw : sweepReach g.owners g.tl r.order x = (r.probs, 0))
    (hclosed : ∀ s < g.owners.size, s ∉ r.order → s ∉ g.finals →
      ∀ t ∈ g.tl.getD s [], t.tgt ∉ r.order ∧ t.tgt ∉ g.finals) :
    (∀ s < g.owners.size, Bell g r.probs s = r.probs.getD s 0) ∧ PreFixed g r.probs ∧
      ∀ v, IsValue g v → ∀ s < g.owners.size, r.probs.getD s 0 = v.getD s 0 := by
  obtain ⟨hcg, his, _, _⟩ := solveReach_ok H
  have hco := checkGame_ok g hcg
  have hfix : ∀ s < g.owners.size, Bell g r.probs s = r.probs.getD s 0 := by
    intro s hlt
    by_cases hf : s ∈ g.finals
    · rw [reach_final H s hf]; unfold Bell; simp [hf]
    · by_cases hs : s ∈ r.order
      · have := reach_residual hwf H x 0 hsw s hs hlt
        have := abs_nonpos_iff.mp this
        exact sub_eq_zero.mp this
      · have hzero : ∀ j, j ∉ r.order → j ∉ g.finals → r.probs.getD j 0 = 0 := by
          intro j hj hjf
          rw [reach_untouched_init H j hj, getD_initVec]
          simp [hjf]
        rw [hzero s hs hf]
        unfold Bell
        have : g.finals.contains s = false := by simpa using hf
        rw [this]
        simp only [Bool.false_eq_true, if_false]
        refine stepReach_eq_zero (hwf.rowNonneg hlt) (fun _ => ?_) _ (fun t ht => ?_)
        · have hlt' : s < g.tl.size := hco.1 ▸ hlt
          have : g.tl.getD s [] = g.tl[s] := by simp [Array.getD, hlt']
          rw [this]
          exact initStates_ok g his _ (Array.getElem_mem hlt')
        · obtain ⟨h1, h2⟩ := hclosed s hlt hs hf t ht
          exact hzero _ h1 h2
  have hpre : PreFixed g r.probs :=
    ⟨reach_size H, fun s _ => (reach_range hwf H s).1, fun s hs => le_of_eq (hfix s hs)⟩
  exact ⟨hfix, hpre, fun v hv s hs =>
    le_antisymm (reach_le_value hwf H v hv s hs) (hv.2 _ hpre s hs)⟩

end

/-! ### non-vacuity -/

section NonVacuity

/-- three states: 0 probabilistic (stays with 3/4, to the final state 1 with 1/8, to the sink 2
with 1/8), 1 final and absorbing, 2 an absorbing sink -/
def exGame : Game Rat where
  rewards := #[0, 0, 0]
  owners := #[.prob, .prob, .prob]
  tl := #[[⟨"a", 3/4, 0⟩, ⟨"a", 1/8, 1⟩, ⟨"a", 1/8, 2⟩], [⟨"a", 1, 1⟩], [⟨"a", 1, 2⟩]]
  finals := [1]

/-- the hypotheses of the theorems are satisfiable: the cyclic example game is well-formed -/
example : WF exGame := by
  refine ⟨rfl, ?_, ?_⟩
  · intro s hs
    have hs' : s < 3 := hs
    have : s = 0 ∨ s = 1 ∨ s = 2 := by omega
    rcases this with rfl | rfl | rfl <;> simp [exGame]
  · intro s hs
    have hs' : s < 3 := hs
    have : s = 0 ∨ s = 1 ∨ s = 2 := by omega
    rcases this with rfl | rfl | rfl <;> intro _ <;> simp [exGame]
    norm_num

private theorem exPreFixed : PreFixed exGame #[1/2, 1, 0] := by
  refine ⟨rfl, ?_, ?_⟩
  · intro s hs
    have hs' : s < 3 := hs
    have : s = 0 ∨ s = 1 ∨ s = 2 := by omega
    rcases this with rfl | rfl | rfl <;> simp
  · intro s hs
    have hs' : s < 3 := hs
    have : s = 0 ∨ s = 1 ∨ s = 2 := by omega
    rcases this with rfl | rfl | rfl <;> simp [Bell, stepReach, exGame]
    norm_num

/-- `[1/2, 1, 0]` is a pre-fixed point of the example game -/
example : PreFixed exGame #[1/2, 1, 0] := exPreFixed

/-- ... and it is the value (least pre-fixed point) of the example game, so `IsValue` is
satisfiable too -/
example : IsValue exGame #[1/2, 1, 0] := by
  refine ⟨exPreFixed, fun y hy s hs => ?_⟩
  have h0 := hy.2.2 0 (by decide)
  have h1 := hy.2.2 1 (by decide)
  have h2 := hy.2.1 2 (by decide)
  simp [Bell, stepReach, exGame] at h0 h1 h2
  have hs' : s < 3 := hs
  have : s = 0 ∨ s = 1 ∨ s = 2 := by omega
  rcases this with rfl | rfl | rfl
  · simp; linarith
  · simpa using h1
  · simpa using h2

/-! the hypothesis `H` is satisfiable: with threshold 1/2 the solver stops after one sweep on the
example game and reports `[1/8, 1, 0]` (below the value `[1/2, 1, 0]`), sweep order `[0]` -/

private theorem exOrder : gameOrder exGame = [0] := by
  unfold gameOrder reverseDfs
  have hrev : revTable (exGame.tl.toList.map (fun row => row.map (·.tgt))) =
      #[[0], [0, 1], [0, 2]] := by decide
  simp only [hrev]
  simp [exGame, dfsLoop]

private theorem exCheck : checkGame exGame = .ok () := by
  simp [checkGame, exGame, anyNeg]
  rfl

private theorem exInit : initStates exGame = .ok () := by
  simp [initStates, exGame]
  rfl

private theorem exVi :
    viReach exGame.owners exGame.tl [0] (1/2) 10 1 (initVec exGame) 0 = .ok (#[1/8, 1, 0], 1) := by
  simp [viReach, sweepReach, stepReach, absv, initVec, exGame]
  norm_num
  apply Array.ext <;> simp
  intro i hi
  have : i = 0 ∨ i = 1 ∨ i = 2 := by omega
  rcases this with rfl | rfl | rfl <;> simp

example : ∃ r, solveReach (fun _ => 0) (1/2 : Rat) 10 false exGame = .ok r ∧
    r.probs = #[1/8, 1, 0] ∧ r.iters = 1 ∧ r.order = [0] := by
  refine ⟨⟨#[1/8, 1, 0], reachStrategies (fun _ => 0) exGame.owners exGame.tl #[1/8, 1, 0], 1, [0]⟩,
    ?_, rfl, rfl, rfl⟩
  unfold solveReach
  simp only [bind, Except.bind, exCheck, exInit]
  rw [show reverseDfs (exGame.tl.toList.map (fun row => row.map (·.tgt))) exGame.finals = [0]
    from exOrder]
  rw [show (Array.range exGame.owners.size).map
    (fun s => if exGame.finals.contains s then (1 : Rat) else 0) = initVec exGame from rfl]
  rw [exVi]
  rfl

end NonVacuity

end CR.C01
