/-
Property C06: termination and error-freeness of the solver.

"For every well-formed stopping game the solver terminates and returns a complete result
(strategies, rewards and probabilities for every state), except that with pruning on it raises its
'no solution' error exactly when the initial state's reachability value is 0.  It never fails with
any other error and never iterates forever, whatever the number and arrangement of
zero-probability states."

The model is `CR.solve` / `CR.solveReach` of `CR/Model/Solver.lean`, over an arbitrary linearly
ordered field `K`, with an arbitrary rounding function `rnd : K → Int`, an arbitrary threshold and
arbitrary fuel (except where a hypothesis says otherwise).  The two `while diff > threshold` loops
of the Python code are modelled with a fuel argument; "`outOfFuel` is not returned" is the model's
way of saying "the loop exits within `fuel` sweeps".

What IS proved here
* `validation_passes`    : `check_game` and `init_states` accept every well-formed game;
* `reach_terminates`     : the reachability loop exits within any `fuel` with `n < fuel * thr`
                           (`n` the number of states, `thr > 0` the threshold), i.e. after at most
                           `⌊n / thr⌋ + 1` sweeps — unconditionally, for every well-formed game;
* `no_solution_iff`      : 'no solution' is raised exactly when pruning is on and the reported
                           reachability value of state 0 is 0;
* `no_other_error`       : the only other possible failure of the model is `outOfFuel`; in particular
                           never `malformed`, `unbound` (UnboundLocalError in Player 1's reward
                           step) or `zeroDiv` (ZeroDivisionError in the renormalisation), however
                           many zero-probability successors a state has and wherever they sit;
* `solve_outOfFuel_is_reward_loop` : under the fuel bound of `reach_terminates`, an `outOfFuel`
                           outcome of `solve` can only come from the reward loop;
* `result_complete`      : an `.ok` result carries one strategy entry, reward, probability and
                           diagnostic value per state;
* `rewards_terminate_of_ranked`, `solve_terminates_of_ranked` : the reward loop exits within
                           `R + 2` sweeps when the conditioned transition lists are acyclic apart
                           from absorbing states (`R` the maximal rank).

What is NOT proved here
* termination of the REWARD loop (`viRew`) on CYCLIC stopping games.  Its exit test
  `max(|Δ expected reward|, |Δ reward-under-min-reach|, |Δ prob-under-min-reward|) ≤ thr` also waits
  for two diagnostic quantities that are not monotone along the iteration, so the potential
  argument used for the reachability loop does not apply; moreover the theorem would need the
  stopping assumption in a quantitative form.  Consequently `outOfFuel` remains a possible outcome
  in `no_other_error`, and "never iterates forever" is established here for the reachability loop
  only; for the reward loop it rests on the correspondence / oracle checks (Python runs of the
  generated stopping games terminate and agree with the model).

Helper lemmas live in `CR/Lemmas/Term.lean`.
-/
import CR.Lemmas.Term
import CR.Props.C01
import CR.Props.C03
import CR.Props.C04
import Mathlib.Algebra.Order.Field.Rat
import Mathlib.Tactic.NormNum

set_option linter.unusedSectionVars false

namespace CR.C06

open CR CR.VI CR.Term

variable {K : Type} [Field K] [LinearOrder K] [IsStrictOrderedRing K]

/-- the documented well-formedness of a game, typed part: at least one state; one transition list
and one reward per state; rewards non-negative; at least one final state, all in range; every
state has a non-empty transition list with targets in range; the transition list of a
probabilistic state is a distribution with strictly positive weights -/
def WFull (g : Game K) : Prop :=
  0 < g.owners.size ∧ g.tl.size = g.owners.size ∧ g.rewards.size = g.owners.size ∧
  (∀ s < g.owners.size, 0 ≤ g.rewards.getD s 0) ∧
  g.finals ≠ [] ∧ (∀ f ∈ g.finals, f < g.owners.size) ∧
  (∀ s < g.owners.size, g.tl.getD s [] ≠ [] ∧ ∀ t ∈ g.tl.getD s [], t.tgt < g.owners.size) ∧
  (∀ s < g.owners.size, g.owners.getD s .prob = .prob →
    (∀ t ∈ g.tl.getD s [], 0 < t.p) ∧ ((g.tl.getD s []).map (·.p)).sum = 1)

section
variable {rnd : K → Int} {thr : K} {fuel : Nat} {prune : Bool} {g : Game K}

/-- `WFull` implies the well-formedness used by C01 -/
theorem WFull.wf (h : WFull g) : C01.WF g :=
  ⟨h.2.1, fun s hs => (h.2.2.2.2.2.2.1 s hs).2, fun s hs ho =>
    ⟨fun t ht => le_of_lt ((h.2.2.2.2.2.2.2 s hs ho).1 t ht), (h.2.2.2.2.2.2.2 s hs ho).2⟩⟩

/-- 1. validation accepts every well-formed game -/
theorem validation_passes (h : WFull g) : checkGame g = .ok () ∧ initStates g = .ok () := by
  obtain ⟨hn, htl, hr, hnn, hf, hfin, hrow, _⟩ := h
  exact ⟨checkGame_of g hn htl hr hnn hf hfin, initStates_of g htl hrow⟩

/-- 2. the reachability loop terminates: on a well-formed game, with a positive threshold, it
exits within any fuel `fuel` such that `n < fuel * thr` — pruning on or off.
(`0 < thr` is implied by the fuel bound and is listed only for readability.) -/
theorem reach_terminates (h : WFull g) (_hthr : 0 < thr) (fuel : Nat)
    (hfuel : (g.owners.size : K) < (fuel : K) * thr) (prune : Bool) :
    solveReach rnd thr fuel prune g ≠ .error .outOfFuel := by
  obtain ⟨hc, hi⟩ := validation_passes h
  have hvi := solveReach_viReach_terminates g h.2.1
    (fun s hs ho t ht => le_of_lt ((h.2.2.2.2.2.2.2 s hs ho).1 t ht))
    (fun s hs ho => (h.2.2.2.2.2.2.2 s hs ho).2) thr fuel hfuel
  rw [solveReach_eq hc hi]
  cases hv : viReach g.owners g.tl (gameOrder g) thr fuel 1 (initVec g) 0 with
  | error e =>
    have := viReach_error _ _ _ _ _ _ _ hv
    subst this
    exact absurd hv hvi
  | ok x =>
    simp only
    split_ifs <;> simp

/-- 2'. consequently, under the fuel bound, `solveReach` returns a result, or (only with pruning
on) 'no solution' -/
theorem reach_outcome (h : WFull g) (hthr : 0 < thr) (fuel : Nat)
    (hfuel : (g.owners.size : K) < (fuel : K) * thr) (prune : Bool) :
    (∃ r, solveReach rnd thr fuel prune g = .ok r) ∨
      (prune = true ∧ solveReach rnd thr fuel prune g = .error .noSolution) := by
  obtain ⟨hc, hi⟩ := validation_passes h
  have hne := reach_terminates (rnd := rnd) h hthr fuel hfuel prune
  rw [solveReach_eq hc hi] at hne ⊢
  cases hv : viReach g.owners g.tl (gameOrder g) thr fuel 1 (initVec g) 0 with
  | error e =>
    have := viReach_error _ _ _ _ _ _ _ hv
    subst this
    rw [hv] at hne
    exact absurd rfl hne
  | ok x =>
    simp only
    split_ifs with hp
    · right
      rw [Bool.and_eq_true] at hp
      exact ⟨hp.1, rfl⟩
    · left; exact ⟨_, rfl⟩

/-- every error of `solveReach` on a well-formed game is `noSolution` (only with pruning on, and
only when the reported value of state 0 is 0) or `outOfFuel` -/
theorem solveReach_error (h : WFull g) {e : Err} (he : solveReach rnd thr fuel prune g = .error e) :
    (e = .noSolution ∧ prune = true) ∨ e = .outOfFuel := by
  obtain ⟨hc, hi⟩ := validation_passes h
  rw [solveReach_eq hc hi] at he
  cases hv : viReach g.owners g.tl (gameOrder g) thr fuel 1 (initVec g) 0 with
  | error e' =>
    rw [hv] at he
    have := viReach_error _ _ _ _ _ _ _ hv
    subst this
    right; cases he; rfl
  | ok x =>
    rw [hv] at he
    simp only at he
    split_ifs at he with hp
    left
    rw [Bool.and_eq_true] at hp
    cases he
    exact ⟨rfl, hp.1⟩

/-- on a well-formed game the phases after `solveReach` (conditioning and the reward loop) can
only fail by the reward loop running out of fuel -/
theorem after_reach_error (h : WFull g) {e : Err} {ro : ReachOut K}
    (hro : solveReach rnd thr fuel prune g = .ok ro)
    (he : solve rnd thr fuel prune g = .error e) : e = .outOfFuel := by
  rcases solve_error he with hr | ⟨ro', hro', hcond | ⟨nodes, hcond, hvi⟩⟩
  · rw [hro] at hr; cases hr
  · exfalso
    obtain ⟨nodes, hn⟩ := condition_ok (g := g) h.2.1 h.2.2.2.2.2.2.2 prune ro'.strat ro'.probs
    rw [hn] at hcond; cases hcond
  · have hrew : ∀ s, 0 ≤ g.rewards.getD s 0 := by
      intro s
      by_cases hs : s < g.owners.size
      · exact h.2.2.2.1 s hs
      · rw [getD_of_size_le _ _ _ (by rw [h.2.2.1]; exact Nat.le_of_not_lt hs)]
    have hpos := condition_prob_pos (g := g) h.2.1 h.2.2.2.2.2.2.2 hcond
    exact viRew_error_outOfFuel hrew (fun s ho t ht => le_of_lt (hpos s ho t ht)) thr fuel 1 _ 0
      e hrew hvi

/-- 3. 'no solution' is raised exactly when pruning is on and the reported reachability
probability of the initial state is 0; it is never raised with pruning off -/
theorem no_solution_iff (h : WFull g) :
    (solve rnd thr fuel true g = .error .noSolution ↔
      ∃ r, solveReach rnd thr fuel false g = .ok r ∧ r.probs.getD 0 0 = 0) ∧
    solve rnd thr fuel false g ≠ .error .noSolution := by
  have key : ∀ prune, solve rnd thr fuel prune g = .error .noSolution →
      solveReach rnd thr fuel prune g = .error .noSolution := by
    intro prune he
    cases hro : solveReach rnd thr fuel prune g with
    | error e' =>
      have := solve_of_solveReach_error hro
      rw [he] at this
      cases this; rfl
    | ok ro => exact absurd (after_reach_error h hro he) (by simp)
  refine ⟨⟨fun he => ?_, fun ⟨r, hr, h0⟩ => ?_⟩, fun he => ?_⟩
  · have := key true he
    rw [solveReach_true_eq] at this
    cases hf : solveReach rnd thr fuel false g with
    | error e' => rw [hf] at this; cases this; exact absurd hf (fun hf => by
        rcases solveReach_error h hf with ⟨_, hp⟩ | hp <;> simp at hp)
    | ok r =>
      rw [hf] at this
      refine ⟨r, rfl, ?_⟩
      simp only [Except.bind] at this
      split_ifs at this with hz
      exact beq_iff_eq.mp hz
  · apply solve_of_solveReach_error
    rw [solveReach_true_eq, hr]
    simp only [Except.bind]
    rw [if_pos (beq_iff_eq.mpr h0)]
  · rcases solveReach_error h (key false he) with ⟨_, hp⟩ | hp <;> simp at hp

/-- 4. on a well-formed game the solver never fails with an error other than 'no solution' and
(in the model) fuel exhaustion: never `malformed`, `unbound` or `zeroDiv`, whatever the number and
arrangement of zero-probability states -/
theorem no_other_error (h : WFull g) {e : Err} (he : solve rnd thr fuel prune g = .error e) :
    e = .noSolution ∨ e = .outOfFuel := by
  cases hro : solveReach rnd thr fuel prune g with
  | error e' =>
    have := solve_of_solveReach_error hro
    rw [he] at this
    cases this
    rcases solveReach_error h hro with ⟨h1, _⟩ | h1
    · exact Or.inl h1
    · exact Or.inr h1
  | ok ro => exact Or.inr (after_reach_error h hro he)

/-- 4'. with the fuel bound of `reach_terminates`, fuel exhaustion can only come from the reward
loop: the reachability phase returned a result `ro`, conditioning succeeded, and `viRew` is what
ran out of fuel -/
theorem solve_outOfFuel_is_reward_loop (h : WFull g) (hthr : 0 < thr)
    (hfuel : (g.owners.size : K) < (fuel : K) * thr)
    (he : solve rnd thr fuel prune g = .error .outOfFuel) :
    ∃ ro nodes, solveReach rnd thr fuel prune g = .ok ro ∧
      condition prune g ro.strat ro.probs = .ok nodes ∧
      viRew rnd g.owners g.rewards nodes ro.probs thr fuel 1
        { er := g.rewards, ermr := g.rewards, pmr := ro.probs } 0 = .error .outOfFuel := by
  rcases solve_error he with hr | ⟨ro, hro, hcond | ⟨nodes, hcond, hvi⟩⟩
  · exact absurd hr (reach_terminates h hthr fuel hfuel prune)
  · exfalso
    obtain ⟨nodes, hn⟩ := condition_ok (g := g) h.2.1 h.2.2.2.2.2.2.2 prune ro.strat ro.probs
    rw [hn] at hcond; cases hcond
  · exact ⟨ro, nodes, hro, hcond, hvi⟩

/-- 5. an `.ok` result is complete: one entry per state in every reported vector -/
theorem result_complete {out : SolveOut K} (h : solve rnd thr fuel prune g = .ok out) :
    out.finalStrat.size = g.owners.size ∧ out.reachStrat.size = g.owners.size ∧
    out.rewards.size = g.owners.size ∧ out.probs.size = g.owners.size ∧
    out.probMinRew.size = g.owners.size ∧ out.rewMinReach.size = g.owners.size := by
  obtain ⟨ro, v, j, hro, _, hvi, h1, h2, h3, h4, h5, h6⟩ := solve_ok h
  obtain ⟨hc, hstrat⟩ := solveReach_ok_inv hro
  have hrs := checkGame_rewards_size hc
  have hps := C01.reach_size hro
  obtain ⟨s1, s2, s3⟩ := viRew_sizes _ _ _ _ _ _ hvi
  simp only at s1 s2 s3
  refine ⟨?_, ?_, ?_, ?_, ?_, ?_⟩
  · rw [h1]; exact rewardStrategies_size _ _ _ _
  · rw [h2, hstrat]; exact reachStrategies_size _ _ _ _
  · rw [h3, s1, hrs]
  · rw [h4, hps]
  · rw [h5, s3, hps]
  · rw [h6, s2, hrs]

/-! ### 6 (partial result on the reward loop): termination on ranked node lists -/

/-- an absorbing state of a node list: probabilistic, reward 0, and its only transition is a
self-loop of probability 1 (this is how final states and sinks are written) -/
def Absorbing (o : Array Owner) (rewards : Array K) (nodes : Array (List (Tr K))) (s : Nat) :
    Prop :=
  o.getD s .prob = .prob ∧ rewards.getD s 0 = 0 ∧
    ∃ t, nodes.getD s [] = [t] ∧ t.tgt = s ∧ t.p = 1

/-- 6. the reward loop on node lists that are acyclic apart from absorbing states.  Let every
non-absorbing state `s` have all its successors in range and either absorbing or of strictly
smaller rank (`rk`, bounded by `R`).  With non-negative rewards, non-negative probabilities,
non-negative initial expected rewards, vectors of length `n`, threshold `≥ 0` and `fuel ≥ R + 2`,
the reward loop — started from ANY `diff`, vectors and counter — returns a result after at most
`R + 2` sweeps.  (Invariant, `Term.viRew_ranked_aux` / `Term.stab_sweep`: after `k` sweeps every
state that is absorbing or of rank `< k` is settled in all three tracked vectors — re-evaluating it
reproduces its value, and no later sweep changes it; after `R + 1` sweeps all states are settled
and sweep `R + 2` reports `diff = 0`.) -/
theorem rewards_terminate_of_ranked {o : Array Owner} {rewards : Array K}
    {nodes : Array (List (Tr K))} {reach : Array K} (rk : Nat → Nat) (R : Nat)
    (hR : ∀ s < o.size, rk s ≤ R)
    (hrank : ∀ s < o.size, ¬ Absorbing o rewards nodes s → ∀ t ∈ nodes.getD s [],
      t.tgt < o.size ∧ (Absorbing o rewards nodes t.tgt ∨ rk t.tgt < rk s))
    (hr : ∀ s, 0 ≤ rewards.getD s 0)
    (hp : ∀ s, o.getD s .prob = .prob → ∀ t ∈ nodes.getD s [], 0 ≤ t.p)
    (hthr : 0 ≤ thr) (hfuel : R + 2 ≤ fuel) (diff : K) (v : RewVecs K) (i : Nat)
    (hsz : v.er.size = o.size ∧ v.ermr.size = o.size ∧ v.pmr.size = o.size)
    (hv : ∀ j, 0 ≤ v.er.getD j 0) :
    ∃ r, viRew rnd o rewards nodes reach thr fuel diff v i = .ok r ∧ r.2 ≤ i + (R + 2) :=
  viRew_ranked rfl (Absorbing o rewards nodes) rk R hR
    (fun s _ ⟨ho, hr0, t, hrow, ht, hp1⟩ w => stepRew_absorbing s ho hr0 t hrow ht hp1 w)
    hrank hr hp thr hthr fuel hfuel diff v i hsz hv

/-- 6'. the same for the whole pipeline: on a well-formed game whose CONDITIONED node lists are
acyclic apart from absorbing states (rank bounded by `R`), if the reachability phase returned a
result and `fuel ≥ R + 2`, `thr ≥ 0`, then `solve` returns a result, after at most `R + 2` sweeps
of the reward loop -/
theorem solve_terminates_of_ranked (h : WFull g) {ro : ReachOut K} {nodes : Array (List (Tr K))}
    (hro : solveReach rnd thr fuel prune g = .ok ro)
    (hcond : condition prune g ro.strat ro.probs = .ok nodes)
    (rk : Nat → Nat) (R : Nat) (hR : ∀ s < g.owners.size, rk s ≤ R)
    (hrank : ∀ s < g.owners.size, ¬ Absorbing g.owners g.rewards nodes s →
      ∀ t ∈ nodes.getD s [], Absorbing g.owners g.rewards nodes t.tgt ∨ rk t.tgt < rk s)
    (hthr : 0 ≤ thr) (hfuel : R + 2 ≤ fuel) :
    ∃ out, solve rnd thr fuel prune g = .ok out ∧ out.nodes = nodes ∧ out.itRew ≤ R + 2 := by
  have hrew : ∀ s, 0 ≤ g.rewards.getD s 0 := by
    intro s
    by_cases hs : s < g.owners.size
    · exact h.2.2.2.1 s hs
    · rw [getD_of_size_le _ _ _ (by rw [h.2.2.1]; exact Nat.le_of_not_lt hs)]
  have hpos := condition_prob_pos (g := g) h.2.1 h.2.2.2.2.2.2.2 hcond
  have htgt := condition_tgt_mem (g := g) h.2.1 hcond
  obtain ⟨⟨v, j⟩, hvi, hj⟩ := rewards_terminate_of_ranked (rnd := rnd) (reach := ro.probs) rk R hR
    (fun s hs hna t ht => by
      obtain ⟨t', ht', he⟩ := htgt s t ht
      exact ⟨he ▸ (h.2.2.2.2.2.2.1 s hs).2 t' ht', hrank s hs hna t ht⟩)
    hrew (fun s ho t ht => le_of_lt (hpos s ho t ht)) hthr hfuel 1
    { er := g.rewards, ermr := g.rewards, pmr := ro.probs } 0
    ⟨h.2.2.1, h.2.2.1, C01.reach_size hro⟩ hrew
  exact ⟨_, solve_of_parts hro hcond hvi, rfl, by simpa using hj⟩

end

/-! ### non-vacuity

`exGame` (over `Rat`): states 0 and 1 form a probabilistic cycle (0 → 1 → 0, and 0 → 5 → 1 → 0 through
the Player-1 state 5); state 2 is final and absorbing; states 3 (probabilistic) and 4 (Player 2)
are absorbing sinks with reachability value 0.  State 0 has the two dead successors 3 and 4,
separated by a live one; the Player-1 state 5 has the dead successor 3. -/

section NonVacuity

private def tr (a : String) (p : Rat) (t : Nat) : Tr Rat := { act := a, p := p, tgt := t }

private def exGame : Game Rat :=
  { rewards := #[1, 2, 0, 0, 0, 1]
    owners := #[.prob, .prob, .prob, .prob, .p2, .p1]
    tl := #[ [tr "" (1/4) 3, tr "" (1/4) 1, tr "" (1/4) 4, tr "" (1/4) 5],
             [tr "" (1/2) 0, tr "" (1/2) 2],
             [tr "" 1 2],
             [tr "" 1 3],
             [tr "x" 0 4],
             [tr "a" 0 1, tr "b" 0 3] ]
    finals := [2] }

/-- `WFull` is satisfiable by a game with a probabilistic cycle and two dead successors -/
private theorem exWF : WFull exGame := by
  unfold WFull
  decide +kernel

example : WFull exGame := exWF

/-- the fuel bound of `reach_terminates` is satisfiable: 6 states, threshold 1/10, fuel 61 -/
example : ((exGame.owners.size : Nat) : Rat) < ((61 : Nat) : Rat) * (1/10) := by
  norm_num [exGame]

/-- `reach_terminates` instantiated -/
example (rnd : Rat → Int) (prune : Bool) :
    solveReach rnd (1/10) 61 prune exGame ≠ .error .outOfFuel :=
  reach_terminates exWF (by norm_num) 61 (by norm_num [exGame]) prune

/-- `reverseDfs` is defined by well-founded recursion and does not reduce in the kernel; its value
on `exGame` is computed by rewriting with the equation lemmas -/
private theorem exOrd :
    reverseDfs (exGame.tl.toList.map (fun row => row.map (·.tgt))) exGame.finals = [0, 1, 5] := by
  have hrev : revTable (exGame.tl.toList.map (fun row => row.map (·.tgt)))
      = #[[1], [0, 5], [1, 2], [0, 3, 5], [0, 4], [0]] := by decide +kernel
  have hdfs : dfsLoop #[[1], [0, 5], [1, 2], [0, 3, 5], [0, 4], [0]] [2] [] = [5, 0, 1, 2] := by
    simp [dfsLoop]
  unfold reverseDfs
  rw [hrev]
  simp only [exGame, List.foldl_cons, List.foldl_nil, hdfs]
  simp [List.mergeSort]

/-- the hypothesis of `result_complete` is satisfiable, pruning on: the solver returns a result on
the cyclic game with dead successors; both dead successors of state 0 are removed and the two
survivors renormalised to 1/2 each -/
example : ∃ out, solve (roundRat 6) (1/10 : Rat) 61 true exGame = .ok out ∧
    (out.probs, out.itReach, out.itRew, out.nodes) =
      (#[5/16, 21/32, 1, 0, 0, 21/32], 3, 7,
       #[[tr "" (1/2) 1, tr "" (1/2) 5], [tr "" (1/2) 0, tr "" (1/2) 2], [tr "" 1 2], [],
         [tr "x" 0 4], [tr "a" 0 1]]) :=
  Examples.exists_ok_of_toOption_map (by unfold solve solveReach; rw [exOrd]; decide +kernel)

/-- ... and pruning off -/
example : ∃ out, solve (roundRat 6) (1/10 : Rat) 61 false exGame = .ok out ∧
    (out.probs, out.itReach, out.itRew) = (#[5/16, 21/32, 1, 0, 0, 21/32], 3, 4) :=
  Examples.exists_ok_of_toOption_map (by unfold solve solveReach; rw [exOrd]; decide +kernel)

/-- a well-formed game whose initial state has reachability value 0: state 0 loops or falls into
the sink 2; state 1 is final -/
private def exDead : Game Rat :=
  { rewards := #[1, 0, 0]
    owners := #[.prob, .prob, .prob]
    tl := #[[tr "" (1/2) 0, tr "" (1/2) 2], [tr "" 1 1], [tr "" 1 2]]
    finals := [1] }

private theorem exDeadWF : WFull exDead := by
  unfold WFull
  decide +kernel

private theorem exDeadOrd :
    reverseDfs (exDead.tl.toList.map (fun row => row.map (·.tgt))) exDead.finals = [] := by
  have hrev : revTable (exDead.tl.toList.map (fun row => row.map (·.tgt)))
      = #[[0], [1], [0, 2]] := by decide +kernel
  have hdfs : dfsLoop #[[0], [1], [0, 2]] [1] [] = [1] := by
    simp [dfsLoop]
  unfold reverseDfs
  rw [hrev]
  simp only [exDead, List.foldl_cons, List.foldl_nil, hdfs]
  simp

/-- both sides of `no_solution_iff` are satisfiable: with pruning on the solver raises 'no
solution' on `exDead`, with pruning off it returns a result -/
example : WFull exDead ∧
    solve (roundRat 6) (1/10 : Rat) 31 true exDead = .error .noSolution ∧
    ∃ r, solveReach (roundRat 6) (1/10 : Rat) 31 false exDead = .ok r ∧ r.probs.getD 0 0 = 0 := by
  have hr : ∃ r, solveReach (roundRat 6) (1/10 : Rat) 31 false exDead = .ok r ∧
      r.probs.getD 0 0 = 0 :=
    Examples.exists_ok_of_toOption_map (f := fun (r : ReachOut Rat) => r.probs.getD 0 0)
      (by unfold solveReach; rw [exDeadOrd]; decide +kernel)
  exact ⟨exDeadWF, (no_solution_iff exDeadWF).1.mpr hr, hr⟩

example : ∃ out, solve (roundRat 6) (1/10 : Rat) 31 false exDead = .ok out ∧
    out.probs = #[0, 1, 0] :=
  Examples.exists_ok_of_toOption_map (by unfold solve solveReach; rw [exDeadOrd]; decide +kernel)

/-! the hypotheses of `rewards_terminate_of_ranked` are satisfiable: the conditioned node lists of
the acyclic game "0 (Player 1) → 1 (probabilistic) → ½ final state 2, ½ sink 3" after pruning
(the dead branch to 3 is removed, 3 is emptied); ranks 2, 1, 0, 0; state 2 is absorbing -/

private def exO : Array Owner := #[.p1, .prob, .prob, .prob]
private def exR : Array Rat := #[1, 2, 0, 0]
private def exN : Array (List (Tr Rat)) := #[[tr "a" 0 1], [tr "" 1 2], [tr "" 1 2], []]

example : ∃ r, viRew (roundRat 6) exO exR exN #[1/2, 1/2, 1, 0] (1/10 : Rat) 4 1
    { er := exR, ermr := exR, pmr := #[1/2, 1/2, 1, 0] } 0 = .ok r ∧ r.2 ≤ 0 + (2 + 2) := by
  refine rewards_terminate_of_ranked (fun s => 2 - s) 2 (by decide) ?_ ?_ ?_ (by norm_num)
    (le_refl _) 1 _ 0 ⟨rfl, rfl, rfl⟩ ?_
  · intro s hs hna t ht
    have hs' : s < 4 := hs
    have : s = 0 ∨ s = 1 ∨ s = 2 ∨ s = 3 := by omega
    rcases this with rfl | rfl | rfl | rfl
    · simp [exN, tr] at ht; subst ht; exact ⟨by decide, Or.inr (by decide)⟩
    · simp [exN, tr] at ht; subst ht; exact ⟨by decide, Or.inr (by decide)⟩
    · exact absurd ⟨rfl, rfl, tr "" 1 2, rfl, rfl, rfl⟩ hna
    · simp [exN] at ht
  · intro s
    by_cases hs : s < 4
    · have : s = 0 ∨ s = 1 ∨ s = 2 ∨ s = 3 := by omega
      rcases this with rfl | rfl | rfl | rfl <;> simp [exR]
    · simp [exR, Array.getD, hs]
  · intro s _ t ht
    by_cases hs : s < 4
    · have : s = 0 ∨ s = 1 ∨ s = 2 ∨ s = 3 := by omega
      rcases this with rfl | rfl | rfl | rfl <;> simp [exN, tr] at ht <;> subst ht <;> simp
    · simp [exN, Array.getD, hs] at ht
  · intro j
    show 0 ≤ exR.getD j 0
    by_cases hs : j < 4
    · have : j = 0 ∨ j = 1 ∨ j = 2 ∨ j = 3 := by omega
      rcases this with rfl | rfl | rfl | rfl <;> simp [exR]
    · simp [exR, Array.getD, hs]

end NonVacuity

end CR.C06
