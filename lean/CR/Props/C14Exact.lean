/-
Property C14, exact form: the two diagnostic outputs of `solve` when the last sweep of the reward
loop changed nothing.

`C14.diag_consistency_*` bound the distance between the reported diagnostics and their update
equations by the threshold.  If the last sweep reported change `0`, the bound is `0`: at every
state the reported triple (expected reward, "rewards under minimal reachability", "probabilities
under minimal reward") is an EXACT fixed point of the model's step function `stepRew`, and the
closed forms of `C14.diag_step_*` become equations between reported numbers — in particular the
diagnostics of a player state follow the REPORTED final action.  Arbitrary linearly ordered
field `K`, rounding function, threshold, fuel and pruning flag.
-/
import CR.Props.C14
import CR.Props.C02

set_option linter.unusedSectionVars false

namespace CR.C14

open CR CR.VI CR.Rew

variable {K : Type} [Field K] [LinearOrder K] [IsStrictOrderedRing K]
variable {rnd : K → Int} {thr : K} {fuel : Nat} {prune : Bool} {g : Game K} {out : SolveOut K}

/-- a sweep with reported change `0` leaves all three vectors unchanged, entry by entry -/
theorem sweep_zero_unchanged
    (v : RewVecs K)
    (hsw : sweepRew rnd g.owners g.rewards out.nodes out.probs v =
      .ok ({ er := out.rewards, ermr := out.rewMinReach, pmr := out.probMinRew }, 0)) :
    ∀ j, v.er.getD j 0 = out.rewards.getD j 0 ∧ v.ermr.getD j 0 = out.rewMinReach.getD j 0 ∧
      v.pmr.getD j 0 = out.probMinRew.getD j 0 := by
  intro j
  have h1 := sweepRew_change_le Comp.er hsw j
  have h2 := sweepRew_change_le Comp.ermr hsw j
  have h3 := sweepRew_change_le Comp.pmr hsw j
  exact ⟨(sub_eq_zero.mp (abs_nonpos_iff.mp h1)).symm, (sub_eq_zero.mp (abs_nonpos_iff.mp h2)).symm,
    (sub_eq_zero.mp (abs_nonpos_iff.mp h3)).symm⟩

/-- **C14, exact form.**  If the reported vectors are the result of a sweep with reported change
`0` (started from any vectors `v`; by `sweep_zero_unchanged` these are then the reported ones), the
reported triple of every state is an exact fixed point of the step function: recomputing the
state's three quantities from the reported vectors gives the reported values again -/
theorem diag_fixed_of_exact (hwf : NodesWF g.owners out.nodes)
    (H : solve rnd thr fuel prune g = .ok out) (v : RewVecs K)
    (hsw : sweepRew rnd g.owners g.rewards out.nodes out.probs v =
      .ok ({ er := out.rewards, ermr := out.rewMinReach, pmr := out.probMinRew }, 0))
    (s : Nat) (hs : s < g.owners.size) :
    stepRew rnd g.owners g.rewards out.nodes out.probs
        { er := out.rewards, ermr := out.rewMinReach, pmr := out.probMinRew } s =
      .ok (out.rewards.getD s 0, out.rewMinReach.getD s 0, out.probMinRew.getD s 0) := by
  obtain ⟨⟨e, m, p⟩, hst⟩ := diag_step_ok hwf H s
  obtain ⟨h1, h2⟩ := diag_residual hwf H v 0 hsw s hs
    (Or.inr (fun j => (sweep_zero_unchanged v hsw j).1)) e m p hst
  have he : e = out.rewards.getD s 0 := by
    rw [C02.stepRew_fst rnd g.owners g.rewards out.nodes out.probs _ s e m p hst]
    exact C02.rew_fixed_point_of_zero_diff hwf H v hsw s hs
  rw [hst, he, sub_eq_zero.mp (abs_nonpos_iff.mp h1), sub_eq_zero.mp (abs_nonpos_iff.mp h2)]

/-- the hypothesis in the form "`w` is the reported triple and `sweepRew … w = .ok (w, 0)`" -/
theorem diag_fixed_of_exact' (hwf : NodesWF g.owners out.nodes)
    (H : solve rnd thr fuel prune g = .ok out) (w : RewVecs K)
    (hw : w = { er := out.rewards, ermr := out.rewMinReach, pmr := out.probMinRew })
    (hsw : sweepRew rnd g.owners g.rewards out.nodes out.probs w = .ok (w, 0))
    (s : Nat) (hs : s < g.owners.size) :
    stepRew rnd g.owners g.rewards out.nodes out.probs w s =
      .ok (out.rewards.getD s 0, out.rewMinReach.getD s 0, out.probMinRew.getD s 0) := by
  subst hw
  exact diag_fixed_of_exact hwf H _ hsw s hs

/-- **Player 1, the diagnostics follow the REPORTED action.**  For a Player-1 state whose
reported final strategy is the single action `a`, carried by exactly one transition `u` of the
state's conditioned row, and a monotone rounding function: the state's "rewards under minimal
reachability" are those of `u`'s target plus the state's reward, and its "probabilities under
minimal reward" are those of `u`'s target — exactly -/
theorem diag_fixed_p1_reported (hwf : NodesWF g.owners out.nodes)
    (hmono : ∀ x y, x ≤ y → rnd x ≤ rnd y)
    (H : solve rnd thr fuel prune g = .ok out) (v : RewVecs K)
    (hsw : sweepRew rnd g.owners g.rewards out.nodes out.probs v =
      .ok ({ er := out.rewards, ermr := out.rewMinReach, pmr := out.probMinRew }, 0))
    (s : Nat) (ho : g.owners.getD s .prob = .p1) (a : String)
    (hfin : out.finalStrat.getD s none = some [a]) (u : Tr K)
    (huniq : (out.nodes.getD s []).filter (fun t => t.act == a) = [u]) :
    out.rewMinReach.getD s 0 = out.rewMinReach.getD u.tgt 0 + g.rewards.getD s 0 ∧
    out.probMinRew.getD s 0 = out.probMinRew.getD u.tgt 0 := by
  have hs : s < g.owners.size := owner_lt_size (by rw [ho]; simp)
  have hst := diag_fixed_of_exact hwf H v hsw s hs
  have hbest : bestStrat rnd out.rewards (out.nodes.getD s []) = [a] := by
    obtain ⟨_, _, _, _, _, _, _, hf⟩ := solve_ok_full H
    rw [hf, rewardStrategies_getD, ho] at hfin
    exact Option.some.inj hfin
  exact diag_step_p1_reported rnd g.owners g.rewards out.nodes out.probs hmono
    { er := out.rewards, ermr := out.rewMinReach, pmr := out.probMinRew } s ho a hbest u huniq
    _ _ _ hst

/-- **Player 2, "probabilities under minimal reward" follow the REPORTED action.**  For a
Player-2 state whose reported final strategy is the single action `a`, carried by exactly one
transition `u` of the state's conditioned row, and a monotone rounding function: the state's
expected reward is that of `u`'s target plus the state's reward and its "probabilities under
minimal reward" are those of `u`'s target — exactly -/
theorem diag_fixed_p2_reported (hwf : NodesWF g.owners out.nodes)
    (hmono : ∀ x y, x ≤ y → rnd x ≤ rnd y)
    (H : solve rnd thr fuel prune g = .ok out) (v : RewVecs K)
    (hsw : sweepRew rnd g.owners g.rewards out.nodes out.probs v =
      .ok ({ er := out.rewards, ermr := out.rewMinReach, pmr := out.probMinRew }, 0))
    (s : Nat) (ho : g.owners.getD s .prob = .p2) (a : String)
    (hfin : out.finalStrat.getD s none = some [a]) (u : Tr K)
    (huniq : (out.nodes.getD s []).filter (fun t => t.act == a) = [u]) :
    out.rewards.getD s 0 = out.rewards.getD u.tgt 0 + g.rewards.getD s 0 ∧
    out.probMinRew.getD s 0 = out.probMinRew.getD u.tgt 0 := by
  have hs : s < g.owners.size := owner_lt_size (by rw [ho]; simp)
  have hst := diag_fixed_of_exact hwf H v hsw s hs
  have hworst : worstStratRew rnd out.rewards (out.nodes.getD s []) = [a] := by
    obtain ⟨_, _, _, _, _, _, _, hf⟩ := solve_ok_full H
    rw [hf, rewardStrategies_getD, ho] at hfin
    exact Option.some.inj hfin
  exact diag_step_p2_reported rnd g.owners g.rewards out.nodes out.probs hmono
    { er := out.rewards, ermr := out.rewMinReach, pmr := out.probMinRew } s ho a hworst u huniq
    _ _ _ hst

/-- **Player 2, "rewards under minimal reachability" in closed form.**  For a Player-2 state
that kept transitions, the reported value is `_expected_rewards_min_reach` evaluated at the
reported vector: `0` if no transition carries an action of the state's REACHABILITY arg-min
list, otherwise the state's reward plus the least reported value among the targets of those
transitions (`C14.p2RewMinReach_spec`) — exactly -/
theorem diag_fixed_p2_ermr (hwf : NodesWF g.owners out.nodes)
    (H : solve rnd thr fuel prune g = .ok out) (v : RewVecs K)
    (hsw : sweepRew rnd g.owners g.rewards out.nodes out.probs v =
      .ok ({ er := out.rewards, ermr := out.rewMinReach, pmr := out.probMinRew }, 0))
    (s : Nat) (ho : g.owners.getD s .prob = .p2) (hne : out.nodes.getD s [] ≠ []) :
    out.rewMinReach.getD s 0 =
      p2RewMinReach (g.rewards.getD s 0) out.rewMinReach (out.nodes.getD s [])
        (worstStratFrom rnd (rnd 1) out.probs (out.nodes.getD s [])) := by
  have hs : s < g.owners.size := owner_lt_size (by rw [ho]; simp)
  have hst := diag_fixed_of_exact hwf H v hsw s hs
  obtain ⟨e, m, p, hst', hm, _⟩ := diag_step_p2 rnd g.owners g.rewards out.nodes out.probs
    { er := out.rewards, ermr := out.rewMinReach, pmr := out.probMinRew } s hne ho
  rw [hst] at hst'
  injection hst' with h
  injection h with _ h
  injection h with h _
  rw [h, hm]

/-- **Probabilistic states: the weighted sums.**  For a probabilistic state that kept
transitions all three reported quantities are the probability-weighted sums of the reported
quantities of the successors (plus the state's reward for the two reward quantities) — exactly -/
theorem diag_fixed_prob (hwf : NodesWF g.owners out.nodes)
    (H : solve rnd thr fuel prune g = .ok out) (v : RewVecs K)
    (hsw : sweepRew rnd g.owners g.rewards out.nodes out.probs v =
      .ok ({ er := out.rewards, ermr := out.rewMinReach, pmr := out.probMinRew }, 0))
    (s : Nat) (hs : s < g.owners.size) (ho : g.owners.getD s .prob = .prob)
    (hne : out.nodes.getD s [] ≠ []) :
    out.rewards.getD s 0 = g.rewards.getD s 0 +
      ((out.nodes.getD s []).map (fun t => out.rewards.getD t.tgt 0 * t.p)).sum ∧
    out.rewMinReach.getD s 0 = g.rewards.getD s 0 +
      ((out.nodes.getD s []).map (fun t => out.rewMinReach.getD t.tgt 0 * t.p)).sum ∧
    out.probMinRew.getD s 0 =
      ((out.nodes.getD s []).map (fun t => out.probMinRew.getD t.tgt 0 * t.p)).sum := by
  have hst := diag_fixed_of_exact hwf H v hsw s hs
  rw [diag_step_prob rnd g.owners g.rewards out.nodes out.probs _ s hne ho] at hst
  injection hst with h
  injection h with h1 h
  injection h with h2 h3
  exact ⟨h1.symm, h2.symm, h3.symm⟩

/-- **Emptied states** report `0` for all three quantities (no condition on the threshold) -/
theorem diag_fixed_emptied (hwf : NodesWF g.owners out.nodes)
    (H : solve rnd thr fuel prune g = .ok out) (v : RewVecs K)
    (hsw : sweepRew rnd g.owners g.rewards out.nodes out.probs v =
      .ok ({ er := out.rewards, ermr := out.rewMinReach, pmr := out.probMinRew }, 0))
    (s : Nat) (hs : s < g.owners.size) (hrow : out.nodes.getD s [] = []) :
    out.rewards.getD s 0 = 0 ∧ out.rewMinReach.getD s 0 = 0 ∧ out.probMinRew.getD s 0 = 0 := by
  have hst := diag_fixed_of_exact hwf H v hsw s hs
  rw [diag_step_nil rnd g.owners g.rewards out.nodes out.probs _ s hrow] at hst
  injection hst with h
  injection h with h1 h
  injection h with h2 h3
  exact ⟨h1.symm, h2.symm, h3.symm⟩

/-! ### non-vacuity: all hypotheses hold together on the concrete run of `g7` over `Rat` -/

section NonVacuity
open CR.Examples CR.Rew.Examples

/-- on the run of `g7` (pruning on) the last sweep changed nothing; the Player-1 state 3 reports
the single action `gamma`, carried by the transition to state 5: its diagnostics are exactly
those of state 5 (plus its reward 2); the probabilistic state 1 satisfies the weighted-sum
equations; the emptied state 2 reports zeros -/
example : ∃ out, solve (roundRat 6) Examples.thr 1000 true g7 = .ok out ∧
    (∀ s < g7.owners.size,
      stepRew (roundRat 6) g7.owners g7.rewards out.nodes out.probs
        { er := out.rewards, ermr := out.rewMinReach, pmr := out.probMinRew } s =
      .ok (out.rewards.getD s 0, out.rewMinReach.getD s 0, out.probMinRew.getD s 0)) ∧
    (out.rewMinReach.getD 3 0 = out.rewMinReach.getD 5 0 + g7.rewards.getD 3 0 ∧
      out.probMinRew.getD 3 0 = out.probMinRew.getD 5 0) ∧
    out.probMinRew.getD 1 0 =
      ((out.nodes.getD 1 []).map (fun t => out.probMinRew.getD t.tgt 0 * t.p)).sum ∧
    out.rewards.getD 2 0 = 0 := by
  obtain ⟨out, H, h1, h2, h3, _, h5, h6, h7⟩ := g7_run
  have hwf : NodesWF g7.owners out.nodes := by rw [h6]; exact g7_wf
  have hsw : sweepRew (roundRat 6) g7.owners g7.rewards out.nodes out.probs
      { er := out.rewards, ermr := out.rewMinReach, pmr := out.probMinRew } =
      .ok ({ er := out.rewards, ermr := out.rewMinReach, pmr := out.probMinRew }, 0) := by
    rw [h1, h2, h3, h5, h6]; exact g7_sweep
  refine ⟨out, H, fun s hs => diag_fixed_of_exact hwf H _ hsw s hs, ?_, ?_, ?_⟩
  · exact diag_fixed_p1_reported hwf (roundRat_mono 6) H _ hsw 3 rfl "gamma" (by rw [h7]; rfl)
      (tr "gamma" 0 5) (by rw [h6]; decide +kernel)
  · exact (diag_fixed_prob hwf H _ hsw 1 (by decide) rfl (by rw [h6]; decide +kernel)).2.2
  · exact (diag_fixed_emptied hwf H _ hsw 2 (by decide) (by rw [h6]; rfl)).1

end NonVacuity

end CR.C14
