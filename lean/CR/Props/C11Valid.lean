/-
C11, dynamically typed form: the generated games obey the DOCUMENTED rules of the solver.

`C11.gen_validates` shows that the generated games pass the solver's TYPED validation.  The
solver, however, validates the dynamically typed description the generator writes into the
`.py` file (`CR/Model/Validate.lean`: `validate`, characterised by `C09.DocWellFormed`).  This
file renders a generated game as such a description (`GenGame.toPy`) and proves that for every
well-formed board and ALL `Float` parameters (no range condition on the probabilities is needed
for the documented rules — they do not constrain the probability values) the description is
`DocWellFormed`, hence accepted by `validate`, hence `solvePy` on it is `solve` on the denoted
typed game, for which the typed validation cannot fail either (`C09Typed`).

Rendering conventions (`GenGame.toPy`): rewards and final states as Python `int`s, players as the
three documented strings, every row as a `list` of 2-`tuple`s `(label, int target)` where the label
is the action name (`str`) for player states and the probability for probabilistic states.  The
generator writes the integer literal `1` for certain transitions and a `float` otherwise; both are
accepted by `isinstance(x, (int, float))` (`isNumber`), and the rendering uses `.float p`
throughout.  The lemmas about rows come from `CR/Lemmas/Grid.lean`, which is generic in the
number type (`[Sub α] [OfNat α 0] [OfNat α 1]`), so they apply to `α := Float`.
-/
import CR.Props.C09Typed
import CR.Props.C08

namespace CR.Gen

open CR CR.Py

/-- the documented player string of an owner -/
def ownerName : Owner → String
  | .p1 => "Player 1"
  | .p2 => "Player 2"
  | .prob => "Probabilistic"

/-- one transition as the generator writes it: `(probability, target)` for a probabilistic
state, `(action, target)` for a player state -/
def trToPy (o : Owner) (t : Tr Float) : PyVal :=
  .tuple [match o with
          | .prob => .float t.p
          | _ => .str t.act,
          .int t.tgt]

/-- a generated game as the dynamically typed description written into the `.py` file -/
def GenGame.toPy (g : GenGame Float) : PyGame :=
  { rewards := g.rewards.map (fun r => .int (r : Nat))
    players := g.owners.map ownerName
    tl := (g.owners.zip g.tl).map (fun (o, row) => .list (row.map (trToPy o)))
    finals := g.finals.map (fun f => ((f : Nat) : Int)) }

end CR.Gen

namespace CR.C11

open CR CR.Py CR.Gen CR.Roborta CR.GridLemmas
open CR.C08 (N)

/-! ### the rendering is faithful -/

/-- `playerOf` reads the rendered owner back -/
theorem playerOf_ownerName (o : Owner) : playerOf (ownerName o) = some o := by
  cases o <;> decide

/-- the rendered description has the sizes of the generated game -/
theorem toPy_sizes (g : GenGame Float) :
    g.toPy.players.length = g.owners.length ∧ g.toPy.rewards.length = g.rewards.length ∧
    g.toPy.tl.length = min g.owners.length g.tl.length ∧ g.toPy.finals.length = g.finals.length := by
  simp [GenGame.toPy, List.length_zip]

/-- the rendered row of state `k` -/
theorem toPy_row (g : GenGame Float) (k : Nat) (hk : k < g.owners.length) (hk' : k < g.tl.length) :
    g.toPy.tl.getD k .none = .list ((g.tl.getD k []).map (trToPy (g.owners.getD k .prob))) := by
  have h1 : k < min g.owners.length g.tl.length := by omega
  simp [GenGame.toPy, List.getD_eq_getElem?_getD, List.length_zip, hk, hk', h1]

/-- the rendered player of state `k` -/
theorem toPy_player (g : GenGame Float) (k : Nat) (hk : k < g.owners.length) :
    g.toPy.players.getD k "" = ownerName (g.owners.getD k .prob) := by
  simp [GenGame.toPy, List.getD_eq_getElem?_getD, hk]

/-- reading the description back (`toGame`) gives the owners, final states, targets, action names
of player states and probabilities of probabilistic states of the generated game; the slot the
solver never looks at (probability of a player transition, name of a probabilistic one) is
normalised to `0` / `""` -/
theorem toGame_toPy (g : GenGame Float) (hlen : g.owners.length = g.tl.length) :
    (toGame g.toPy).owners = g.owners.toArray ∧
    (toGame g.toPy).finals = g.finals ∧
    (toGame g.toPy).rewards = (g.rewards.map Float.ofNat).toArray ∧
    ∀ k < g.owners.length, (toGame g.toPy).tl.getD k [] =
      (g.tl.getD k []).map (fun t =>
        match g.owners.getD k .prob with
        | .prob => { act := "", p := t.p, tgt := t.tgt }
        | _ => { act := t.act, p := 0, tgt := t.tgt }) := by
  have hown : (g.owners.map ownerName).map (fun p => (playerOf p).getD .prob) = g.owners := by
    rw [List.map_map]
    conv => rhs; rw [← List.map_id g.owners]
    apply List.map_congr_left
    intro o _
    simp [playerOf_ownerName]
  refine ⟨?_, ?_, ?_, ?_⟩
  · simp only [toGame, GenGame.toPy]; rw [hown]
  · simp only [toGame, GenGame.toPy, List.map_map]
    conv => rhs; rw [← List.map_id g.finals]
    apply List.map_congr_left
    intro f _
    simp
  · simp only [toGame, GenGame.toPy, List.map_map]
    congr 1
  · intro k hk
    have hk' : k < g.tl.length := by omega
    have hkp : k < g.toPy.players.length := by rw [(toPy_sizes g).1]; exact hk
    have hkt : k < g.toPy.tl.length := by rw [(toPy_sizes g).2.2.1]; omega
    rw [C09.toGame_row g.toPy k hkp hkt, toPy_row g k hk hk', toPy_player g k hk,
      playerOf_ownerName]
    simp only [Option.getD_some, rowOf, List.map_map]
    apply List.map_congr_left
    intro t _
    cases g.owners.getD k .prob <;> simp [trOf, trToPy, probOf, asInt]

/-! ### the documented rules -/

/-- **a game with one row, reward and owner per state, a non-empty list of final states in
range and non-empty rows with targets in range renders to a documented description** — whatever
the probability values are -/
theorem toPy_doc_wellformed (g : GenGame Float) (h1 : g.tl.length = g.owners.length)
    (h2 : g.rewards.length = g.owners.length) (h3 : g.finals ≠ [])
    (h4 : ∀ f ∈ g.finals, f < g.owners.length)
    (h5 : ∀ row ∈ g.tl, row ≠ [] ∧ ∀ t ∈ row, t.tgt < g.owners.length) :
    C09.DocWellFormed g.toPy := by
  obtain ⟨sp, sr, st, _⟩ := toPy_sizes g
  refine ⟨by rw [st, sp, h1, Nat.min_self], by rw [sr, sp, h2], ?_, ?_, ?_, ?_, ?_⟩
  · intro r hr
    simp only [GenGame.toPy, List.mem_map] at hr
    obtain ⟨n, _, rfl⟩ := hr
    simp [PyNum.isNeg]
  · simpa [GenGame.toPy] using h3
  · intro f hf
    simp only [GenGame.toPy, List.mem_map] at hf
    obtain ⟨n, hn, rfl⟩ := hf
    have := h4 n hn
    rw [sp]
    omega
  · intro p hp
    simp only [GenGame.toPy, List.mem_map] at hp
    obtain ⟨o, _, rfl⟩ := hp
    cases o <;> simp [ownerName]
  · intro k hk
    rw [sp] at hk
    have hk' : k < g.tl.length := by omega
    obtain ⟨hne, htg⟩ := h5 _ (getD_mem_of_lt g.tl k [] hk')
    refine ⟨_, toPy_row g k hk hk', by simpa using hne, ?_⟩
    intro e he
    obtain ⟨t, ht, rfl⟩ := List.mem_map.mp he
    refine ⟨_, _, (t.tgt : Int), rfl, ?_, ?_, rfl, by omega, by rw [sp]; exact_mod_cast htg t ht⟩
    · intro hprob
      rw [toPy_player g k hk] at hprob
      cases ho : g.owners.getD k .prob <;> rw [ho] at hprob
      · rfl
      · exact absurd hprob (by decide)
      · exact absurd hprob (by decide)
    · intro hnp
      rw [toPy_player g k hk] at hnp
      cases ho : g.owners.getD k .prob <;> rw [ho] at hnp
      · exact absurd rfl hnp
      · rfl
      · rfl

/-- **C11, documented rules.**  For every well-formed board and ALL `Float` parameters, each of
the generated games A, B, C, as written into the `.py` file, obeys every documented rule -/
theorem gen_doc_wellformed (v : Variant) (L W : Nat) (b : Board) (hb : BoardOK L W b)
    (q : Params Float) : C09.DocWellFormed (genGame v L W b q).toPy := by
  have hlen := genGame_tl_length (v := v) hb q
  have holen := genGame_owners_length v L W b q
  have hrlen := genGame_rewards_length (v := v) hb q
  refine toPy_doc_wellformed _ (by rw [hlen, holen]) (by rw [hrlen, holen]) ?_ ?_ ?_
  · rw [genGame_finals]; simp
  · intro f hf
    rw [genGame_finals, List.mem_singleton] at hf
    rw [hf, holen, enc_win_eq]
    omega
  · intro row hrow
    rw [holen]
    exact tl_rows_ok hb q row hrow

/-- … hence the solver's validation of the written description accepts it -/
theorem gen_validate_ok (v : Variant) (L W : Nat) (b : Board) (hb : BoardOK L W b)
    (q : Params Float) : validate (genGame v L W b q).toPy = .ok () :=
  C09.validate_sound _ (gen_doc_wellformed v L W b hb q)

/-- … and solving the written description is solving the denoted typed game, whose typed
validation cannot fail: the only possible `ValueError` is "no solution" -/
theorem gen_solvePy (v : Variant) (L W : Nat) (b : Board) (hb : BoardOK L W b)
    (q : Params Float) (thr : Float) (fuel : Nat) (prune : Bool) :
    solvePy thr fuel prune (genGame v L W b q).toPy =
      solve (roundFloat 6) thr fuel prune (toGame (genGame v L W b q).toPy) ∧
    checkGame (toGame (genGame v L W b q).toPy) = .ok () ∧
    initStates (toGame (genGame v L W b q).toPy) = .ok () :=
  ⟨C09.solvePy_eq_solve_of_valid thr fuel prune _ (gen_validate_ok v L W b hb q),
    C09.typed_validation_redundant _ (gen_validate_ok v L W b hb q)⟩

/-- the number of states of the written description -/
theorem gen_toPy_states (v : Variant) (L W : Nat) (b : Board) (q : Params Float) :
    (genGame v L W b q).toPy.players.length = N v L W := by
  rw [(toPy_sizes _).1, genGame_owners_length]
  cases v <;> rfl

/-! ## Non-vacuity: the 2×1 and the 1×2 board of `CR.C08`, parameters `0.1, 0.2, 0.3` -/

open CR.C08 (b21 b12)

example : BoardOK 2 1 b21 := by unfold BoardOK; decide
example : BoardOK 1 2 b12 := by unfold BoardOK; decide

/-- instances of the theorems; the second one with parameters far outside `(0,1)` (a NaN and a
negative number): the documented rules do not look at the probability values -/
example : C09.DocWellFormed (gameC 2 1 b21 (0.1 : Float) 0.2 0.3).toPy :=
  gen_doc_wellformed .C 2 1 b21 (by unfold BoardOK; decide) ⟨0.1, 0.2, 0.3⟩

example : validate (gameB 1 2 b12 ((0 : Float) / 0) (-5)).toPy = .ok () :=
  gen_validate_ok .B 1 2 b12 (by unfold BoardOK; decide) ⟨(0 : Float) / 0, -5, 0.3⟩

/-- the validator evaluated on a rendered game (10 states) -/
example : (validate (gameA 1 2 b12 (0.1 : Float)).toPy).toBool = true := by decide +kernel

/-- the rendering of the 1×2 game A: players and the shape of three rows -/
example : (gameA 1 2 b12 (0.1 : Float)).toPy.players =
    ["Player 2", "Player 2", "Player 1", "Player 1", "Player 1", "Player 1",
     "Probabilistic", "Probabilistic", "Probabilistic", "Probabilistic"] := by decide

example : (gameA 1 2 b12 (0.1 : Float)).toPy.finals = [9] := by decide +kernel

/-- a player row and a chance row as written: `(action, target)` resp. `(probability, target)` -/
example : (gameA 1 2 b12 (0.1 : Float)).toPy.tl.getD 0 .none =
    .list [.tuple [.str "Green", .int 2], .tuple [.str "Yellow", .int 4]] := by rfl
example : (gameA 1 2 b12 (0.1 : Float)).toPy.tl.getD 7 .none =
    .list [.tuple [.float 0.1, .int 8], .tuple [.float (1 - 0.1), .int 1]] := by rfl

end CR.C11
