/-
Property C02 on ACYCLIC conditioned games with arbitrary reward ties: exactness of the reported
expected rewards.

"Reported expected rewards are the values of the conditioned game …": on conditioned transition
lists that are acyclic apart from absorbing zero-reward self-loops ("ranked": exactly the
hypothesis of `C06.rewards_terminate_of_ranked`, bundled as `Rank.Ranked`), the reward equations
have exactly one solution that is 0 at the absorbing states, and the reward phase of `solve`
computes it EXACTLY on every state whose rank is below the number of sweeps performed.

Vocabulary (helper lemmas and definitions live in `CR/Lemmas/Ranked.lean`):
* `C06.Absorbing o rewards nodes s`: `s` is probabilistic, has reward 0 and its only transition is
  a self-loop of probability 1 (final states and sinks).  There the reward equation reads
  `x[s] = 0 + 1·x[s]`, so every value solves it: uniqueness can only hold modulo the values at the
  absorbing states; the solver keeps their initial value `g.rewards[s] = 0`;
* `Rank.Ranked o rewards nodes rk R`: `rk s ≤ R` for `s < n`; every successor of a non-absorbing
  state `s < n` is `< n` and is absorbing or of rank `< rk s`;
* `Rank.ExactRew o rewards nodes w`: `Brew o rewards nodes w s = w[s]` for all `s < n`, and
  `w[s] = 0` for every absorbing `s < n` (`exactRew_iff`);
* `Brew`: the reward Bellman operator (`CR/Lemmas/Rew.lean`, `C02.Brew_cases`).

Which exactness statement is TRUE.  The loop `while diff > thr` may stop as soon as a sweep changes
every tracked value by `≤ thr`; with `thr > 0` that can happen before the values have propagated
along the whole chain (the sweep order is the state order, not the topological order), and the
reported rewards are then NOT exact — see the last example (a 4-state chain, `thr = 1/2`: one
sweep, state 0 reports 1/2, its exact expected reward is 3/4).  What holds, for ANY threshold,
rounding function, fuel and pruning flag and with no hypothesis on the game beyond
`solve … = .ok out` and rankedness of `out.nodes`:
* `rew_settled_on_low_rank` / `rew_exact_on_low_rank`: after `out.itRew` sweeps the reported reward
  of every state of rank `< out.itRew` (and of every absorbing state) is exact — offset `+1`:
  `rk s + 1 ≤ out.itRew`;
* `rew_exact_of_ranked`: if `R + 1 ≤ out.itRew` OR the reported vectors are the result of a sweep
  that reported change 0 (always the case when `thr = 0`: `rew_exact_of_ranked_thr_zero`), the
  reported vector is THE exact solution;
* `rew_error_of_ranked`: in general (`thr < 1`, probabilistic rows empty or distributions) the
  reported reward of `s` is within `(rk s + 1)·thr` of the exact one — on ranked games the
  tolerance-to-the-true-value form of C02 does hold, with the factor `rank + 1`.
-/
import CR.Lemmas.Ranked

set_option linter.unusedSectionVars false

namespace CR.C02

open CR CR.VI CR.Rew CR.C06 CR.Rank

variable {K : Type} [Field K] [LinearOrder K] [IsStrictOrderedRing K]

/-! ### 1: the reward equations of a ranked game have exactly one solution -/

section Unique
variable {o : Array Owner} {rewards : Array K} {nodes : Array (List (Tr K))} {rk : Nat → Nat}
  {R : Nat}

/-- `ExactRew` spelled out -/
theorem exactRew_iff (w : Array K) :
    ExactRew o rewards nodes w ↔
      (∀ s < o.size, Brew o rewards nodes w s = w.getD s 0) ∧
        ∀ s < o.size, Absorbing o rewards nodes s → w.getD s 0 = 0 :=
  Iff.rfl

/-- at an absorbing state EVERY value satisfies the reward equation (which is why uniqueness is
stated modulo the values at the absorbing states) -/
theorem brew_absorbing (x : Array K) (s : Nat) (h : Absorbing o rewards nodes s) :
    Brew o rewards nodes x s = x.getD s 0 :=
  Brew_absorbing x h

/-- 1. on ranked node lists two fixed points of `Brew` that agree on the absorbing states are
equal at every state (strong induction on the rank) -/
theorem brew_fixed_point_unique_of_ranked (hrk : Ranked o rewards nodes rk R) (x y : Array K)
    (hx : ∀ s < o.size, Brew o rewards nodes x s = x.getD s 0)
    (hy : ∀ s < o.size, Brew o rewards nodes y s = y.getD s 0)
    (hxy : ∀ s < o.size, Absorbing o rewards nodes s → x.getD s 0 = y.getD s 0) :
    ∀ s < o.size, x.getD s 0 = y.getD s 0 :=
  fun s hs => brew_unique_low hrk (R + 1) x y (fun s hs _ => hx s hs) (fun s hs _ => hy s hs) hxy
    s hs (hrk.low_all le_rfl s hs)

/-- 1'. the local form: two vectors that satisfy the reward equations at the states that are
absorbing or of rank `< k`, and agree on the absorbing states, agree on all those states -/
theorem brew_fixed_point_unique_on_low_rank (hrk : Ranked o rewards nodes rk R) (k : Nat)
    (x y : Array K)
    (hx : ∀ s < o.size, Absorbing o rewards nodes s ∨ rk s < k →
      Brew o rewards nodes x s = x.getD s 0)
    (hy : ∀ s < o.size, Absorbing o rewards nodes s ∨ rk s < k →
      Brew o rewards nodes y s = y.getD s 0)
    (hxy : ∀ s < o.size, Absorbing o rewards nodes s → x.getD s 0 = y.getD s 0) :
    ∀ s < o.size, Absorbing o rewards nodes s ∨ rk s < k → x.getD s 0 = y.getD s 0 :=
  brew_unique_low hrk k x y hx hy hxy

/-- 1''. any two exact solutions coincide -/
theorem exactRew_unique (hrk : Ranked o rewards nodes rk R) (w w' : Array K)
    (hw : ExactRew o rewards nodes w) (hw' : ExactRew o rewards nodes w') :
    ∀ s < o.size, w.getD s 0 = w'.getD s 0 :=
  brew_fixed_point_unique_of_ranked hrk w w' hw.1 hw'.1
    (fun s hs ha => by rw [hw.2 s hs ha, hw'.2 s hs ha])

/-- 1'''. existence and uniqueness: a ranked node list has an exact solution of its reward
equations (one entry per state), and every exact solution agrees with it at every state -/
theorem exactRew_exists_unique (hrk : Ranked o rewards nodes rk R) :
    ∃ w : Array K, w.size = o.size ∧ ExactRew o rewards nodes w ∧
      ∀ w', ExactRew o rewards nodes w' → ∀ s < o.size, w'.getD s 0 = w.getD s 0 := by
  obtain ⟨w, hsz, hw⟩ := exactRew_exists hrk
  exact ⟨w, hsz, hw, fun w' hw' => exactRew_unique hrk w' w hw' hw⟩

/-- an `ε`-approximate fixed point of `Brew` (probabilistic rows empty or distributions) that
agrees with an exact solution `w` at the absorbing states is within `(rank + 1)·ε` of `w` -/
theorem brew_approx_fixed_point_of_ranked (hrk : Ranked o rewards nodes rk R)
    (hwf : NodesWF o nodes) (x w : Array K) (ε : K) (hε : 0 ≤ ε)
    (hx : ∀ s < o.size, |Brew o rewards nodes x s - x.getD s 0| ≤ ε)
    (hw : ExactRew o rewards nodes w)
    (hxw : ∀ s < o.size, Absorbing o rewards nodes s → x.getD s 0 = 0) :
    ∀ s < o.size, |x.getD s 0 - w.getD s 0| ≤ ((rk s : K) + 1) * ε :=
  brew_error_bound hrk hwf x w ε hε hx hw.1 (fun s hs ha => by rw [hxw s hs ha, hw.2 s hs ha])

end Unique

/-! ### 2: the reported expected rewards -/

section Solve
variable {rnd : K → Int} {thr : K} {fuel : Nat} {prune : Bool} {g : Game K} {out : SolveOut K}
  {rk : Nat → Nat} {R : Nat}

/-- 2a. absorbing states of the conditioned game report expected reward 0 (their initial value
`g.rewards[s]`, which no sweep changes) — no rankedness needed -/
theorem rew_absorbing_zero (H : solve rnd thr fuel prune g = .ok out) :
    ∀ s, Absorbing g.owners g.rewards out.nodes s →
      out.rewards.getD s 0 = 0 ∧ g.rewards.getD s 0 = 0 :=
  fun s ha => ⟨solve_absorbing_zero H s ha, ha.2.1⟩

/-- 2b. **settled states**: on ranked conditioned lists, after `out.itRew` sweeps the reported
expected rewards satisfy the reward equation EXACTLY at every state that is absorbing or of rank
`< out.itRew` (any threshold, rounding function, fuel, pruning flag) -/
theorem rew_settled_on_low_rank (H : solve rnd thr fuel prune g = .ok out)
    (hrk : Ranked g.owners g.rewards out.nodes rk R) :
    ∀ s < g.owners.size, Absorbing g.owners g.rewards out.nodes s ∨ rk s < out.itRew →
      Brew g.owners g.rewards out.nodes out.rewards s = out.rewards.getD s 0 :=
  solve_low_fixed H hrk

/-- 2c. **exactness on low ranks**: the reported expected reward of a state of rank `r` is the
exact one as soon as `r + 1 ≤ out.itRew` (and that of an absorbing state always is).  The exact
solution `w` exists and is unique (`exactRew_exists_unique`). -/
theorem rew_exact_on_low_rank (H : solve rnd thr fuel prune g = .ok out)
    (hrk : Ranked g.owners g.rewards out.nodes rk R) (w : Array K)
    (hw : ExactRew g.owners g.rewards out.nodes w) :
    ∀ s < g.owners.size, Absorbing g.owners g.rewards out.nodes s ∨ rk s + 1 ≤ out.itRew →
      out.rewards.getD s 0 = w.getD s 0 :=
  brew_unique_low hrk out.itRew out.rewards w (solve_low_fixed H hrk) (fun s hs _ => hw.1 s hs)
    (fun s hs ha => by rw [solve_absorbing_zero H s ha, hw.2 s hs ha])

/-- 2. **exactness**: if the reward loop performed at least `R + 1` sweeps (`R` the maximal rank),
OR the reported vectors are the result of a sweep that reported change 0, the reported expected
rewards are an exact solution of the reward equations of the conditioned game — hence THE exact
solution: they coincide with every exact solution at every state -/
theorem rew_exact_of_ranked (H : solve rnd thr fuel prune g = .ok out)
    (hrk : Ranked g.owners g.rewards out.nodes rk R)
    (hconv : R + 1 ≤ out.itRew ∨
      ∃ v : RewVecs K, sweepRew rnd g.owners g.rewards out.nodes out.probs v =
        .ok ({ er := out.rewards, ermr := out.rewMinReach, pmr := out.probMinRew }, 0)) :
    ExactRew g.owners g.rewards out.nodes out.rewards ∧
      ∀ w, ExactRew g.owners g.rewards out.nodes w →
        ∀ s < g.owners.size, out.rewards.getD s 0 = w.getD s 0 := by
  have hex : ExactRew g.owners g.rewards out.nodes out.rewards := by
    refine ⟨?_, fun s _ ha => solve_absorbing_zero H s ha⟩
    rcases hconv with hR | ⟨v, hsw⟩
    · exact fun s hs => solve_low_fixed H hrk s hs (hrk.low_all hR s hs)
    · exact solve_zero_fixed H v hsw
  exact ⟨hex, fun w hw => exactRew_unique hrk out.rewards w hex hw⟩

/-- 2 (i). the zero-change form (cf. `rew_fixed_point_of_zero_diff`; no hypothesis on the
probabilities is needed here) -/
theorem rew_exact_of_ranked_zero_diff (H : solve rnd thr fuel prune g = .ok out)
    (hrk : Ranked g.owners g.rewards out.nodes rk R) (v : RewVecs K)
    (hsw : sweepRew rnd g.owners g.rewards out.nodes out.probs v =
      .ok ({ er := out.rewards, ermr := out.rewMinReach, pmr := out.probMinRew }, 0)) :
    ExactRew g.owners g.rewards out.nodes out.rewards ∧
      ∀ w, ExactRew g.owners g.rewards out.nodes w →
        ∀ s < g.owners.size, out.rewards.getD s 0 = w.getD s 0 :=
  rew_exact_of_ranked H hrk (Or.inr ⟨v, hsw⟩)

/-- 2 (i'). with threshold 0 every `.ok` run on ranked conditioned lists reports the exact
expected rewards -/
theorem rew_exact_of_ranked_thr_zero (hthr : thr = 0) (H : solve rnd thr fuel prune g = .ok out)
    (hrk : Ranked g.owners g.rewards out.nodes rk R) :
    ExactRew g.owners g.rewards out.nodes out.rewards ∧
      ∀ w, ExactRew g.owners g.rewards out.nodes w →
        ∀ s < g.owners.size, out.rewards.getD s 0 = w.getD s 0 :=
  rew_exact_of_ranked H hrk (Or.inr (solve_thr_zero_sweep hthr H))

/-- 2 (ii). the iteration-count form -/
theorem rew_exact_of_ranked_iters (H : solve rnd thr fuel prune g = .ok out)
    (hrk : Ranked g.owners g.rewards out.nodes rk R) (hR : R + 1 ≤ out.itRew) :
    ExactRew g.owners g.rewards out.nodes out.rewards ∧
      ∀ w, ExactRew g.owners g.rewards out.nodes w →
        ∀ s < g.owners.size, out.rewards.getD s 0 = w.getD s 0 :=
  rew_exact_of_ranked H hrk (Or.inl hR)

/-- 2 (iii). **tolerance to the true value on ranked games**: if the loop ran (`thr < 1`) and the
conditioned rows of the probabilistic states are empty or distributions, the reported expected
reward of every state `s` is within `(rk s + 1)·thr` of the exact one, however early the loop
stopped -/
theorem rew_error_of_ranked (hwf : NodesWF g.owners out.nodes) (hthr : thr < 1)
    (H : solve rnd thr fuel prune g = .ok out) (hrk : Ranked g.owners g.rewards out.nodes rk R)
    (w : Array K) (hw : ExactRew g.owners g.rewards out.nodes w) :
    ∀ s < g.owners.size, |out.rewards.getD s 0 - w.getD s 0| ≤ ((rk s : K) + 1) * thr := by
  have h0 : 0 ≤ thr := by
    rcases rew_stop H with ⟨h, _⟩ | ⟨v, d, _, _, _, _, _, _, hd, hd0, _⟩
    · exact absurd hthr h
    · exact le_trans hd0 (not_lt.mp hd)
  exact brew_approx_fixed_point_of_ranked hrk hwf out.rewards w thr h0
    (rew_bellman_consistency hwf hthr H) hw (fun s _ ha => solve_absorbing_zero H s ha)

/-- 2, end to end with C06: on a well-formed game whose conditioned lists are ranked, with
threshold 0 and `fuel ≥ R + 2`, once the reachability phase has returned a result the solver
returns a result whose expected rewards are the exact solution of the conditioned game's reward
equations -/
theorem solve_exact_of_ranked (h : WFull g) {ro : ReachOut K} {nodes : Array (List (Tr K))}
    (hthr : thr = 0) (hro : solveReach rnd thr fuel prune g = .ok ro)
    (hcond : condition prune g ro.strat ro.probs = .ok nodes)
    (hrk : Ranked g.owners g.rewards nodes rk R) (hfuel : R + 2 ≤ fuel) :
    ∃ out, solve rnd thr fuel prune g = .ok out ∧ out.nodes = nodes ∧ out.itRew ≤ R + 2 ∧
      ExactRew g.owners g.rewards nodes out.rewards ∧
      ∀ w, ExactRew g.owners g.rewards nodes w →
        ∀ s < g.owners.size, out.rewards.getD s 0 = w.getD s 0 := by
  obtain ⟨out, H, hn, hit⟩ := solve_terminates_of_ranked h hro hcond rk R hrk.bound
    (fun s hs hna t ht => (hrk.step s hs hna t ht).2) (le_of_eq hthr.symm) hfuel
  subst hn
  exact ⟨out, H, rfl, hit, rew_exact_of_ranked_thr_zero hthr H hrk⟩

end Solve

/-! ### non-vacuity: concrete ranked conditioned games over `Rat` -/

section NonVacuity
open CR.Examples CR.Rew.Examples CR.Rank.Examples

/-- the conditioned lists of the 7-state game `g7` are ranked (`0 → 1 → 3 → 5`, state 5 absorbing,
maximal rank 2) -/
example : Ranked g7.owners g7.rewards g7nodes rk7 2 := g7_ranked

/-- state 5 of `g7nodes` is absorbing -/
example : Absorbing g7.owners g7.rewards g7nodes 5 := ⟨rfl, rfl, tr "" 1 5, rfl, rfl, rfl⟩

/-- `rew_exact_of_ranked` instantiated through its FIRST alternative on the run of `g7` (pruning
on, threshold 10⁻⁶): 3 = R + 1 sweeps; the reported rewards `#[2, 2, 0, 2, 0, 0, 0]` are the exact
solution -/
example : ∃ out, solve (roundRat 6) thr 1000 true g7 = .ok out ∧
    out.rewards = #[2, 2, 0, 2, 0, 0, 0] ∧ out.itRew = 3 ∧
    ExactRew g7.owners g7.rewards out.nodes out.rewards ∧
    ∀ w, ExactRew g7.owners g7.rewards out.nodes w →
      ∀ s < g7.owners.size, out.rewards.getD s 0 = w.getD s 0 := by
  obtain ⟨out, H, h1, _, _, hit, _, hn, _⟩ := g7_run
  have hrk : Ranked g7.owners g7.rewards out.nodes rk7 2 := by rw [hn]; exact g7_ranked
  exact ⟨out, H, h1, hit, rew_exact_of_ranked H hrk (Or.inl (by rw [hit]))⟩

/-- … and through its SECOND alternative: the reported vectors are reproduced by a sweep with
change 0 (`g7_sweep`) -/
example : ∃ out, solve (roundRat 6) thr 1000 true g7 = .ok out ∧
    ExactRew g7.owners g7.rewards out.nodes out.rewards := by
  obtain ⟨out, H, h1, h2, h3, _, hp, hn, _⟩ := g7_run
  have hrk : Ranked g7.owners g7.rewards out.nodes rk7 2 := by rw [hn]; exact g7_ranked
  have hsw : sweepRew (roundRat 6) g7.owners g7.rewards out.nodes out.probs g7vecs =
      .ok ({ er := out.rewards, ermr := out.rewMinReach, pmr := out.probMinRew }, 0) := by
    rw [hn, hp, h1, h2, h3]; exact g7_sweep
  exact ⟨out, H, (rew_exact_of_ranked_zero_diff H hrk g7vecs hsw).1⟩

/-- the run of the 6-state game `g6` (a Player-2 state, ties at both player states): ranked,
3 = R + 1 sweeps, exact rewards `#[1, 0, 0, 1, 0, 0]` -/
example : ∃ out, solve (roundRat 6) thr 1000 true g6 = .ok out ∧
    out.rewards = #[1, 0, 0, 1, 0, 0] ∧
    ExactRew g6.owners g6.rewards out.nodes out.rewards := by
  obtain ⟨out, H, h1, _, _, hit, _, hn, _⟩ := g6_run
  have hrk : Ranked g6.owners g6.rewards out.nodes rk6 2 := by rw [hn]; exact g6_ranked
  exact ⟨out, H, h1, (rew_exact_of_ranked_iters H hrk (by rw [hit])).1⟩

/-- the hypotheses of `rew_error_of_ranked` hold together on the run of `g7` -/
example : ∃ out, solve (roundRat 6) thr 1000 true g7 = .ok out ∧
    ∀ w, ExactRew g7.owners g7.rewards out.nodes w →
      ∀ s < g7.owners.size, |out.rewards.getD s 0 - w.getD s 0| ≤ ((rk7 s : Rat) + 1) * thr := by
  obtain ⟨out, H, _, _, _, _, _, hn, _⟩ := g7_run
  have hrk : Ranked g7.owners g7.rewards out.nodes rk7 2 := by rw [hn]; exact g7_ranked
  exact ⟨out, H, fun w hw => rew_error_of_ranked (by rw [hn]; exact g7_wf) (by decide +kernel) H
    hrk w hw⟩

/-- existence and uniqueness instantiated -/
example : ∃ w : Array Rat, w.size = g7.owners.size ∧ ExactRew g7.owners g7.rewards g7nodes w ∧
    ∀ w', ExactRew g7.owners g7.rewards g7nodes w' →
      ∀ s < g7.owners.size, w'.getD s 0 = w.getD s 0 :=
  exactRew_exists_unique g7_ranked

/-- WHY exactness needs `R + 1 ≤ itRew` or a zero-change sweep: a ranked chain `0 → 1 → 2 → 3`
(rewards 1/4, 1/4, 1/4, 0; state 3 absorbing; maximal rank 3) with threshold 1/2.  The reward loop
stops after ONE sweep (states are swept in index order, so state 0 is updated before its
successor); the states of rank `< 1` (state 2) and, here, state 1 satisfy their equations, state 0
reports 1/2 and violates its equation: its exact expected reward is 3/4. -/
example : Ranked chainO chainR chainN (fun s => 3 - s) 3 ∧
    viRew (roundRat 6) chainO chainR chainN #[1, 1, 1, 1] (1/2 : Rat) 10 1
      { er := chainR, ermr := chainR, pmr := #[1, 1, 1, 1] } 0 =
      .ok ({ er := #[1/2, 1/2, 1/4, 0], ermr := #[1/2, 1/2, 1/4, 0], pmr := #[1, 1, 1, 1] }, 1) ∧
    Brew chainO chainR chainN #[1/2, 1/2, 1/4, 0] 0 = 3/4 ∧
    ExactRew chainO chainR chainN #[3/4, 1/2, 1/4, 0] := by
  refine ⟨chain_ranked, by decide +kernel, by decide +kernel, fun s hs => ?_, fun s hs ha => ?_⟩
  · have hs' : s < 4 := hs
    have : s = 0 ∨ s = 1 ∨ s = 2 ∨ s = 3 := by omega
    rcases this with rfl | rfl | rfl | rfl <;> decide +kernel
  · have hs' : s < 4 := hs
    have : s = 0 ∨ s = 1 ∨ s = 2 ∨ s = 3 := by omega
    rcases this with rfl | rfl | rfl | rfl
    · exact absurd ha.2.1 (by decide +kernel)
    · exact absurd ha.2.1 (by decide +kernel)
    · exact absurd ha.2.1 (by decide +kernel)
    · decide +kernel

end NonVacuity

end CR.C02
