/-
Property C01 on ACYCLIC games: the tolerance clause made true.

"… every reported probability lies within the solver's convergence tolerance of the true value."
In general this clause is FALSE (`C01Neg.tolerance_clause_fails`: the loop stops when one sweep
changes every entry by `≤ thr`, which bounds the Bellman residual, not the distance to the value).
On games that are acyclic apart from final and absorbing states it is TRUE, with the explicit
factor `rank + 1`, and after enough sweeps the report is exact.

Vocabulary (definitions and helper lemmas: `CR/Lemmas/ReachRanked.lean`, namespace `CR.ReachRank`):
* `Absorbing g s`: the row of `s` is non-empty and every transition of `s` returns to `s`
  (`g.tl.getD s [] ≠ [] ∧ ∀ t ∈ g.tl.getD s [], t.tgt = s`; the sinks `[(1, s)]`);
* `ReachRanked g rk R`: `rk s ≤ R` for `s < n`; every transition `t` of a state `s < n` that is
  neither final nor absorbing has `t.tgt < n` and `t.tgt` final, or absorbing, or `rk t.tgt < rk s`;
* `ExactReach g w`: `Bell g w s = w[s]` for all `s < n` (so `w = 1` at the final states) and
  `w[s] = 0` at every non-final absorbing `s < n` (where the equation `w[s] = w[s]` says nothing).

Results, for ANY rounding function, fuel, pruning flag, over any linearly ordered field:
1. `bell_fixed_point_unique_of_ranked`: the exact solution is unique; `exactReach_exists`: it
   exists; `isValue_iff_exactReach`: it is THE value (least pre-fixed point), so on ranked
   well-formed games `IsValue` is satisfiable over every ordered field (`value_exists_of_ranked`);
2. `reach_settled_on_low_rank`: after `k` sweeps every state of rank `< k`, every final or absorbing
   state and every state outside the sweep order carries its exact value, and no later sweep
   changes it; `reach_exact_on_low_rank`: `rk s + 1 ≤ r.iters → r.probs[s] = v[s]`;
   `reach_exact_of_ranked`: if `R + 1 ≤ r.iters` or the last sweep reported change 0 (always so for
   `thr = 0`), the reported vector IS the value.  The sweep visits `r.order` in ascending index
   order, not in topological order, which is why rank `k` needs `k + 1` sweeps — the offset is sharp
   (last example: rank 2, two sweeps, not exact);
3. `reach_error_of_ranked`: `|r.probs[s] − v[s]| ≤ (rk s + 1) · thr` for every `s < n`.  NO
   hypothesis on `thr` is needed: `0 ≤ thr` holds on every `.ok` run (`thr_nonneg_of_ok`), and for
   `thr ≥ 1` (the loop never ran) the residual bound `reach_residual_le_thr` still holds.
-/
import CR.Lemmas.ReachRankedEx

set_option linter.unusedSectionVars false

namespace CR.C01

open CR CR.VI CR.ReachRank

variable {K : Type} [Field K] [LinearOrder K] [IsStrictOrderedRing K]

/-! ### 1: the Bellman equations of a ranked game have exactly one solution, the value -/

section Unique
variable {g : Game K} {rk : Nat → Nat} {R : Nat}

/-- `ExactReach` spelled out -/
theorem exactReach_iff (w : Array K) :
    ExactReach g w ↔
      (∀ s < g.owners.size, Bell g w s = w.getD s 0) ∧
        ∀ s < g.owners.size, s ∉ g.finals →
          (g.tl.getD s [] ≠ [] ∧ ∀ t ∈ g.tl.getD s [], t.tgt = s) → w.getD s 0 = 0 :=
  Iff.rfl

/-- `ReachRanked` spelled out -/
theorem reachRanked_iff :
    ReachRanked g rk R ↔
      (∀ s < g.owners.size, rk s ≤ R) ∧
        ∀ s < g.owners.size, s ∉ g.finals → ¬ Absorbing g s → ∀ t ∈ g.tl.getD s [],
          t.tgt < g.owners.size ∧ (t.tgt ∈ g.finals ∨ Absorbing g t.tgt ∨ rk t.tgt < rk s) :=
  ⟨fun h => ⟨h.bound, h.step⟩, fun h => ⟨h.1, h.2⟩⟩

/-- at a final state the Bellman equation pins the value to 1 -/
theorem bell_fixed_final (w : Array K) (hw : ∀ s < g.owners.size, Bell g w s = w.getD s 0) :
    ∀ s < g.owners.size, s ∈ g.finals → w.getD s 0 = 1 :=
  fun _ hs hf => fixed_final hw hs hf

/-- at an absorbing non-final state EVERY value in `[0, 1]` satisfies the Bellman equation (which
is why uniqueness is stated modulo the values at those states) -/
theorem bell_absorbing (hwf : WF g) (x : Array K) (s : Nat) (hs : s < g.owners.size)
    (hnf : s ∉ g.finals) (ha : Absorbing g s) (h0 : 0 ≤ x.getD s 0) (h1 : x.getD s 0 ≤ 1) :
    Bell g x s = x.getD s 0 := by
  rw [Bell_nonfinal x hnf]
  obtain ⟨t0, ht0⟩ := List.exists_mem_of_ne_nil _ ha.1
  cases ho : g.owners.getD s .prob with
  | p1 =>
    obtain ⟨_, hub, hatt⟩ := step_p1 g.owners g.tl x s ho
    rcases hatt with h | ⟨t, ht, h⟩
    · have := hub t0 ht0
      rw [ha.2 t0 ht0, h] at this
      rw [h]; exact le_antisymm h0 this
    · rw [h, ha.2 t ht]
  | p2 =>
    obtain ⟨_, hlb, hatt⟩ := step_p2 g.owners g.tl x s ho
    rcases hatt with h | ⟨t, ht, h⟩
    · have := hlb t0 ht0
      rw [ha.2 t0 ht0, h] at this
      rw [h]; exact le_antisymm this h1
    · rw [h, ha.2 t ht]
  | prob =>
    rw [stepReach_prob g.owners g.tl x s ho]
    have hsum := hwf.rowSumOne_pub hs ho
    have : sumOver x (g.tl.getD s []) = x.getD s 0 * psum (g.tl.getD s []) := by
      have hall := ha.2
      generalize g.tl.getD s [] = row at hall
      induction row with
      | nil => simp
      | cons u row ih =>
        rw [sumOver_cons, psum_cons, ih (fun t ht => hall t (List.mem_cons_of_mem _ ht)),
          hall u List.mem_cons_self]
        ring
    rw [this, hsum, mul_one]

/-- 1. on a reach-ranked game two fixed points of `Bell` that are 0 at the non-final absorbing
states are equal at every state (strong induction on the rank; at the final states both are 1) -/
theorem bell_fixed_point_unique_of_ranked (hrk : ReachRanked g rk R) (x y : Array K)
    (hx : ∀ s < g.owners.size, Bell g x s = x.getD s 0)
    (hy : ∀ s < g.owners.size, Bell g y s = y.getD s 0)
    (hx0 : ∀ s < g.owners.size, s ∉ g.finals → Absorbing g s → x.getD s 0 = 0)
    (hy0 : ∀ s < g.owners.size, s ∉ g.finals → Absorbing g s → y.getD s 0 = 0) :
    ∀ s < g.owners.size, x.getD s 0 = y.getD s 0 :=
  bell_unique hrk x y hx hy (fun _ hs hp => ExactReach.pinned ⟨hx, hx0⟩ ⟨hy, hy0⟩ hs hp)

/-- 1'. the same, assuming only that the two fixed points AGREE at the non-final absorbing states -/
theorem bell_fixed_point_unique_of_ranked' (hrk : ReachRanked g rk R) (x y : Array K)
    (hx : ∀ s < g.owners.size, Bell g x s = x.getD s 0)
    (hy : ∀ s < g.owners.size, Bell g y s = y.getD s 0)
    (hxy : ∀ s < g.owners.size, s ∉ g.finals → Absorbing g s → x.getD s 0 = y.getD s 0) :
    ∀ s < g.owners.size, x.getD s 0 = y.getD s 0 :=
  bell_unique hrk x y hx hy (fun s hs hp => by
    by_cases hf : s ∈ g.finals
    · rw [fixed_final hx hs hf, fixed_final hy hs hf]
    · exact hxy s hs hf (hp.resolve_left hf))

/-- 1''. any two exact solutions coincide -/
theorem exactReach_unique (hrk : ReachRanked g rk R) (w w' : Array K) (hw : ExactReach g w)
    (hw' : ExactReach g w') : ∀ s < g.owners.size, w.getD s 0 = w'.getD s 0 :=
  bell_fixed_point_unique_of_ranked hrk w w' hw.1 hw'.1 hw.2 hw'.2

/-- 1'''. existence and uniqueness: a well-formed reach-ranked game has an exact solution (one
entry per state), and every exact solution agrees with it at every state -/
theorem exactReach_exists_unique (hwf : WF g) (hrk : ReachRanked g rk R) :
    ∃ w : Array K, w.size = g.owners.size ∧ ExactReach g w ∧
      ∀ w', ExactReach g w' → ∀ s < g.owners.size, w'.getD s 0 = w.getD s 0 := by
  obtain ⟨w, hsz, hw⟩ := exactReach_exists hwf hrk
  exact ⟨w, hsz, hw, fun w' hw' => exactReach_unique hrk w' w hw' hw⟩

/-- the value of a well-formed game is 0 at every non-final absorbing state (no rank needed) -/
theorem value_zero_of_absorbing (hwf : WF g) (v : Array K) (hv : IsValue g v) :
    ∀ s < g.owners.size, s ∉ g.finals → Absorbing g s → v.getD s 0 = 0 :=
  fun _ hs hnf ha => value_absorbing_zero hwf v hv hs hnf ha

/-- the value of a well-formed game is an exact solution (no rank needed) -/
theorem value_exactReach (hwf : WF g) (v : Array K) (hv : IsValue g v) : ExactReach g v :=
  value_exact hwf v hv

/-- **on a well-formed reach-ranked game "the value" and "the exact solution" are the same thing**:
`v` is the least pre-fixed point of `Bell` iff it has one entry per state, is a fixed point of
`Bell` and is 0 at the non-final absorbing states -/
theorem isValue_iff_exactReach (hwf : WF g) (hrk : ReachRanked g rk R) (v : Array K) :
    IsValue g v ↔ v.size = g.owners.size ∧ ExactReach g v :=
  ⟨fun hv => ⟨hv.1.1, value_exact hwf v hv⟩, fun h => exact_isValue hwf hrk v h.1 h.2⟩

/-- on a well-formed reach-ranked game the value EXISTS over every linearly ordered field (over the
reals it always exists: `value_exists`) and is unique -/
theorem value_exists_of_ranked (hwf : WF g) (hrk : ReachRanked g rk R) :
    ∃! v : Array K, IsValue g v := by
  obtain ⟨w, hsz, hw⟩ := exactReach_exists hwf hrk
  have hv := exact_isValue hwf hrk w hsz hw
  exact ⟨w, hv, fun v' hv' => value_unique g v' w hv' hv⟩

/-- an `ε`-approximate fixed point of `Bell` that is 1 at the final and 0 at the non-final absorbing
states is within `(rank + 1)·ε` of the value -/
theorem bell_approx_fixed_point_of_ranked (hwf : WF g) (hrk : ReachRanked g rk R) (x v : Array K)
    (ε : K) (hε : 0 ≤ ε) (hx : ∀ s < g.owners.size, |Bell g x s - x.getD s 0| ≤ ε)
    (hx1 : ∀ s < g.owners.size, s ∈ g.finals → x.getD s 0 = 1)
    (hx0 : ∀ s < g.owners.size, s ∉ g.finals → Absorbing g s → x.getD s 0 = 0)
    (hv : IsValue g v) :
    ∀ s < g.owners.size, |x.getD s 0 - v.getD s 0| ≤ ((rk s : K) + 1) * ε := by
  have hw := value_exact hwf v hv
  refine bell_error_bound hwf hrk x v ε hε (fun s hs => Or.inr (hx s hs)) hw.1 (fun s hs hp => ?_)
  by_cases hf : s ∈ g.finals
  · rw [hx1 s hs hf, fixed_final hw.1 hs hf]
  · rw [hx0 s hs hf (hp.resolve_left hf), hw.2 s hs hf (hp.resolve_left hf)]

end Unique

/-! ### 2, 3: the reported probabilities -/

section Solve
variable {rnd : K → Int} {thr : K} {fuel : Nat} {prune : Bool} {g : Game K} {r : ReachOut K}
  {rk : Nat → Nat} {R : Nat}

/-- on every `.ok` run the threshold is non-negative: either the loop never ran (`1 ≤ thr`) or the
last sweep reported a change `0 ≤ d ≤ thr` -/
theorem thr_nonneg_of_ok (H : solveReach rnd thr fuel prune g = .ok r) : 0 ≤ thr := by
  rcases reach_stop H with ⟨h, _, _⟩ | ⟨x, d, _, _, _, hd, hd0, _, _⟩
  · exact le_trans zero_le_one (not_lt.mp h)
  · exact le_trans hd0 (not_lt.mp hd)

/-- 2a. **settled after `k` sweeps**: on a well-formed reach-ranked game, every iterate of the run
from the `k`-th on carries the value at every state that is final, absorbing, outside the sweep
order, or of rank `< k` — after `k` sweeps those states are exact and no later sweep changes them
(any threshold, rounding function, fuel, pruning flag) -/
theorem reach_settled_on_low_rank (hwf : WF g) (H : solveReach rnd thr fuel prune g = .ok r)
    (hrk : ReachRanked g rk R) (v : Array K) (hv : IsValue g v) (k k' : Nat) (hk : k ≤ k') :
    ∀ s < g.owners.size, (s ∈ g.finals ∨ Absorbing g s ∨ s ∉ r.order ∨ rk s < k) →
      ((sweepVec g.owners g.tl r.order)^[k'] (initVec g)).getD s 0 = v.getD s 0 := by
  intro s hs h
  refine iterates_settled hwf H hrk v (value_exact hwf v hv) k k' hk s hs ?_
  rcases h with h | h | h | h
  · exact Or.inr (Or.inl (Or.inl h))
  · exact Or.inr (Or.inl (Or.inr h))
  · exact Or.inl h
  · exact Or.inr (Or.inr h)

/-- 2a'. in particular a settled state satisfies its Bellman equation exactly in every later
iterate, and one more sweep does not change it -/
theorem reach_settled_stable (hwf : WF g) (H : solveReach rnd thr fuel prune g = .ok r)
    (hrk : ReachRanked g rk R) (k k' : Nat) (hk : k ≤ k') :
    ∀ s < g.owners.size, (s ∈ g.finals ∨ Absorbing g s ∨ s ∉ r.order ∨ rk s < k) →
      ((sweepVec g.owners g.tl r.order)^[k' + 1] (initVec g)).getD s 0 =
        ((sweepVec g.owners g.tl r.order)^[k'] (initVec g)).getD s 0 := by
  intro s hs h
  obtain ⟨v, hv, _⟩ := value_exists_of_ranked hwf hrk
  rw [reach_settled_on_low_rank hwf H hrk v hv k (k' + 1) (by omega) s hs h,
    reach_settled_on_low_rank hwf H hrk v hv k k' hk s hs h]

/-- 2b. **exactness on low ranks**: the reported probability of a state of rank `ρ` is the value
as soon as `ρ + 1 ≤ r.iters`; that of a final or absorbing state and of a state outside the sweep
order (no path to a final state) always is -/
theorem reach_exact_on_low_rank (hwf : WF g) (H : solveReach rnd thr fuel prune g = .ok r)
    (hrk : ReachRanked g rk R) (v : Array K) (hv : IsValue g v) :
    ∀ s < g.owners.size, (s ∈ g.finals ∨ Absorbing g s ∨ s ∉ r.order ∨ rk s + 1 ≤ r.iters) →
      r.probs.getD s 0 = v.getD s 0 := by
  intro s hs h
  rw [reach_probs_eq_iterate H]
  exact reach_settled_on_low_rank hwf H hrk v hv r.iters r.iters le_rfl s hs
    (by rcases h with h | h | h | h
        · exact Or.inl h
        · exact Or.inr (Or.inl h)
        · exact Or.inr (Or.inr (Or.inl h))
        · exact Or.inr (Or.inr (Or.inr (by omega))))

/-- with threshold 0 the last sweep of an `.ok` run reported change 0 -/
theorem reach_thr_zero_sweep (hthr : thr = 0) (H : solveReach rnd thr fuel prune g = .ok r) :
    ∃ x : Array K, sweepReach g.owners g.tl r.order x = (r.probs, 0) := by
  rcases reach_stop H with ⟨h, _, _⟩ | ⟨x, d, _, _, hsw, hd, hd0, _, _⟩
  · exact absurd (by rw [hthr]; exact zero_lt_one) h
  · have : d = 0 := le_antisymm (by rw [hthr] at hd; exact not_lt.mp hd) hd0
    exact ⟨x, by rw [← this]; exact hsw⟩

/-- 2. **exactness**: on a well-formed reach-ranked game, if the loop performed at least `R + 1`
sweeps (`R` the maximal rank) OR the reported vector is the result of a sweep that reported change
0, the reported vector IS the value of the game (which exists and is unique) -/
theorem reach_exact_of_ranked (hwf : WF g) (H : solveReach rnd thr fuel prune g = .ok r)
    (hrk : ReachRanked g rk R)
    (hconv : R + 1 ≤ r.iters ∨ ∃ x : Array K, sweepReach g.owners g.tl r.order x = (r.probs, 0)) :
    IsValue g r.probs ∧ ∀ v, IsValue g v → r.probs = v := by
  obtain ⟨w, hw, _⟩ := value_exists_of_ranked hwf hrk
  have heq : ∀ s < g.owners.size, r.probs.getD s 0 = w.getD s 0 := by
    rcases hconv with hR | ⟨x, hsw⟩
    · exact fun s hs => reach_exact_on_low_rank hwf H hrk w hw s hs
        (Or.inr (Or.inr (Or.inr (by have := hrk.bound s hs; omega))))
    · exact (reach_exact_of_zero_diff' hwf H x hsw).2 w hw
  have hrw : r.probs = w := by
    have hsz : r.probs.size = w.size := (reach_size H).trans hw.1.1.symm
    refine Array.ext hsz (fun i hi hi' => ?_)
    have := heq i (by rw [← reach_size H]; exact hi)
    simpa [Array.getD, hi, hi'] using this
  rw [hrw]
  exact ⟨hw, fun v hv => value_unique g w v hw hv⟩

/-- 2 (i). the iteration-count form -/
theorem reach_exact_of_ranked_iters (hwf : WF g) (H : solveReach rnd thr fuel prune g = .ok r)
    (hrk : ReachRanked g rk R) (hR : R + 1 ≤ r.iters) :
    IsValue g r.probs ∧ ∀ v, IsValue g v → r.probs = v :=
  reach_exact_of_ranked hwf H hrk (Or.inl hR)

/-- 2 (ii). with threshold 0 every `.ok` run on a well-formed reach-ranked game reports the value -/
theorem reach_exact_of_ranked_thr_zero (hwf : WF g) (hthr : thr = 0)
    (H : solveReach rnd thr fuel prune g = .ok r) (hrk : ReachRanked g rk R) :
    IsValue g r.probs ∧ ∀ v, IsValue g v → r.probs = v :=
  reach_exact_of_ranked hwf H hrk (Or.inr (reach_thr_zero_sweep hthr H))

/-- 3. **the tolerance clause, made true**: on a well-formed reach-ranked game the reported
probability of every state `s` is within `(rk s + 1)·thr` of the value, however early the loop
stopped.  No hypothesis on `thr`: `0 ≤ thr` follows from `.ok` (`thr_nonneg_of_ok`), and when the
loop never ran (`1 ≤ thr`) the residual bound `reach_residual_le_thr` holds trivially. -/
theorem reach_error_of_ranked (hwf : WF g) (H : solveReach rnd thr fuel prune g = .ok r)
    (hrk : ReachRanked g rk R) (v : Array K) (hv : IsValue g v) :
    ∀ s < g.owners.size, |r.probs.getD s 0 - v.getD s 0| ≤ ((rk s : K) + 1) * thr := by
  have hw := value_exact hwf v hv
  have hset := probs_settled hwf H hrk v hw
  refine bell_error_bound hwf hrk r.probs v thr (thr_nonneg_of_ok H) (fun s hs => ?_) hw.1
    (fun s hs hp => hset s hs (Or.inr (Or.inl hp)))
  by_cases hso : s ∈ r.order
  · exact Or.inr (reach_residual_le_thr hwf H s hso hs)
  · exact Or.inl (hset s hs (Or.inl hso))

/-- 3'. one-sided and uniform form: the report is below the value by at most `(R + 1)·thr` -/
theorem reach_error_of_ranked_uniform (hwf : WF g) (H : solveReach rnd thr fuel prune g = .ok r)
    (hrk : ReachRanked g rk R) (v : Array K) (hv : IsValue g v) :
    ∀ s < g.owners.size, r.probs.getD s 0 ≤ v.getD s 0 ∧
      v.getD s 0 - r.probs.getD s 0 ≤ ((R : K) + 1) * thr := by
  intro s hs
  have h1 := reach_le_value hwf H v hv s hs
  have h2 := reach_error_of_ranked hwf H hrk v hv s hs
  have h3 : ((rk s : K) + 1) * thr ≤ ((R : K) + 1) * thr := by
    refine mul_le_mul_of_nonneg_right ?_ (thr_nonneg_of_ok H)
    have : (rk s : K) ≤ (R : K) := by exact_mod_cast hrk.bound s hs
    linarith
  refine ⟨h1, ?_⟩
  have := (abs_le.mp h2).1
  linarith

end Solve

/-! ### non-vacuity: the 7-state game over `Rat` -/

section NonVacuity
open CR.Examples CR.ReachRank.Examples

/-- the 7-state game `g7` (Player 1 owns 0 and 3; `0 → {1, 2}`, `1 → ¾·3 + ¼·4`, `2 → ½·5 + ½·6`,
`3 → {4, 5}`; 4, 5, 6 loop; 5 final) is well-formed and reach-ranked with ranks `2, 1, 0, 0, …` -/
example : WF g7 ∧ ReachRanked g7 rk7 2 := ⟨g7_wf, g7_ranked⟩

/-- its absorbing states: the two sinks and the final state -/
example : Absorbing g7 4 ∧ Absorbing g7 5 ∧ Absorbing g7 6 := ⟨g7_abs4, g7_abs5, g7_abs6⟩

/-- `[¾, ¾, ½, 1, 0, 1, 0]` is the exact solution, hence (by `isValue_iff_exactReach`) the value -/
example : ExactReach g7 v7 ∧ IsValue g7 v7 :=
  ⟨v7_exact, (isValue_iff_exactReach g7_wf g7_ranked v7).mpr ⟨rfl, v7_exact⟩⟩

/-- `reach_exact_of_ranked` instantiated through its FIRST alternative on the run of `g7` with
threshold 10⁻⁶: four sweeps `≥ R + 1 = 3`; the reported vector is the value -/
example : ∃ r, solveReach (roundRat 6) thr 1000 true g7 = .ok r ∧
    r.probs = #[3/4, 3/4, 1/2, 1, 0, 1, 0] ∧ r.iters = 4 ∧ IsValue g7 r.probs := by
  obtain ⟨r, H, h⟩ := g7_reach_run
  simp only [Prod.mk.injEq] at h
  obtain ⟨h1, h2, _⟩ := h
  exact ⟨r, H, h1, h2, (reach_exact_of_ranked g7_wf H g7_ranked (Or.inl (by rw [h2]; decide))).1⟩

/-- `reach_error_of_ranked` and `reach_exact_on_low_rank` instantiated on the run of `g7` with
threshold 3/4, which stops after TWO sweeps: every state is within `(rk + 1)·¾` of the value, the
states of rank `< 2` are exact, and state 0 — rank 2, swept before its successors — is NOT: it
reports 1/2, its value is 3/4 (so the offset in `rk s + 1 ≤ r.iters` cannot be dropped) -/
example : ∃ r, solveReach (roundRat 6) (3/4 : Rat) 1000 true g7 = .ok r ∧ r.iters = 2 ∧
    (∀ s < g7.owners.size, |r.probs.getD s 0 - v7.getD s 0| ≤ ((rk7 s : Rat) + 1) * (3/4)) ∧
    (∀ s < g7.owners.size, rk7 s + 1 ≤ 2 → r.probs.getD s 0 = v7.getD s 0) ∧
    r.probs.getD 0 0 = 1/2 ∧ v7.getD 0 0 = 3/4 ∧ rk7 0 = 2 := by
  obtain ⟨r, H, h⟩ := g7_reach_run_early
  simp only [Prod.mk.injEq] at h
  obtain ⟨h1, h2, _⟩ := h
  have hv : IsValue g7 v7 := (isValue_iff_exactReach g7_wf g7_ranked v7).mpr ⟨rfl, v7_exact⟩
  refine ⟨r, H, h2, reach_error_of_ranked g7_wf H g7_ranked v7 hv, fun s hs hk => ?_, ?_, ?_, ?_⟩
  · exact reach_exact_on_low_rank g7_wf H g7_ranked v7 hv s hs
      (Or.inr (Or.inr (Or.inr (by rw [h2]; exact hk))))
  · rw [h1]; decide +kernel
  · decide +kernel
  · decide

/-- existence and uniqueness of the value, instantiated -/
example : ∃! v : Array Rat, IsValue g7 v := value_exists_of_ranked g7_wf g7_ranked

end NonVacuity

end CR.C01
