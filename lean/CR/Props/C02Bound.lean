/-
C02, one-sided bound: the reported expected rewards never exceed the value of the conditioned game.

`Brew` is the Bellman operator of the total-reward game on the conditioned transition lists
(`out.nodes`): own reward plus the max (Player 1) / min (Player 2) / expectation (probabilistic) of
the successor values; 0 for a state whose list was emptied.  It is monotone.  The reward loop
starts from the reward vector itself and only ever replaces an entry by `Brew` of the current
vector, so every iterate stays below every pre-fixed point of `Brew` that dominates the reward
vector — in particular below the least one, which (when it exists, i.e. when the conditioned game
is stopping) is the max–min expected total reward.  With pruning off, and a rounding function that
maps non-negative numbers to non-negative integers (Python's `round` does), no list is emptied and the
domination hypothesis is automatic.  For an ARBITRARY rounding function that is false — the first
version of this file claimed it and the prover returned the counter-example kept below as
`noprune_bound_needs_rnd` (a rounding function that is constantly −1 empties a Player-1 row).

This is the counterpart of `C01.reach_le_prefixed` / `C01.reach_le_value` for the reward phase; it
holds for every threshold, every fuel, every rounding function, cyclic games included.  (The other
direction is the listed residual-stop finding.)

Helper lemmas: `CR/Lemmas/RewBound.lean`.
-/
import CR.Lemmas.RewBound
import CR.Props.C02
import CR.Props.C06

set_option linter.unusedSectionVars false

namespace CR.C02

open CR CR.VI CR.Rew

variable {K : Type} [Field K] [LinearOrder K] [IsStrictOrderedRing K]

/-- a pre-fixed point, in `[0,∞)`, of the reward operator on the transition lists `nodes` -/
def RewPreFixed (o : Array Owner) (rewards : Array K) (nodes : Array (List (Tr K))) (y : Array K) : Prop :=
  y.size = o.size ∧ (∀ s < o.size, 0 ≤ y.getD s 0) ∧ ∀ s < o.size, Brew o rewards nodes y s ≤ y.getD s 0

/-- `w` is the least pre-fixed point of the reward operator among those that dominate `r` -/
def IsLeastRewPreFixed (o : Array Owner) (rewards : Array K) (nodes : Array (List (Tr K))) (w : Array K) : Prop :=
  RewPreFixed o rewards nodes w ∧ (∀ s < o.size, rewards.getD s 0 ≤ w.getD s 0) ∧
    ∀ y, RewPreFixed o rewards nodes y → (∀ s < o.size, rewards.getD s 0 ≤ y.getD s 0) →
      ∀ s < o.size, w.getD s 0 ≤ y.getD s 0

section
variable {rnd : K → Int} {thr : K} {fuel : Nat} {prune : Bool} {g : Game K} {out : SolveOut K}

/-- `Brew` is monotone in the value vector (probabilities of the rows of probabilistic states
non-negative) -/
theorem brew_mono (o : Array Owner) (rewards : Array K) (nodes : Array (List (Tr K)))
    (hp : ∀ s < o.size, o.getD s .prob = .prob → ∀ t ∈ nodes.getD s [], 0 ≤ t.p)
    (x y : Array K) (hxy : ∀ j, x.getD j 0 ≤ y.getD j 0) (s : Nat) (hs : s < o.size) :
    Brew o rewards nodes x s ≤ Brew o rewards nodes y s :=
  RewBound.Brew_mono o rewards nodes x y s (hp s hs) hxy

/-- **upper bound, both pruning modes.**  On `.ok`, the reported expected rewards are below every
pre-fixed point of the reward operator of the conditioned game that dominates the reward vector. -/
theorem rew_le_prefixed (hwf : NodesWF g.owners out.nodes) (H : solve rnd thr fuel prune g = .ok out)
    (y : Array K) (hy : RewPreFixed g.owners g.rewards out.nodes y)
    (hyr : ∀ s < g.owners.size, g.rewards.getD s 0 ≤ y.getD s 0) :
    ∀ s < g.owners.size, out.rewards.getD s 0 ≤ y.getD s 0 := fun s _ =>
  RewBound.solve_upper hwf H y hy.2.2
    (RewBound.getD_le_of_lt (init_sized H).1 hy.1 hyr) s

/-- in particular below the least such pre-fixed point -/
theorem rew_le_least (hwf : NodesWF g.owners out.nodes) (H : solve rnd thr fuel prune g = .ok out)
    (w : Array K) (hw : IsLeastRewPreFixed g.owners g.rewards out.nodes w) :
    ∀ s < g.owners.size, out.rewards.getD s 0 ≤ w.getD s 0 :=
  rew_le_prefixed hwf H w hw.1 hw.2.1

/-! ### pruning off

`hrnd`: the rounding function maps non-negative numbers to non-negative integers (true of
`roundRat d` and of Python's `round`).  Without it a Player-1 state whose rounded successor
reachability values are all negative gets the empty strategy and its row is emptied even with
pruning off.  More generally both conclusions hold, in either pruning mode, whenever no conditioned
row is empty: `RewBound.upper_of_rows_ne_nil`, `RewBound.subsol_of_rows_ne_nil`. -/

/-- **pruning off, well-formed game: no domination hypothesis.**  No transition list is emptied, so
every pre-fixed point in `[0,∞)` dominates the reward vector; the reported rewards are below ALL of
them.  (`hrnd` cannot be dropped: `noprune_bound_needs_rnd`.) -/
theorem rew_le_prefixed_noprune (h : C06.WFull g) (hrnd : ∀ x : K, 0 ≤ x → 0 ≤ rnd x)
    (H : solve rnd thr fuel false g = .ok out)
    (y : Array K) (hy : RewPreFixed g.owners g.rewards out.nodes y) :
    ∀ s < g.owners.size, out.rewards.getD s 0 ≤ y.getD s 0 :=
  RewBound.rew_le_prefixed_noprune' h hrnd H y hy.1 hy.2.1 hy.2.2

/-- pruning off, well-formed game: every state's reported reward is at least its own reward, and the
reported vector is a SUB-solution, `out.rewards s ≤ Brew out.rewards s` (the iterates increase) -/
theorem rew_subsolution_noprune (h : C06.WFull g) (hrnd : ∀ x : K, 0 ≤ x → 0 ≤ rnd x)
    (H : solve rnd thr fuel false g = .ok out) :
    (∀ s < g.owners.size, g.rewards.getD s 0 ≤ out.rewards.getD s 0) ∧
    ∀ s < g.owners.size, out.rewards.getD s 0 ≤ Brew g.owners g.rewards out.nodes out.rewards s :=
  RewBound.rew_subsolution_noprune' h hrnd H

end

/-! ### non-vacuity -/

section NonVacuity
open CR.Examples CR.Rew.Examples

/-- all hypotheses of `rew_le_prefixed` hold together on the concrete 7-state run (pruning on),
with `y` the reported vector itself -/
example : ∃ out, solve (roundRat 6) thr 1000 true g7 = .ok out ∧
    RewPreFixed g7.owners g7.rewards out.nodes #[2, 2, 0, 2, 0, 0, 0] ∧
    ∀ s < g7.owners.size, out.rewards.getD s 0 ≤ (#[2, 2, 0, 2, 0, 0, 0] : Array Rat).getD s 0 := by
  obtain ⟨out, H, _, _, _, _, _, hn, _⟩ := g7_run
  have hcases : ∀ s < g7.owners.size, s = 0 ∨ s = 1 ∨ s = 2 ∨ s = 3 ∨ s = 4 ∨ s = 5 ∨ s = 6 := by
    intro s hs; have hs' : s < 7 := hs; omega
  have hy : RewPreFixed g7.owners g7.rewards out.nodes #[2, 2, 0, 2, 0, 0, 0] := by
    rw [hn]
    refine ⟨rfl, fun s hs => ?_, fun s hs => ?_⟩ <;>
      rcases hcases s hs with rfl | rfl | rfl | rfl | rfl | rfl | rfl <;> decide +kernel
  refine ⟨out, H, hy, rew_le_prefixed (by rw [hn]; exact g7_wf) H _ hy (fun s hs => ?_)⟩
  rcases hcases s hs with rfl | rfl | rfl | rfl | rfl | rfl | rfl <;> decide +kernel

end NonVacuity


/-! ### the hypothesis on the rounding function cannot be dropped -/

section Counterexample
open CR.Examples

/-- one Player-1 state with a self-loop, final, reward 5 -/
def gcNeg : Game Rat where
  rewards := #[5]
  owners := #[.p1]
  tl := #[[tr "a" 0 0]]
  finals := [0]

theorem gcNeg_wfull : C06.WFull gcNeg := by
  refine ⟨by decide, rfl, rfl, ?_, by decide, ?_, ?_, ?_⟩
  · intro s hs; have : s = 0 := by change s < 1 at hs; omega
    subst this; decide +kernel
  · intro f hf; simp [gcNeg] at hf; subst hf; decide
  · intro s hs; have : s = 0 := by change s < 1 at hs; omega
    subst this; simp [gcNeg, tr]
  · intro s hs ho; have : s = 0 := by change s < 1 at hs; omega
    subst this; simp [gcNeg] at ho

private theorem gcNeg_ord :
    reverseDfs (gcNeg.tl.toList.map (fun row => row.map (·.tgt))) gcNeg.finals = [] := by
  have hrev : revTable (gcNeg.tl.toList.map (fun row => row.map (·.tgt))) = #[[0]] := by decide +kernel
  have hdfs : dfsLoop #[[0]] [0] [] = [0] := by simp [dfsLoop]
  unfold reverseDfs
  rw [hrev]
  simp only [gcNeg, List.foldl_cons, List.foldl_nil, hdfs]
  simp

/-- with the rounding function constantly −1 and `thr = 2`: a well-formed game, pruning off, a
pre-fixed point `y = #[0]` of the conditioned reward operator, and a reported reward 5 above it -/
theorem noprune_bound_needs_rnd : ∃ (out : SolveOut Rat) (y : Array Rat), C06.WFull gcNeg ∧
    solve (fun _ => -1) 2 1000 false gcNeg = .ok out ∧
    RewPreFixed gcNeg.owners gcNeg.rewards out.nodes y ∧
    ¬ (∀ s < gcNeg.owners.size, out.rewards.getD s 0 ≤ y.getD s 0) := by
  have run2 : ∃ out, solve (fun _ => -1) 2 1000 false gcNeg = .ok out ∧
      (out.rewards, out.nodes) = (#[5], #[[]]) :=
    exists_ok_of_toOption_map (by unfold solve solveReach; rw [gcNeg_ord]; decide +kernel)
  obtain ⟨out, H, ho⟩ := run2
  simp only [Prod.mk.injEq] at ho
  refine ⟨out, #[0], gcNeg_wfull, H, ⟨rfl, ?_, ?_⟩, fun h => ?_⟩
  · intro s hs; have : s = 0 := by change s < 1 at hs; omega
    subst this; decide +kernel
  · intro s hs; have : s = 0 := by change s < 1 at hs; omega
    subst this; rw [ho.2]; decide +kernel
  · have := h 0 (by decide)
    rw [ho.1] at this; revert this; decide +kernel

end Counterexample

end CR.C02
