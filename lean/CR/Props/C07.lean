/-
C07: correctness of the reversed-transition table and of the backward search `reverseDfs`
(model: `CR/Model/Rdfs.lean`; helper lemmas: `CR/Lemmas/Rdfs.lean`).
-/
import CR.Lemmas.Rdfs

namespace CR.C07

open CR CR.RdfsLemmas

/-- `u → v` is a transition: `v` occurs in row `u` of the transition list -/
def Edge (tl : List (List Nat)) (u v : Nat) : Prop := v ∈ tl.getD u []

/-- reflexive-transitive closure of `Edge` -/
def Reach (tl : List (List Nat)) : Nat → Nat → Prop := Relation.ReflTransGen (Edge tl)

/-- all targets and all final states are states `0..n-1` -/
def InRange (tl : List (List Nat)) (finals : List Nat) : Prop :=
  (∀ row ∈ tl, ∀ v ∈ row, v < tl.length) ∧ (∀ f ∈ finals, f < tl.length)

/-- 1. the table has exactly the keys `0..n-1` -/
theorem rev_table_size (tl : List (List Nat)) : (revTable tl).size = tl.length :=
  revTable_size tl

/-- 2. `u` is listed under `v` once per transition from `u` to `v`
(the range hypothesis on the rows of `tl` is not needed) -/
theorem rev_table_count (tl : List (List Nat)) (u v : Nat) (hv : v < tl.length) :
    ((revTable tl).getD v []).count u = (tl.getD u []).count v :=
  revTable_count tl u v hv

/-- 3. membership: the non-final states from which some final state is reachable
(only the range hypothesis on the rows of `tl` is needed, not the one on `finals`) -/
theorem rdfs_mem (tl : List (List Nat)) (finals : List Nat)
    (h : ∀ row ∈ tl, ∀ v ∈ row, v < tl.length) (s : Nat) :
    s ∈ reverseDfs tl finals ↔ (s ∉ finals ∧ ∃ f ∈ finals, Reach tl s f) := by
  rw [mem_reverseDfs]
  constructor
  · rintro ⟨hs, hnf⟩
    refine ⟨hnf, ?_⟩
    refine allFrom_sound (revTable tl) (fun s => ∃ f ∈ finals, Reach tl s f) ?_ finals []
      (fun f hf => ⟨f, hf, Relation.ReflTransGen.refl⟩) (fun x hx => by simp at hx) s hs
    rintro v ⟨f, hf, hvf⟩ u hu
    exact ⟨f, hf, Relation.ReflTransGen.head (edge_of_mem_revTable tl u v hu) hvf⟩
  · rintro ⟨hnf, f, hf, hsf⟩
    refine ⟨?_, hnf⟩
    obtain ⟨_, h2, h3⟩ := allFrom_complete (revTable tl) finals [] (fun v hv => by simp at hv)
    refine mem_of_reflTransGen (r := Edge tl) ?_ hsf (h2 f hf)
    intro v hv u he
    exact h3 v hv u (mem_revTable_of_edge tl u v (target_lt_of_edge tl h u v he) he)

/-- 4. strictly ascending: sorted, and every state exactly once (no hypothesis needed) -/
theorem rdfs_sorted (tl : List (List Nat)) (finals : List Nat) :
    (reverseDfs tl finals).Pairwise (· < ·) :=
  reverseDfs_sorted_lt tl finals

/-- 5. (3) and (4) determine the output uniquely -/
theorem rdfs_unique (tl : List (List Nat)) (finals : List Nat)
    (h : ∀ row ∈ tl, ∀ v ∈ row, v < tl.length) (l : List Nat) (hs : l.Pairwise (· < ·))
    (hm : ∀ s, s ∈ l ↔ (s ∉ finals ∧ ∃ f ∈ finals, Reach tl s f)) :
    reverseDfs tl finals = l :=
  eq_of_sorted_lt_of_mem_iff (rdfs_sorted tl finals) hs
    (fun s => (rdfs_mem tl finals h s).trans (hm s).symm)

/-! The statements in their originally requested form (with the unnecessary hypotheses) follow
immediately. -/

example (tl : List (List Nat)) (_h : ∀ row ∈ tl, ∀ v ∈ row, v < tl.length) (u v : Nat)
    (hv : v < tl.length) : ((revTable tl).getD v []).count u = (tl.getD u []).count v :=
  rev_table_count tl u v hv

example (tl : List (List Nat)) (finals : List Nat) (h : InRange tl finals) (s : Nat) :
    s ∈ reverseDfs tl finals ↔ (s ∉ finals ∧ ∃ f ∈ finals, Reach tl s f) :=
  rdfs_mem tl finals h.1 s

example (tl : List (List Nat)) (finals : List Nat) (h : InRange tl finals) (l : List Nat)
    (hs : l.Pairwise (· < ·))
    (hm : ∀ s, s ∈ l ↔ (s ∉ finals ∧ ∃ f ∈ finals, Reach tl s f)) : reverseDfs tl finals = l :=
  rdfs_unique tl finals h.1 l hs hm

/-! ## Non-vacuity

Graph `g` on states `0..7`:
`0 → 1, 2`; `1 → 3` (twice); `2 → 3, 0` (cycle `0 → 2 → 0`; diamond `0 → {1,2} → 3`);
`3 → 3, 4` (self-loop); `4 → 4, 5`; `5 → 6`, `6 → 5` (a cycle that cannot reach `4`);
`7 → 0` (a source). -/

/-- example graph -/
def g : List (List Nat) := [[1, 2], [3, 3], [3, 0], [3, 4], [4, 5], [6], [5], [0]]

example : InRange g [4] := by simp [InRange, g]
example : InRange g [4, 3] := by simp [InRange, g]

example : revTable g = #[[2, 7], [0], [0], [1, 1, 2, 3], [3, 4], [4, 6], [5], []] := by decide

example : reverseDfs g [4] = [0, 1, 2, 3, 7] := by
  simp [reverseDfs, revTable, revCore, g, dfsLoop, List.zipIdx, List.mergeSort,
    List.MergeSort.Internal.splitInTwo]

example : reverseDfs g [4, 3] = [0, 1, 2, 7] := by
  simp [reverseDfs, revTable, revCore, g, dfsLoop, List.zipIdx, List.mergeSort,
    List.MergeSort.Internal.splitInTwo]

example : reverseDfs g [] = [] := by
  simp [reverseDfs]

example : reverseDfs [[0, 1], [1]] [1] = [0] := by
  simp [reverseDfs, revTable, revCore, dfsLoop, List.zipIdx]

/-- the hypotheses of `rdfs_mem` hold for the example and both sides of it are inhabited -/
example : 7 ∉ [4] ∧ ∃ f ∈ [4], Reach g 7 f :=
  (rdfs_mem g [4] (by decide) 7).1 (by
    simp [reverseDfs, revTable, revCore, g, dfsLoop, List.zipIdx])

example : ¬ ∃ f ∈ [4], Reach g 5 f := by
  intro hr
  have := (rdfs_mem g [4] (by decide) 5).2 ⟨by decide, hr⟩
  simp [reverseDfs, revTable, revCore, g, dfsLoop, List.zipIdx] at this

/-- the range hypothesis on the rows cannot be dropped from `rdfs_mem`: with a target outside
`0..n-1` the table has no slot for it and the search misses its predecessors -/
example : reverseDfs [[1]] [1] = [] ∧ (0 ∉ [1] ∧ ∃ f ∈ [1], Reach [[1]] 0 f) := by
  refine ⟨by simp [reverseDfs, revTable, revCore, dfsLoop, List.zipIdx], by decide, 1, by simp, ?_⟩
  exact Relation.ReflTransGen.single (by simp [Edge])

end CR.C07
