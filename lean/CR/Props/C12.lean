/-
C12: batch runs solve each game in isolation and report failures
(model: `CR/Model/Batch.lean`; helper lemmas: `CR/Lemmas/Validate.lean`).

`runOne thr fuel g` is "solving that game alone": it depends on nothing but the game itself.
`runGames thr fuel games = .ok d` is a batch run that was not aborted by an exception other
than `ValueError` (those are not caught by `run_games`).
-/
import CR.Lemmas.Validate

namespace CR.C12

open CR CR.Py CR.Batch CR.ValidateLemmas

/-- the keys written by a batch run, in run order -/
def keysOf (games : List (String × PyGame)) : List String :=
  games.flatMap (fun ng => [ng.1, ng.1 ++ "_no_prune"])

/-- the input names are distinct AND no game is called like another one's `"_no_prune"` key -/
def NoClash (games : List (String × PyGame)) : Prop := (keysOf games).Nodup

/-- `d[k]` on the result dict -/
def lookup (d : List (String × Entry)) (k : String) : Option Entry :=
  (d.find? (fun kv => kv.1 == k)).map (·.2)

/-- 1. every game has one pruned and one unpruned entry, and they are exactly what running that
game alone gives — whatever the other games in the file are, and in whatever order -/
theorem batch_isolated (thr : Float) (fuel : Nat) (games : List (String × PyGame))
    (d : List (String × Entry)) (hnc : NoClash games) (h : runGames thr fuel games = .ok d) :
    ∀ ng ∈ games, ∃ e1 e2, runOne thr fuel ng.2 = .ok (e1, e2) ∧
      lookup d ng.1 = some e1 ∧ lookup d (ng.1 ++ "_no_prune") = some e2 :=
  fun ng hng => runGames_isolated thr fuel games d hnc h ng hng

/-- 2. the result has exactly one pruned and one unpruned key per game, in run order -/
theorem batch_order (thr : Float) (fuel : Nat) (games : List (String × PyGame))
    (d : List (String × Entry)) (hnc : NoClash games) (h : runGames thr fuel games = .ok d) :
    d.map (·.1) = keysOf games :=
  runGames_order thr fuel games d hnc h

/-- 3. reordering the file changes no entry -/
theorem batch_perm (thr : Float) (fuel : Nat) (games games' : List (String × PyGame))
    (d : List (String × Entry)) (hnc : NoClash games) (hp : games'.Perm games)
    (h : runGames thr fuel games = .ok d) :
    ∃ d', runGames thr fuel games' = .ok d' ∧ ∀ k, lookup d' k = lookup d k :=
  runGames_perm thr fuel games games' d hnc hp h

/-- 4. if the pruned solve fails with a `ValueError` (well-formedness or no-solution), the
pruned entry carries the error message, the unpruned entry is marked not solved, neither has a
result — and the batch goes on (the run of this game is `.ok`; by 1 the entries of the other
games are unaffected) -/
theorem batch_failure (thr : Float) (fuel : Nat) (g : PyGame) (e : Err)
    (h : solvePy thr fuel true g = .error e) (hv : isValueError e = true) :
    runOne thr fuel g = .ok
      (⟨g.players.length, countTransitions g, .error e, none⟩,
       ⟨g.players.length, countTransitions g, .notSolved, none⟩) :=
  runOne_failure thr fuel g e h hv

/-- 5. the state and transition counts of both entries are those of the game itself -/
theorem batch_counts (thr : Float) (fuel : Nat) (g : PyGame) (e1 e2 : Entry)
    (h : runOne thr fuel g = .ok (e1, e2)) :
    e1.nStates = g.players.length ∧ e1.nTransitions = countTransitions g ∧
    e2.nStates = g.players.length ∧ e2.nTransitions = countTransitions g :=
  runOne_counts thr fuel g e1 e2 h

/-- 6. if no single game aborts, the batch does not abort (no `NoClash` needed) -/
theorem batch_total (thr : Float) (fuel : Nat) (games : List (String × PyGame))
    (h : ∀ ng ∈ games, ∃ p, runOne thr fuel ng.2 = .ok p) :
    ∃ d, runGames thr fuel games = .ok d :=
  runGames_total thr fuel games h

/-- 6'. with `NoClash`, the batch succeeds exactly when every game alone does -/
theorem batch_ok_iff (thr : Float) (fuel : Nat) (games : List (String × PyGame))
    (hnc : NoClash games) :
    (∃ d, runGames thr fuel games = .ok d) ↔ ∀ ng ∈ games, ∃ p, runOne thr fuel ng.2 = .ok p :=
  ⟨fun ⟨d, h⟩ => ((runGames_ok_iff thr fuel games d hnc).1 h).1, batch_total thr fuel games⟩

/-! ## non-vacuity, and necessity of `NoClash` -/

/-- a malformed game (no states, hence no rewards) -/
def bad : PyGame := { rewards := [], players := [], tl := [], finals := [] }

example : NoClash [("a", bad), ("b", bad), ("a_no_prune_x", bad)] := by
  unfold NoClash; decide

example (thr : Float) (fuel : Nat) :
    ∃ d, runGames thr fuel [("a", bad), ("b", bad)] = .ok d ∧
      d.map (·.1) = ["a", "a_no_prune", "b", "b_no_prune"] :=
  ⟨_, rfl, by decide⟩

/-- 7. `NoClash` is necessary (recorded finding: the result keys `name` and
`name + "_no_prune"` collide): a file with the games `"a"` and `"a_no_prune"` yields only
3 entries, and the unpruned entry of `"a"` has been overwritten by the pruned entry of
`"a_no_prune"` -/
example (thr : Float) (fuel : Nat) :
    ¬ NoClash [("a", bad), ("a_no_prune", bad)] ∧
    ∃ d, runGames thr fuel [("a", bad), ("a_no_prune", bad)] = .ok d ∧
      d.map (·.1) = ["a", "a_no_prune", "a_no_prune_no_prune"] ∧
      ∃ e, lookup d "a_no_prune" = some e ∧ e.msg = .error (.malformed "min of empty rewards") :=
  ⟨by unfold NoClash; decide, _, rfl, by decide, _, rfl, rfl⟩

end CR.C12
