/-
C13, one more way of writing a game down: the ORDER in which the final states are listed, and
whether one of them is listed more than once, is irrelevant.

`check_game` only asks whether the list is empty and whether all its entries are in range, the initial
vector uses membership, and the backward search returns the ascending list of the non-final states
that can reach a member of the list (C07: its output is determined by the SET of final states).  Hence
two descriptions that differ only in the list of final states, with the same members, are solved to the
same result — every component of it, in both modes, for every threshold, fuel and rounding function,
and they fail in the same way when they fail.
-/
import CR.Props.C07
import CR.Props.C01
import CR.Lemmas.Finals

set_option linter.unusedSectionVars false

namespace CR.C13

open CR

variable {K : Type} [Field K] [LinearOrder K] [IsStrictOrderedRing K]

/-- the backward search depends on the set of final states only -/
theorem reverseDfs_finals_irrelevant (tl : List (List Nat)) (f f' : List Nat)
    (hmem : ∀ s, s ∈ f' ↔ s ∈ f) :
    reverseDfs tl f' = reverseDfs tl f :=
  FinalsLemmas.reverseDfs_congr tl f f' hmem

/-- the reachability phase depends on the set of final states only -/
theorem solveReach_finals_irrelevant (rnd : K → Int) (thr : K) (fuel : Nat) (prune : Bool) (g : Game K)
    (f' : List Nat) (hmem : ∀ s, s ∈ f' ↔ s ∈ g.finals) :
    solveReach rnd thr fuel prune { g with finals := f' } = solveReach rnd thr fuel prune g := by
  have hc : checkGame { g with finals := f' } = checkGame g := by
    simp only [checkGame, FinalsLemmas.isEmpty_congr g.finals f' hmem,
      FinalsLemmas.any_congr _ g.finals f' hmem]
  have hi : initStates { g with finals := f' } = initStates g := rfl
  have hr : reverseDfs (g.tl.toList.map (fun row => row.map (·.tgt))) f'
      = reverseDfs (g.tl.toList.map (fun row => row.map (·.tgt))) g.finals :=
    reverseDfs_finals_irrelevant _ _ _ hmem
  have hk : ∀ s, f'.contains s = g.finals.contains s :=
    FinalsLemmas.contains_congr g.finals f' hmem
  simp only [solveReach, hc, hi, hr, hk]

/-- **the whole result depends on the set of final states only** (order and repetitions in
`final_states` are irrelevant) -/
theorem solve_finals_irrelevant (rnd : K → Int) (thr : K) (fuel : Nat) (prune : Bool) (g : Game K)
    (f' : List Nat) (hmem : ∀ s, s ∈ f' ↔ s ∈ g.finals) :
    solve rnd thr fuel prune { g with finals := f' } = solve rnd thr fuel prune g := by
  have hs := solveReach_finals_irrelevant rnd thr fuel prune g f' hmem
  have hcond : ∀ st (re : Array K), condition prune { g with finals := f' } st re
      = condition prune g st re := fun _ _ => rfl
  simp only [solve, hs, hcond]

end CR.C13
