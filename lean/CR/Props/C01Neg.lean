/-
C01, negative part: the clause "every other state reports a number … within the solver's
convergence tolerance of the true value" is FALSE of the algorithm the code implements
(value iteration that stops on a small CHANGE).  Witness, proved in the model over exact
rationals by kernel evaluation: the three-state game `exGame` (state 0 stays with 3/4, reaches
the final state with 1/8 and the sink with 1/8) has value 1/2 at state 0; with the threshold
10⁻⁶ the solver stops after 42 sweeps and reports a number more than 2·10⁻⁶ below 1/2.
The same game is replayed on the real code on every run (findings/C01-residual-stop.json,
known finding `C01.tolerance@…:residual-stop`).
-/
import CR.Props.C01

namespace CR.C01
open CR CR.VI

private theorem exPreFixed' : PreFixed exGame #[1/2, 1, 0] := by
  refine ⟨rfl, ?_, ?_⟩
  · intro s hs
    have hs' : s < 3 := hs
    have : s = 0 ∨ s = 1 ∨ s = 2 := by omega
    rcases this with rfl | rfl | rfl <;> simp
  · intro s hs
    have hs' : s < 3 := hs
    have : s = 0 ∨ s = 1 ∨ s = 2 := by omega
    rcases this with rfl | rfl | rfl <;> simp [Bell, stepReach, exGame]
    norm_num

/-- `[1/2, 1, 0]` is the max–min value of the witness game -/
theorem exGame_value : IsValue exGame #[1/2, 1, 0] := by
  refine ⟨exPreFixed', fun y hy s hs => ?_⟩
  have h0 := hy.2.2 0 (by decide)
  have h1 := hy.2.2 1 (by decide)
  have h2 := hy.2.1 2 (by decide)
  simp [Bell, stepReach, exGame] at h0 h1 h2
  have hs' : s < 3 := hs
  have : s = 0 ∨ s = 1 ∨ s = 2 := by omega
  rcases this with rfl | rfl | rfl
  · simp; linarith
  · simpa using h1
  · simpa using h2

private theorem exOrder' : reverseDfs (exGame.tl.toList.map (fun row => row.map (·.tgt))) exGame.finals = [0] := by
  unfold reverseDfs
  have hrev : revTable (exGame.tl.toList.map (fun row => row.map (·.tgt))) =
      #[[0], [0, 1], [0, 2]] := by decide
  simp only [hrev]
  simp [exGame, dfsLoop]

private theorem exCheck' : checkGame exGame = .ok () := by
  simp [checkGame, exGame, anyNeg]
  rfl

private theorem exInit' : initStates exGame = .ok () := by
  simp [initStates, exGame]
  rfl

/-- kernel evaluation of the exact run: 42 sweeps, final gap to the value > 2·10⁻⁶ -/
private theorem vi42 :
    (match viReach exGame.owners exGame.tl [0] (1/1000000 : Rat) 100 1 (initVec exGame) 0 with
     | .ok r => decide (r.2 = 42) && decide ((1/2 : Rat) - r.1.getD 0 0 > 2/1000000)
     | _ => false) = true := by
  decide +kernel

/-- **the tolerance clause of C01 fails**: a successful run, with the solver's own threshold,
whose report for state 0 is further than TWICE the threshold below the true value -/
theorem tolerance_clause_fails :
    ∃ r, solveReach (roundRat 6) (1/1000000 : Rat) 100 false exGame = .ok r ∧ r.iters = 42 ∧
      IsValue exGame #[1/2, 1, 0] ∧ (1/2 : Rat) - r.probs.getD 0 0 > 2 * (1/1000000) := by
  have h := vi42
  split at h
  · rename_i res hres
    obtain ⟨probs, iters⟩ := res
    simp only [Bool.and_eq_true, decide_eq_true_eq] at h
    refine ⟨⟨probs, reachStrategies (roundRat 6) exGame.owners exGame.tl probs, iters, [0]⟩, ?_, h.1,
      exGame_value, by have := h.2; norm_num at this ⊢; exact this⟩
    unfold solveReach
    simp only [bind, Except.bind, exCheck', exInit', exOrder']
    rw [show (Array.range exGame.owners.size).map
      (fun s => if exGame.finals.contains s then (1 : Rat) else 0) = initVec exGame from rfl]
    rw [hres]
    have : (false && (probs.getD 0 0 == 0)) = false := rfl
    simp [pure, Except.pure]
  · exact absurd h (by simp)

end CR.C01
