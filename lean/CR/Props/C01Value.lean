/-
C01: "the value" is not a vacuous notion.  Over the reals every well-formed game HAS a value in
the sense of `IsValue` (the least pre-fixed point of the Bellman operator `Bell`), it is unique,
and its entries are probabilities; hence `reach_le_value` speaks about an existing object.

Construction (Knaster–Tarski on the finitely many coordinates): `v s` is the infimum of `y s`
over all pre-fixed points `y` with entries `≤ 1`.  That family is non-empty (the all-ones
vector) and closed under pointwise infimum because `Bell` is monotone; a pre-fixed point with
entries above 1 is first clamped at 1, which keeps it pre-fixed.  Helper lemmas (valid over any
linearly ordered field): `CR/Lemmas/ExtraValue.lean`.
-/
import CR.Lemmas.ExtraValue

set_option linter.unusedSectionVars false

namespace CR.C01

open CR CR.VI

/-! ### any linearly ordered field: uniqueness and range of a value -/

section Field
variable {K : Type} [Field K] [LinearOrder K] [IsStrictOrderedRing K]

/-- a game has at most one value -/
theorem value_unique (g : Game K) (v w : Array K) (hv : IsValue g v) (hw : IsValue g w) :
    v = w := by
  have hsz : v.size = w.size := hv.1.1.trans hw.1.1.symm
  refine Array.ext hsz (fun i hi hi' => ?_)
  have hin : i < g.owners.size := hv.1.1 ▸ hi
  have h1 := hv.2 w hw.1 i hin
  have h2 := hw.2 v hv.1 i hin
  have e1 : v.getD i 0 = v[i] := by simp [Array.getD, hi]
  have e2 : w.getD i 0 = w[i] := by simp [Array.getD, hi']
  rw [e1, e2] at h1 h2
  exact le_antisymm h1 h2

/-- the entries of the value of a well-formed game are probabilities -/
theorem value_range (g : Game K) (hwf : WF g) (v : Array K) (hv : IsValue g v) :
    ∀ s, 0 ≤ v.getD s 0 ∧ v.getD s 0 ≤ 1 := by
  intro s
  by_cases hs : s < g.owners.size
  · exact ⟨hv.1.2.1 s hs, le_trans (hv.2 _ (ones_prefixed hwf) s hs) (ones_getD_le g s)⟩
  · rw [getD_of_size_le v s 0 (by rw [hv.1.1]; exact Nat.le_of_not_lt hs)]
    exact ⟨le_rfl, zero_le_one⟩

/-- the value is a fixed point of the Bellman operator, not only a pre-fixed point
(`Bell` of a pre-fixed point is again one, by monotonicity) -/
theorem value_fixed (g : Game K) (hwf : WF g) (v : Array K) (hv : IsValue g v) :
    ∀ s < g.owners.size, Bell g v s = v.getD s 0 := by
  intro s hs
  refine le_antisymm (hv.1.2.2 s hs) ?_
  -- `w := Bell g v` (as an array) is pre-fixed, hence above `v`
  let w : Array K := Array.ofFn (n := g.owners.size) (fun t => Bell g v t.val)
  have hwget : ∀ j, w.getD j 0 = if j < g.owners.size then Bell g v j else 0 := by
    intro j; show (Array.ofFn _).getD j 0 = _; rw [getD_ofFn_dflt]; split <;> rfl
  have hwle : ∀ j, w.getD j 0 ≤ v.getD j 0 := by
    intro j
    rw [hwget]
    split
    · rename_i hj; exact hv.1.2.2 j hj
    · rename_i hj
      rw [getD_of_size_le v j 0 (by rw [hv.1.1]; exact Nat.le_of_not_lt hj)]
  have hvnn : ∀ j, 0 ≤ v.getD j 0 := fun j => (value_range g hwf v hv j).1
  have hw : PreFixed g w := by
    refine ⟨by simp [w], fun t ht => ?_, fun t ht => ?_⟩
    · rw [hwget, if_pos ht]
      unfold Bell
      split
      · exact zero_le_one
      · exact stepReach_nonneg (hwf.rowNonneg_pub ht) v hvnn
    · rw [hwget, if_pos ht]
      exact Bell_mono hwf ht _ _ hwle
  have := hv.2 w hw s hs
  rwa [hwget, if_pos hs] at this

end Field

/-! ### the reals: existence -/

/-- **Existence of the value.**  Every well-formed game over the reals has a value: there is a
least pre-fixed point of the Bellman operator (least among ALL pre-fixed points in `[0,∞)`). -/
theorem value_exists (g : Game ℝ) (hwf : WF g) : ∃ v : Array ℝ, IsValue g v := by
  let v : Array ℝ := Array.ofFn (n := g.owners.size) (fun s => sInf (Vals g s.val))
  have hvget : ∀ j, v.getD j 0 = if j < g.owners.size then sInf (Vals g j) else 0 := by
    intro j; show (Array.ofFn _).getD j 0 = _; rw [getD_ofFn_dflt]; split <;> rfl
  have hvsz : v.size = g.owners.size := by simp [v]
  -- `v` is below every candidate, at every index
  have hbelow : ∀ y ∈ Cand g, ∀ j, v.getD j 0 ≤ y.getD j 0 := by
    intro y hy j
    rw [hvget]
    split
    · rename_i hj
      exact csInf_le (vals_bdd g hj) ⟨y, hy, rfl⟩
    · rename_i hj
      rw [getD_of_size_le y j 0 (by rw [hy.1.1]; exact Nat.le_of_not_lt hj)]
  refine ⟨v, ⟨hvsz, fun s hs => ?_, fun s hs => ?_⟩, fun y hy s hs => ?_⟩
  · rw [hvget, if_pos hs]
    exact le_csInf (vals_nonempty g hwf s) (vals_nonneg g hs)
  · rw [hvget, if_pos hs]
    refine le_csInf (vals_nonempty g hwf s) ?_
    rintro r ⟨y, hy, rfl⟩
    exact le_trans (Bell_mono hwf hs v y (hbelow y hy)) (hy.1.2.2 s hs)
  · exact le_trans (hbelow (clamp g y) ⟨clamp_prefixed hwf hy, clamp_le_one g y⟩ s)
      (clamp_le hy.1 s)

/-- existence and uniqueness together -/
theorem value_exists_unique (g : Game ℝ) (hwf : WF g) : ∃! v : Array ℝ, IsValue g v := by
  obtain ⟨v, hv⟩ := value_exists g hwf
  exact ⟨v, hv, fun w hw => value_unique g w v hw hv⟩

/-- **C01 item 6 is about an existing object.**  A successful run over the reals reports a vector
that is pointwise below THE value of the game, which exists, is a fixed point of the Bellman
operator and has entries in `[0,1]`. -/
theorem reach_le_some_value {rnd : ℝ → Int} {thr : ℝ} {fuel : Nat} {prune : Bool} {g : Game ℝ}
    {r : ReachOut ℝ} (hwf : WF g) (H : solveReach rnd thr fuel prune g = .ok r) :
    ∃ v : Array ℝ, IsValue g v ∧
      (∀ s < g.owners.size, r.probs.getD s 0 ≤ v.getD s 0) ∧
      (∀ s < g.owners.size, Bell g v s = v.getD s 0) ∧
      (∀ s, 0 ≤ v.getD s 0 ∧ v.getD s 0 ≤ 1) := by
  obtain ⟨v, hv⟩ := value_exists g hwf
  exact ⟨v, hv, reach_le_value hwf H v hv, value_fixed g hwf v hv, value_range g hwf v hv⟩

/-! ### non-vacuity -/

/-- the hypothesis of `value_exists` is satisfiable, and the value it yields is pinned down at
the final state: every pre-fixed point is `≥ 1` there, the value is `≤ 1` -/
example : ∃ v : Array ℝ, IsValue exGameR v ∧ v.getD 1 0 = 1 := by
  obtain ⟨v, hv⟩ := value_exists exGameR exGameR_wf
  refine ⟨v, hv, le_antisymm (value_range _ exGameR_wf v hv 1).2 ?_⟩
  have := hv.1.2.2 1 (by decide)
  simpa [Bell, exGameR] using this

end CR.C01
