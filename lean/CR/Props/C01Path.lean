/-
C01, combined with C07: the set of states value iteration updates is exactly the set of
non-final states with a path to a final state, hence "states with no path to a final state
report exactly 0", and the closedness hypothesis of `reach_exact_of_zero_diff` always holds.
-/
import CR.Props.C01
import CR.Props.C07

namespace CR.C01
open CR CR.VI

section
variable {K : Type}

theorem forIn_rows_ok (n : Nat) (l : List (List (Tr K))) (e : Err) (u : PUnit)
    (h : (forIn l PUnit.unit (fun (row : List (Tr K)) (_ : PUnit) =>
      if ∃ x ∈ row, n ≤ x.tgt then (Except.error e : Except Err (ForInStep PUnit))
      else Except.ok (ForInStep.yield PUnit.unit))) = Except.ok u) :
    ∀ row ∈ l, ∀ t ∈ row, t.tgt < n := by
  induction l with
  | nil => simp
  | cons a as ih =>
    simp only [List.forIn_cons, bind, Except.bind] at h
    by_cases hc : ∃ x ∈ a, n ≤ x.tgt
    · simp [hc] at h
    · simp only [hc, if_false] at h
      intro row hr
      rcases List.mem_cons.mp hr with rfl | hr
      · intro t ht
        exact Nat.lt_of_not_ge (fun hge => hc ⟨t, ht, hge⟩)
      · exact ih h row hr

end

variable {K : Type} [Field K] [LinearOrder K] [IsStrictOrderedRing K]
variable {rnd : K → Int} {thr : K} {fuel : Nat} {prune : Bool} {g : Game K} {r : ReachOut K}

/-- `Node.check_next_states`: every successor index is in range once `init_states` succeeded -/
theorem initStates_range (g : Game K) (h : initStates g = .ok ()) :
    ∀ row ∈ g.tl, ∀ t ∈ row, t.tgt < g.owners.size := by
  unfold initStates at h
  simp only [bind, Except.bind, pure, Except.pure, throw, throwThe, MonadExceptOf.throw] at h
  split at h
  · exact absurd h (by simp)
  · rename_i u hu
    intro row hr
    rw [← Array.forIn_toList] at hu
    exact forIn_rows_ok g.owners.size g.tl.toList _ u (by simpa using hu) row (by simpa using hr)

/-- the transition structure the backward search sees -/
def targets (g : Game K) : List (List Nat) := g.tl.toList.map (fun row => row.map (·.tgt))

theorem targets_inRange (H : solveReach rnd thr fuel prune g = .ok r) :
    ∀ row ∈ targets g, ∀ v ∈ row, v < (targets g).length := by
  obtain ⟨hcg, his, _, _⟩ := solveReach_ok H
  have hsz := (checkGame_ok g hcg).1
  intro row hr v hv
  simp only [targets, List.mem_map] at hr
  obtain ⟨row', hr', rfl⟩ := hr
  simp only [List.mem_map] at hv
  obtain ⟨t, ht, rfl⟩ := hv
  have := initStates_range g his row' (by simpa using hr') t ht
  simpa [targets, hsz] using this

/-- the states value iteration updates are exactly the non-final states that can reach a
final state (C07.rdfs_mem transported to the solver) -/
theorem order_mem_iff (H : solveReach rnd thr fuel prune g = .ok r) (s : Nat) :
    s ∈ r.order ↔ (s ∉ g.finals ∧ ∃ f ∈ g.finals, C07.Reach (targets g) s f) := by
  obtain ⟨_, _, hord, _⟩ := solveReach_ok H
  rw [hord]
  exact C07.rdfs_mem (targets g) g.finals (targets_inRange H) s

/-- **states with no path to a final state report exactly 0** -/
theorem reach_zero_of_no_path (H : solveReach rnd thr fuel prune g = .ok r) (s : Nat)
    (hnf : s ∉ g.finals) (hno : ¬ ∃ f ∈ g.finals, C07.Reach (targets g) s f) :
    r.probs.getD s 0 = 0 := by
  have hs : s ∉ r.order := fun h => hno ((order_mem_iff H s).mp h).2
  rw [reach_untouched_init H s hs, getD_initVec]
  simp [hnf]

/-- …and every least pre-fixed point (the value) is 0 there as well, so the report EQUALS the
value on those states -/
theorem value_zero_of_no_path (hwf : WF g) (H : solveReach rnd thr fuel prune g = .ok r)
    (v : Array K) (hv : IsValue g v) (s : Nat) (hs : s < g.owners.size)
    (hnf : s ∉ g.finals) (hno : ¬ ∃ f ∈ g.finals, C07.Reach (targets g) s f) :
    r.probs.getD s 0 = v.getD s 0 ∧ v.getD s 0 = 0 := by
  -- the vector "1 where a final state is reachable or the state is final, else 0" is a pre-fixed
  -- point; we avoid constructing it: use the report of a converged run? Not available in
  -- general, so argue directly with the candidate y below.
  have h0 := reach_zero_of_no_path H s hnf hno
  -- candidate pre-fixed point: y t = v t if t can reach a final state or is final, else 0
  let good : Nat → Prop := fun t => t ∈ g.finals ∨ ∃ f ∈ g.finals, C07.Reach (targets g) t f
  classical
  let y : Array K := (Array.range g.owners.size).map (fun t => if good t then v.getD t 0 else 0)
  have hysz : y.size = g.owners.size := by simp [y]
  have hyget : ∀ t, y.getD t 0 = if t < g.owners.size ∧ good t then v.getD t 0 else 0 := by
    intro t
    by_cases ht : t < g.owners.size
    · simp [y, Array.getD, ht]
    · simp [y, Array.getD, ht]
  obtain ⟨hcg, his, _, _⟩ := solveReach_ok H
  have hsz := (checkGame_ok g hcg).1
  have hvpre := hv.1
  have hyle : ∀ t, y.getD t 0 ≤ v.getD t 0 := by
    intro t
    rw [hyget]
    split_ifs with h
    · exact le_rfl
    · by_cases ht : t < g.owners.size
      · exact hvpre.2.1 t ht
      · have : v.getD t 0 = 0 := by
          have : ¬ t < v.size := by rw [hvpre.1]; exact ht
          simp [Array.getD, this]
        rw [this]
  have hy : PreFixed g y := by
    refine ⟨hysz, ?_, ?_⟩
    · intro t ht
      rw [hyget]
      split_ifs
      · exact hvpre.2.1 t ht
      · exact le_rfl
    · intro t ht
      rw [hyget]
      by_cases hg : good t
      · simp only [ht, hg, and_self, if_true]
        refine le_trans ?_ (hvpre.2.2 t ht)
        unfold Bell
        split_ifs
        · exact le_rfl
        · exact stepReach_mono (fun ho => (hwf.2.2 t ht ho).1) y v (fun j => hyle j)
      · simp only [hg, and_false, if_false]
        have hnf' : t ∉ g.finals := fun h => hg (Or.inl h)
        unfold Bell
        have : g.finals.contains t = false := by simpa using hnf'
        rw [this]
        simp only [Bool.false_eq_true, if_false]
        apply le_of_eq
        refine stepReach_eq_zero ((fun ho => (hwf.2.2 t ht ho).1)) (fun _ => ?_) _ (fun tr htr => ?_)
        · have hlt' : t < g.tl.size := hsz ▸ ht
          have : g.tl.getD t [] = g.tl[t] := by simp [Array.getD, hlt']
          rw [this]
          exact initStates_ok g his _ (Array.getElem_mem hlt')
        · rw [hyget]
          have hbad : ¬ good tr.tgt := by
            intro hgt
            apply hg
            right
            have hedge : C07.Edge (targets g) t tr.tgt := by
              unfold C07.Edge targets
              have hlt' : t < g.tl.size := hsz ▸ ht
              simp only [List.getD_eq_getElem?_getD, List.getElem?_map, Array.getElem?_toList]
              have : g.tl.getD t [] = g.tl[t] := by simp [Array.getD, hlt']
              rw [this] at htr
              simp [hlt', htr]
              exact ⟨tr, htr, rfl⟩
            rcases hgt with hf | ⟨f, hf, hreach⟩
            · exact ⟨tr.tgt, hf, Relation.ReflTransGen.single hedge⟩
            · exact ⟨f, hf, Relation.ReflTransGen.head hedge hreach⟩
          simp [hbad]
  have hvs : v.getD s 0 ≤ y.getD s 0 := hv.2 y hy s hs
  have hys : y.getD s 0 = 0 := by
    rw [hyget]
    have : ¬ good s := fun h => h.elim hnf hno
    simp [this]
  have hv0 : v.getD s 0 = 0 := le_antisymm (by rw [hys] at hvs; exact hvs) (hvpre.2.1 s hs)
  exact ⟨by rw [h0, hv0], hv0⟩

/-- the closedness hypothesis of `reach_exact_of_zero_diff` holds for every successful run -/
theorem order_closed (H : solveReach rnd thr fuel prune g = .ok r) :
    ∀ s < g.owners.size, s ∉ r.order → s ∉ g.finals →
      ∀ t ∈ g.tl.getD s [], t.tgt ∉ r.order ∧ t.tgt ∉ g.finals := by
  obtain ⟨hcg, _, _, _⟩ := solveReach_ok H
  have hsz := (checkGame_ok g hcg).1
  intro s hs hso hsf t ht
  have hedge : C07.Edge (targets g) s t.tgt := by
    unfold C07.Edge targets
    have hlt' : s < g.tl.size := hsz ▸ hs
    have : g.tl.getD s [] = g.tl[s] := by simp [Array.getD, hlt']
    rw [this] at ht
    simp only [List.getD_eq_getElem?_getD, List.getElem?_map, Array.getElem?_toList]
    simp [hlt']
    exact ⟨t, ht, rfl⟩
  constructor
  · intro hto
    obtain ⟨_, f, hf, hreach⟩ := (order_mem_iff H t.tgt).mp hto
    exact hso ((order_mem_iff H s).mpr ⟨hsf, f, hf, Relation.ReflTransGen.head hedge hreach⟩)
  · intro htf
    exact hso ((order_mem_iff H s).mpr ⟨hsf, t.tgt, htf, Relation.ReflTransGen.single hedge⟩)

/-- when the last sweep changed nothing the report IS the max–min value (no side condition) -/
theorem reach_exact_of_zero_diff' (hwf : WF g) (H : solveReach rnd thr fuel prune g = .ok r)
    (x : Array K) (hsw : sweepReach g.owners g.tl r.order x = (r.probs, 0)) :
    PreFixed g r.probs ∧ ∀ v, IsValue g v → ∀ s < g.owners.size, r.probs.getD s 0 = v.getD s 0 :=
  (reach_exact_of_zero_diff hwf H x hsw (order_closed H)).2

end CR.C01
