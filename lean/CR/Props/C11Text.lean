/-
C11 (text part): "the file written for a game denotes the game dict".

`roberta_generator.write_robot_A/B/C` write

    str(game).replace("[[", "[\n[").replace("], ", "],\n")
             .replace("[(", SIXTEEN_SPACES+"[(").replace("\n'", "\n" + TWELVE_SPACES + "'")

and the file is later read back with `eval`.  Model: `CR/Model/Text.lean` (`replaceAll` = Python's
`str.replace`, `surgery` = the four replacements, `renderLit` = Python's `repr` of the dict,
`stripWs` = the text without the blanks and newlines that stand outside string literals, i.e. the
token view that Python's parser sees inside a bracketed expression).  Helper lemmas:
`CR/Lemmas/Text.lean`.

Domain (`litOK`/`litWF`, `gameOK`; all decidable): string literals contain none of
`[ ] ( ) ' \ newline`; float texts contain no white space, bracket, parenthesis, quote (for
unique reading also no `, : { }`, are non-empty and not the text of an integer).
Trusted: Python's parser (that it ignores exactly the white space `stripWs` deletes), and that
`replaceAll` is Python's `str.replace` (differential test in the harness).
-/
import CR.Lemmas.Text

namespace CR.C11

open CR.Text CR.TextLemmas

/-- 1a. One `str.replace`.  If the pattern starts with a character that is neither a quote nor
allowed inside a string literal (so no match can start inside a literal), and the replacement text
has the same token view as the pattern (it differs by blanks/newlines outside literals only), then
for every text that is scanned safely from state `q` (`q` = "inside a literal") the token view is
unchanged. -/
theorem replaceAll_only_inserts_ws (p0 : Char) (pt rep : List Char)
    (h0 : inStrOK p0 = false) (hq : p0 ≠ '\'') (hrep : stripWs rep = stripWs (p0 :: pt))
    (q : Bool) (s : List Char) (hs : safeFrom q s = true) :
    stripAux q (replaceAll (p0 :: pt) rep s) = stripAux q s :=
  stripAux_replaceAll p0 pt rep h0 hq hrep q s hs

/-- 1b. … and the result is again scanned safely (so replacements can be chained; the fourth
pattern `"\n'"` matches only text produced by the earlier replacements) -/
theorem replaceAll_keeps_safe (p0 : Char) (pt rep : List Char)
    (h0 : inStrOK p0 = false) (hq : p0 ≠ '\'') (hrep : stripWs rep = stripWs (p0 :: pt))
    (hsafe : safeFrom false rep = true) (q : Bool) (s : List Char) (hs : safeFrom q s = true) :
    safeFrom q (replaceAll (p0 :: pt) rep s) = true :=
  safeFrom_replaceAll p0 pt rep h0 hq hrep hsafe q s hs

/-- 1c. the whole-text form of 1a -/
theorem replaceAll_stripWs (p0 : Char) (pt rep : List Char)
    (h0 : inStrOK p0 = false) (hq : p0 ≠ '\'') (hrep : stripWs rep = stripWs (p0 :: pt))
    (s : List Char) (hs : safeFrom false s = true) :
    stripWs (replaceAll (p0 :: pt) rep s) = stripWs s :=
  stripAux_replaceAll p0 pt rep h0 hq hrep false s hs

/-- 1d. the four replacements of the generator satisfy the hypotheses of 1a/1b -/
theorem surgery_patterns_ok :
    (inStrOK '[' = false ∧ inStrOK ']' = false ∧ inStrOK '\n' = false) ∧
    stripWs ['[', '\n', '['] = stripWs ['[', '['] ∧
    stripWs [']', ',', '\n'] = stripWs [']', ',', ' '] ∧
    stripWs (spaces 16 ++ ['[', '(']) = stripWs ['[', '('] ∧
    stripWs ('\n' :: (spaces 12 ++ ['\''])) = stripWs ['\n', '\''] ∧
    safeFrom false ['[', '\n', '['] = true ∧ safeFrom false [']', ',', '\n'] = true ∧
    safeFrom false (spaces 16 ++ ['[', '(']) = true ∧
    safeFrom false ('\n' :: (spaces 12 ++ ['\''])) = true := by decide

/-- 2a. the `repr` of a literal of the domain is scanned safely and ends outside a literal -/
theorem render_safe (l : Lit) (h : litOK l = true) :
    safeFrom false (renderLit l) = true ∧ endState false (renderLit l) = false :=
  good_render l h

/-- 2b. the four replacements do not change the token view of a safely scanned text -/
theorem surgery_preserves_tokens_of_safe (s : List Char) (hs : safeFrom false s = true) :
    stripWs (surgery s) = stripWs s :=
  (surgery_scan false s hs).1

/-- 2. the four replacements only insert white space between the tokens of the printed dict -/
theorem surgery_preserves_tokens (l : Lit) (h : litOK l = true) :
    stripWs (surgery (renderLit l)) = stripWs (renderLit l) :=
  (surgery_scan false _ (good_render l h).1).1

/-- 2c. … in particular for the game dict -/
theorem surgery_preserves_game (rewards : List Int) (players : List String)
    (tl : List (List (Label × Nat))) (finals : List Nat) (h : gameOK players tl = true) :
    stripWs (surgery (renderLit (gameLit rewards players tl finals))) =
      stripWs (renderLit (gameLit rewards players tl finals)) :=
  surgery_preserves_tokens _ (litOK_of_litWF _ (gameLit_wf rewards players tl finals h))

/-- 3. the token view determines the literal -/
theorem stripWs_injective_on_render (a b : Lit) (wa : litWF a = true) (wb : litWF b = true)
    (h : stripWs (renderLit a) = stripWs (renderLit b)) : a = b := by
  rw [strip_render a (litOK_of_litWF a wa), strip_render b (litOK_of_litWF b wb)] at h
  exact renderC_inj a b wa wb h

/-- 3b. hence the written text determines the literal -/
theorem surgery_text_determines_literal (a b : Lit) (wa : litWF a = true) (wb : litWF b = true)
    (h : surgery (renderLit a) = surgery (renderLit b)) : a = b := by
  apply stripWs_injective_on_render a b wa wb
  rw [← surgery_preserves_tokens a (litOK_of_litWF a wa),
    ← surgery_preserves_tokens b (litOK_of_litWF b wb), h]

/-- 3c. … and the written text of a game determines rewards, players, transitions and final
states -/
theorem surgery_text_determines_game (r r' : List Int) (p p' : List String)
    (tl tl' : List (List (Label × Nat))) (f f' : List Nat)
    (h : gameOK p tl = true) (h' : gameOK p' tl' = true)
    (e : surgery (renderLit (gameLit r p tl f)) = surgery (renderLit (gameLit r' p' tl' f'))) :
    r = r' ∧ p = p' ∧ tl = tl' ∧ f = f' :=
  gameLit_inj (surgery_text_determines_literal _ _ (gameLit_wf r p tl f h)
    (gameLit_wf r' p' tl' f' h') e)

/-! ### examples -/

/-- `str.replace` is leftmost and non-overlapping -/
example : replaceAll "aa".toList "b".toList "aaaaa".toList = "bba".toList := by decide
example : replaceAll "], ".toList "],\n".toList "[[1]], [2], ".toList = "[[1]],\n[2],\n".toList := by
  decide
example : replaceAll [] "-".toList "abc".toList = "-a-b-c-".toList := by decide

/-- a game with two states: `str(game)` … -/
example :
    renderLit (gameLit [1, 0] ["Player 1", "Probabilistic"]
      [[(.act "a", 1), (.act "b", 0)], [(.num "0.5", 0), (.num "0.5", 1)]] [1]) =
    ("{'rewards': [1, 0], 'players': ['Player 1', 'Probabilistic'], " ++
     "'transition_list': [[('a', 1), ('b', 0)], [(0.5, 0), (0.5, 1)]], 'final_states': [1]}").toList := by
  decide +kernel

/-- … the text written to the file (newlines, 12 and 16 blanks exactly as Python produces) … -/
example :
    surgery (renderLit (gameLit [1, 0] ["Player 1", "Probabilistic"]
      [[(.act "a", 1), (.act "b", 0)], [(.num "0.5", 0), (.num "0.5", 1)]] [1])) =
    ("{'rewards': [1, 0],\n" ++
     "            'players': ['Player 1', 'Probabilistic'],\n" ++
     "            'transition_list': [\n" ++
     "                [('a', 1), ('b', 0)],\n" ++
     "                [(0.5, 0), (0.5, 1)]],\n" ++
     "            'final_states': [1]}").toList := by
  decide +kernel

/-- … and its token view, which is that of `str(game)` (the blank in `'Player 1'` stays) -/
example :
    stripWs (surgery (renderLit (gameLit [1, 0] ["Player 1", "Probabilistic"]
      [[(.act "a", 1), (.act "b", 0)], [(.num "0.5", 0), (.num "0.5", 1)]] [1]))) =
    ("{'rewards':[1,0],'players':['Player 1','Probabilistic']," ++
     "'transition_list':[[('a',1),('b',0)],[(0.5,0),(0.5,1)]],'final_states':[1]}").toList := by
  decide +kernel

example :
    stripWs (surgery (renderLit (gameLit [1, 0] ["Player 1", "Probabilistic"]
      [[(.act "a", 1), (.act "b", 0)], [(.num "0.5", 0), (.num "0.5", 1)]] [1]))) =
    stripWs (renderLit (gameLit [1, 0] ["Player 1", "Probabilistic"]
      [[(.act "a", 1), (.act "b", 0)], [(.num "0.5", 0), (.num "0.5", 1)]] [1])) :=
  surgery_preserves_game _ _ _ _ (by decide)

/-- outside the domain the statement fails: a bracket pair inside a string is torn apart -/
example : stripWs (surgery (renderLit (.str "[[ x"))) ≠ stripWs (renderLit (.str "[[ x")) := by
  decide

end CR.C11
