/-
Property C14: the two diagnostic outputs of `solve`.

"Whenever the reported final strategies are single actions, the 'probabilities under minimal
reward' output equals each state's probability of reaching a final state in the conditioned game
when both players follow their final strategies …, and the 'rewards under minimal reachability'
output equals the expected total reward when Player 1 follows its final strategy while Player 2
plays its reported reachability strategy, choosing among several the cheapest."

As for C02, the loop stops on the residual of the last sweep, so only the CONSISTENCY form is
provable; it is proved here, over an arbitrary linearly ordered field `K`:

1. `diag_follows_reported_p1/p2`: the successor that the sweep follows for the two diagnostics (the
   LAST successor with maximal / minimal raw `er`) carries an action that is listed in the
   reported final strategy (arg-max / arg-min of the ROUNDED values), for a monotone rounding
   function; hence it carries THE reported action when the final strategy is a single action.
2. `diag_step_p1/p2/prob`: closed forms of the 2nd and 3rd component of `stepRew`.
3. `diag_consistency_*`: the reported diagnostics are `thr`-consistent with their own update
   equations at the reported vectors — unconditionally at probabilistic states and for the
   "rewards under minimal reachability" of Player-2 states; at player states in general only under
   the hypothesis that the last sweep left `er` unchanged (otherwise the followed successor may
   have changed within the last sweep).

Vocabulary (`CR/Lemmas/Rew.lean`): `IsLastMax x row t` / `IsLastMin x row t`: `t` splits `row`
as `pre ++ t :: post` with `x[u] ≤ x[t]` on `pre` and `x[u] < x[t]` on `post` (resp. `≥`, `>`);
`NodesWF`: probabilistic rows are empty or distributions.
-/
import CR.Lemmas.Rew

set_option linter.unusedSectionVars false

namespace CR.C14

open CR CR.VI CR.Rew

variable {K : Type} [Field K] [LinearOrder K] [IsStrictOrderedRing K]

/-! ### 1: the followed successor is a reported one -/

/-- 1 (Player 1). For a monotone rounding function, the last successor with maximal raw value
carries an action of the arg-max list of the rounded values, provided that list is not empty
(it is empty only if all rounded values are negative) -/
theorem lastMax_mem_bestStrat (rnd : K → Int) (hmono : ∀ x y, x ≤ y → rnd x ≤ rnd y)
    (er : Array K) (row : List (Tr K)) (hne : bestStrat rnd er row ≠ []) (t : Tr K)
    (ht : IsLastMax er row t) : t.act ∈ bestStrat rnd er row := by
  rw [bestStrat_eq] at hne ⊢
  obtain ⟨b, hb⟩ := List.exists_mem_of_ne_nil _ hne
  obtain ⟨u, hu, _⟩ := List.mem_map.mp hb
  obtain ⟨hu1, hu2⟩ := List.mem_filter.mp hu
  have hu3 : rkey rnd er u = runMax (rkey rnd er) 0 row := by simpa using hu2
  have h1 : rkey rnd er u ≤ rkey rnd er t := hmono _ _ (ht.ge u hu1)
  have h2 := key_le_runMax (rkey rnd er) row 0 t ht.mem
  refine List.mem_map.mpr ⟨t, List.mem_filter.mpr ⟨ht.mem, ?_⟩, rfl⟩
  have : rkey rnd er t = runMax (rkey rnd er) 0 row := le_antisymm h2 (hu3 ▸ h1)
  simpa using this

/-- 1 (Player 1). If the reported arg-max list of the rounded values is a single action `a`, the
successor the sweep follows (the last one with maximal raw value) carries the action `a`: the raw
arg-max and the rounded arg-max agree -/
theorem diag_follows_reported_p1 (rnd : K → Int) (hmono : ∀ x y, x ≤ y → rnd x ≤ rnd y)
    (er : Array K) (row : List (Tr K)) (a : String) (hbest : bestStrat rnd er row = [a])
    (t : Tr K) (ht : IsLastMax er row t) : t.act = a := by
  have := lastMax_mem_bestStrat rnd hmono er row (by rw [hbest]; simp) t ht
  rw [hbest] at this
  simpa using this

/-- 1 (Player 2). The last successor with minimal raw value carries an action of the arg-min
list of the rounded values (`worstStratRew`) -/
theorem lastMin_mem_worstStratRew (rnd : K → Int) (hmono : ∀ x y, x ≤ y → rnd x ≤ rnd y)
    (er : Array K) (row : List (Tr K)) (t : Tr K) (ht : IsLastMin er row t) :
    t.act ∈ worstStratRew rnd er row := by
  cases row with
  | nil => exact absurd ht.mem List.not_mem_nil
  | cons t0 rest =>
    rw [worstStratRew_cons]
    have hatt : ∃ u ∈ t0 :: rest,
        rkey rnd er u = runMin (rkey rnd er) (rkey rnd er t0) (t0 :: rest) := by
      rcases runMin_mem (rkey rnd er) (t0 :: rest) (rkey rnd er t0) with h | h
      · exact ⟨t0, List.mem_cons_self, h.symm⟩
      · exact h
    obtain ⟨u, hu1, hu3⟩ := hatt
    have h1 : rkey rnd er t ≤ rkey rnd er u := hmono _ _ (ht.le u hu1)
    have h2 := runMin_le_key (rkey rnd er) (t0 :: rest) (rkey rnd er t0) t ht.mem
    refine List.mem_map.mpr ⟨t, List.mem_filter.mpr ⟨ht.mem, ?_⟩, rfl⟩
    have : rkey rnd er t = runMin (rkey rnd er) (rkey rnd er t0) (t0 :: rest) :=
      le_antisymm (hu3 ▸ h1) h2
    simpa using this

/-- 1 (Player 2). If the reported arg-min list of the rounded values is a single action `a`, the
successor the sweep follows (the last one with minimal raw value) carries the action `a` -/
theorem diag_follows_reported_p2 (rnd : K → Int) (hmono : ∀ x y, x ≤ y → rnd x ≤ rnd y)
    (er : Array K) (row : List (Tr K)) (a : String) (hworst : worstStratRew rnd er row = [a])
    (t : Tr K) (ht : IsLastMin er row t) : t.act = a := by
  have := lastMin_mem_worstStratRew rnd hmono er row t ht
  rw [hworst] at this
  simpa using this

/-! ### 2: closed forms of the diagnostic components of `stepRew` -/

section Step
variable (rnd : K → Int) (owners : Array Owner) (rewards : Array K)
  (nodes : Array (List (Tr K))) (reach : Array K)

/-- 2 (Player 1). A successful step at a Player-1 state with a non-empty row follows the last
successor `t` with maximal `er` (its value is `≥ 0`, the start value of the running maximum) and
returns `(er[t] + r, ermr[t] + r, pmr[t])` -/
theorem diag_step_p1 (v : RewVecs K) (s : Nat) (hne : nodes.getD s [] ≠ [])
    (ho : owners.getD s .prob = .p1) (e m p : K)
    (h : stepRew rnd owners rewards nodes reach v s = .ok (e, m, p)) :
    ∃ t, IsLastMax v.er (nodes.getD s []) t ∧ 0 ≤ v.er.getD t.tgt 0 ∧
      e = v.er.getD t.tgt 0 + rewards.getD s 0 ∧
      m = v.ermr.getD t.tgt 0 + rewards.getD s 0 ∧ p = v.pmr.getD t.tgt 0 := by
  rw [stepRew_p1 rnd owners rewards nodes reach v s hne ho] at h
  rcases selMax_snd v.er (nodes.getD s []) (0, none) with ⟨h1, _, _⟩ | ⟨t, h1, h2, h3, h4⟩
  · rw [h1] at h; cases h
  · rw [h1] at h
    injection h with h
    injection h with he h
    injection h with hm hp
    exact ⟨t, h4, h3, by rw [← he, h2], hm.symm, hp.symm⟩

/-- 2 (Player 1), failure: the step raises `UnboundLocalError` exactly when every successor has a
negative `er` value -/
theorem diag_step_p1_unbound (v : RewVecs K) (s : Nat) (hne : nodes.getD s [] ≠ [])
    (ho : owners.getD s .prob = .p1) :
    stepRew rnd owners rewards nodes reach v s = .error .unbound ↔
      ∀ u ∈ nodes.getD s [], v.er.getD u.tgt 0 < 0 := by
  rw [stepRew_p1 rnd owners rewards nodes reach v s hne ho]
  rcases selMax_snd v.er (nodes.getD s []) (0, none) with ⟨h1, _, h3⟩ | ⟨t, h1, _, h3, h4⟩
  · rw [h1]; exact ⟨fun _ => h3, fun _ => rfl⟩
  · rw [h1]
    constructor
    · intro h; cases h
    · intro h; exact absurd (h t h4.mem) (not_lt.mpr h3)

/-- 2 (Player 1) with a single reported action: if the final strategy of the state (computed
from the same `er`) is the single action `a` and `u` is the only transition of the row named `a`,
both diagnostics are taken from `u`'s target -/
theorem diag_step_p1_reported (hmono : ∀ x y, x ≤ y → rnd x ≤ rnd y) (v : RewVecs K) (s : Nat)
    (ho : owners.getD s .prob = .p1) (a : String)
    (hbest : bestStrat rnd v.er (nodes.getD s []) = [a]) (u : Tr K)
    (huniq : (nodes.getD s []).filter (fun t => t.act == a) = [u]) (e m p : K)
    (h : stepRew rnd owners rewards nodes reach v s = .ok (e, m, p)) :
    m = v.ermr.getD u.tgt 0 + rewards.getD s 0 ∧ p = v.pmr.getD u.tgt 0 := by
  have hne : nodes.getD s [] ≠ [] := by
    intro h0; rw [h0] at hbest; exact absurd hbest (by simp [bestStrat])
  obtain ⟨t, ht, _, _, hm, hp⟩ := diag_step_p1 rnd owners rewards nodes reach v s hne ho e m p h
  have hta := diag_follows_reported_p1 rnd hmono v.er _ a hbest t ht
  have : t ∈ (nodes.getD s []).filter (fun t => t.act == a) :=
    List.mem_filter.mpr ⟨ht.mem, by simpa using hta⟩
  rw [huniq] at this
  have : t = u := by simpa using this
  subst this
  exact ⟨hm, hp⟩

/-- 2 (Player 2). A step at a Player-2 state with a non-empty row always succeeds; its `ermr`
component is `_expected_rewards_min_reach` of the REACHABILITY arg-min list
`worstStratFrom rnd (rnd 1) reach row`; its `er` and `pmr` components follow the last successor
`t` with minimal `er` -/
theorem diag_step_p2 (v : RewVecs K) (s : Nat) (hne : nodes.getD s [] ≠ [])
    (ho : owners.getD s .prob = .p2) :
    ∃ e m p, stepRew rnd owners rewards nodes reach v s = .ok (e, m, p) ∧
      m = p2RewMinReach (rewards.getD s 0) v.ermr (nodes.getD s [])
        (worstStratFrom rnd (rnd 1) reach (nodes.getD s [])) ∧
      ∃ t, IsLastMin v.er (nodes.getD s []) t ∧
        e = v.er.getD t.tgt 0 + rewards.getD s 0 ∧ p = v.pmr.getD t.tgt 0 := by
  obtain ⟨t0, rest, hrow⟩ := List.exists_cons_of_ne_nil hne
  rw [stepRew_p2 rnd owners rewards nodes reach v s t0 rest hrow ho, hrow]
  obtain ⟨h1, h2⟩ := selMin_start v.er t0 rest
  exact ⟨_, _, _, rfl, rfl, _, h2, by rw [h1], rfl⟩

/-- 2 (Player 2). `_expected_rewards_min_reach`: `0` if no transition carries an action of the
list `strat`, otherwise the reward plus the least `ermr` value among those transitions ("choosing
among several the cheapest") -/
theorem p2RewMinReach_spec (r : K) (ermr : Array K) (row : List (Tr K)) (strat : List String) :
    (row.filter (fun t => strat.contains t.act) = [] → p2RewMinReach r ermr row strat = 0) ∧
    (row.filter (fun t => strat.contains t.act) ≠ [] →
      (∀ t ∈ row, strat.contains t.act = true →
        p2RewMinReach r ermr row strat ≤ ermr.getD t.tgt 0 + r) ∧
      ∃ t ∈ row, strat.contains t.act = true ∧
        p2RewMinReach r ermr row strat = ermr.getD t.tgt 0 + r) := by
  rw [p2RewMinReach_eq]
  cases hf : row.filter (fun t => strat.contains t.act) with
  | nil => exact ⟨fun _ => rfl, fun h => absurd rfl h⟩
  | cons t0 rest =>
    refine ⟨fun h => (by cases h), fun _ => ⟨?_, ?_⟩⟩
    · intro t ht hc
      have : t ∈ t0 :: rest := by rw [← hf]; exact List.mem_filter.mpr ⟨ht, hc⟩
      simp only []
      exact add_le_add_left (minOver_le_mem _ _ _ t this) r
    · have hmem : ∀ t ∈ t0 :: rest, t ∈ row ∧ strat.contains t.act = true := by
        intro t ht; rw [← hf] at ht; exact List.mem_filter.mp ht
      simp only []
      rcases minOver_attained ermr (t0 :: rest) (ermr.getD t0.tgt 0) with h | ⟨t, ht, h⟩
      · exact ⟨t0, (hmem t0 List.mem_cons_self).1, (hmem t0 List.mem_cons_self).2, by rw [h]⟩
      · exact ⟨t, (hmem t ht).1, (hmem t ht).2, by rw [h]⟩

/-- 2 (Player 2) with a single reported action: if the final strategy of the state is the single
action `a` and `u` is the only transition of the row named `a`, the "probabilities under minimal
reward" component is taken from `u`'s target -/
theorem diag_step_p2_reported (hmono : ∀ x y, x ≤ y → rnd x ≤ rnd y) (v : RewVecs K) (s : Nat)
    (ho : owners.getD s .prob = .p2) (a : String)
    (hworst : worstStratRew rnd v.er (nodes.getD s []) = [a]) (u : Tr K)
    (huniq : (nodes.getD s []).filter (fun t => t.act == a) = [u]) (e m p : K)
    (h : stepRew rnd owners rewards nodes reach v s = .ok (e, m, p)) :
    e = v.er.getD u.tgt 0 + rewards.getD s 0 ∧ p = v.pmr.getD u.tgt 0 := by
  have hne : nodes.getD s [] ≠ [] := by
    intro h0; rw [h0] at hworst; exact absurd hworst (by simp [worstStratRew])
  obtain ⟨e', m', p', h', _, t, ht, he, hp⟩ := diag_step_p2 rnd owners rewards nodes reach v s hne ho
  rw [h] at h'
  injection h' with h'
  injection h' with he' h'
  injection h' with _ hp'
  have hta := diag_follows_reported_p2 rnd hmono v.er _ a hworst t ht
  have : t ∈ (nodes.getD s []).filter (fun t => t.act == a) :=
    List.mem_filter.mpr ⟨ht.mem, by simpa using hta⟩
  rw [huniq] at this
  have : t = u := by simpa using this
  subst this
  exact ⟨by rw [he', he], by rw [hp', hp]⟩

/-- 2 (probabilistic). A step at a probabilistic state with a non-empty row returns
`(r + Σ er[t]·p, r + Σ ermr[t]·p, Σ pmr[t]·p)` -/
theorem diag_step_prob (v : RewVecs K) (s : Nat) (hne : nodes.getD s [] ≠ [])
    (ho : owners.getD s .prob = .prob) :
    stepRew rnd owners rewards nodes reach v s =
      .ok (rewards.getD s 0 + ((nodes.getD s []).map (fun t => v.er.getD t.tgt 0 * t.p)).sum,
           rewards.getD s 0 + ((nodes.getD s []).map (fun t => v.ermr.getD t.tgt 0 * t.p)).sum,
           ((nodes.getD s []).map (fun t => v.pmr.getD t.tgt 0 * t.p)).sum) :=
  stepRew_prob rnd owners rewards nodes reach v s hne ho

/-- 2 (emptied state). A state without transitions gets `(0, 0, 0)` -/
theorem diag_step_nil (v : RewVecs K) (s : Nat) (h : nodes.getD s [] = []) :
    stepRew rnd owners rewards nodes reach v s = .ok (0, 0, 0) :=
  stepRew_nil rnd owners rewards nodes reach v s h

end Step

/-! ### 3: consistency of the reported diagnostics -/

section
variable {rnd : K → Int} {thr : K} {fuel : Nat} {prune : Bool} {g : Game K} {out : SolveOut K}

/-- with non-negative probabilities on the conditioned rows, the step function never raises at
the reported vectors -/
theorem diag_step_ok (hwf : NodesWF g.owners out.nodes)
    (H : solve rnd thr fuel prune g = .ok out) (s : Nat) :
    ∃ t, stepRew rnd g.owners g.rewards out.nodes out.probs
      { er := out.rewards, ermr := out.rewMinReach, pmr := out.probMinRew } s = .ok t := by
  refine stepRew_ok_of_nonneg _ s (solve_er_nonneg (fun s hs ho u hu => ?_) H)
  rcases hwf s hs ho with h0 | h0
  · rw [h0] at hu; exact absurd hu List.not_mem_nil
  · exact h0.1 u hu

/-- 3, residual form. If the reported vectors are the result of a sweep from `v` with reported
change `d`, then for every state `s` that is probabilistic, or for every state at all if the
sweep left `er` unchanged, the diagnostics recomputed at the reported vectors are within `d` of
the reported diagnostics -/
theorem diag_residual (hwf : NodesWF g.owners out.nodes)
    (H : solve rnd thr fuel prune g = .ok out) (v : RewVecs K) (d : K)
    (hsw : sweepRew rnd g.owners g.rewards out.nodes out.probs v =
      .ok ({ er := out.rewards, ermr := out.rewMinReach, pmr := out.probMinRew }, d))
    (s : Nat) (hs : s < g.owners.size)
    (her : g.owners.getD s .prob = .prob ∨ ∀ j, v.er.getD j 0 = out.rewards.getD j 0)
    (e m p : K)
    (hst : stepRew rnd g.owners g.rewards out.nodes out.probs
      { er := out.rewards, ermr := out.rewMinReach, pmr := out.probMinRew } s = .ok (e, m, p)) :
    |m - out.rewMinReach.getD s 0| ≤ d ∧ |p - out.probMinRew.getD s 0| ≤ d := by
  have hsz := (solve_run H (Sized g.owners.size) (init_sized H)
    (fun _ _ _ hx h => sweepRew_sized hx h)).1
  have h2 : v.ermr.size = g.owners.size := by
    rw [← hsz.2.1]; exact (sweepRew_size Comp.ermr hsw).symm
  have h3 : v.pmr.size = g.owners.size := by
    rw [← hsz.2.2]; exact (sweepRew_size Comp.pmr hsw).symm
  refine sweepRew_diag hwf hsw s hs (by rw [h2]; exact hs) (by rw [h3]; exact hs) ?_ (e, m, p) hst
  intro ho
  rcases her with h | h
  · exact absurd h ho
  · exact h

/-- 3 (a). **Probabilistic states, unconditionally**: if the loop ran (`thr < 1`), both reported
diagnostics of a probabilistic state are within `thr` of their update equations
`r + Σ ermr[t]·p` and `Σ pmr[t]·p` evaluated at the reported vectors (`0` and `0` for an emptied
state) -/
theorem diag_consistency_prob (hwf : NodesWF g.owners out.nodes) (hthr : thr < 1)
    (H : solve rnd thr fuel prune g = .ok out) (s : Nat) (hs : s < g.owners.size)
    (ho : g.owners.getD s .prob = .prob) :
    ∃ e m p, stepRew rnd g.owners g.rewards out.nodes out.probs
        { er := out.rewards, ermr := out.rewMinReach, pmr := out.probMinRew } s = .ok (e, m, p) ∧
      |m - out.rewMinReach.getD s 0| ≤ thr ∧ |p - out.probMinRew.getD s 0| ≤ thr := by
  obtain ⟨⟨e, m, p⟩, hst⟩ := diag_step_ok hwf H s
  refine ⟨e, m, p, hst, ?_⟩
  rcases (solve_run H (fun _ => True) trivial (fun _ _ _ _ _ => trivial)).2 with
    ⟨h, _⟩ | ⟨_, _, v, d, _, hsw, hd⟩
  · exact absurd hthr h
  · obtain ⟨h1, h2⟩ := diag_residual hwf H v d hsw s hs (Or.inl ho) e m p hst
    exact ⟨le_trans h1 (not_lt.mp hd), le_trans h2 (not_lt.mp hd)⟩

/-- 3 (a) in closed form, for a probabilistic state that kept transitions -/
theorem diag_consistency_prob_closed (hwf : NodesWF g.owners out.nodes) (hthr : thr < 1)
    (H : solve rnd thr fuel prune g = .ok out) (s : Nat) (hs : s < g.owners.size)
    (ho : g.owners.getD s .prob = .prob) (hne : out.nodes.getD s [] ≠ []) :
    |g.rewards.getD s 0 +
        ((out.nodes.getD s []).map (fun t => out.rewMinReach.getD t.tgt 0 * t.p)).sum
        - out.rewMinReach.getD s 0| ≤ thr ∧
    |((out.nodes.getD s []).map (fun t => out.probMinRew.getD t.tgt 0 * t.p)).sum
        - out.probMinRew.getD s 0| ≤ thr := by
  obtain ⟨e, m, p, hst, h1, h2⟩ := diag_consistency_prob hwf hthr H s hs ho
  rw [diag_step_prob rnd g.owners g.rewards out.nodes out.probs _ s hne ho] at hst
  injection hst with hst
  injection hst with _ hst
  injection hst with hm hp
  rw [← hm] at h1; rw [← hp] at h2
  exact ⟨h1, h2⟩

/-- 3 (a'). **Player-2 states, "rewards under minimal reachability", unconditionally**: the
transitions this quantity ranges over are fixed by the reachability strategy, so it is within
`thr` of `_expected_rewards_min_reach` evaluated at the reported `ermr` vector -/
theorem diag_consistency_p2_ermr (hthr : thr < 1)
    (H : solve rnd thr fuel prune g = .ok out) (s : Nat) (hs : s < g.owners.size)
    (ho : g.owners.getD s .prob = .p2) (hne : out.nodes.getD s [] ≠ []) :
    |p2RewMinReach (g.rewards.getD s 0) out.rewMinReach (out.nodes.getD s [])
        (worstStratFrom rnd (rnd 1) out.probs (out.nodes.getD s []))
      - out.rewMinReach.getD s 0| ≤ thr := by
  obtain ⟨e, m, p, hst, hm, _⟩ := diag_step_p2 rnd g.owners g.rewards out.nodes out.probs
    { er := out.rewards, ermr := out.rewMinReach, pmr := out.probMinRew } s hne ho
  obtain ⟨hsz, hcase⟩ := solve_run H (Sized g.owners.size) (init_sized H)
    (fun _ _ _ hx h => sweepRew_sized hx h)
  rcases hcase with ⟨h, _⟩ | ⟨_, _, v, d, hv, hsw, hd⟩
  · exact absurd hthr h
  · have := sweepRew_diag_p2_ermr hsw s hs (by rw [hv.2.1]; exact hs) ho (e, m, p) hst
    rw [← hm]
    exact le_trans this (not_lt.mp hd)

/-- 3 (b). **Player states, when the last sweep left `er` unchanged**: for every last sweep
`(v, d)` producing the reported vectors with `d ≤ thr` and `v.er` equal to the reported rewards,
the diagnostics recomputed at the reported vectors (following the same successor) are within
`thr` of the reported ones, at every state -/
theorem diag_consistency_of_er_unchanged (hwf : NodesWF g.owners out.nodes)
    (H : solve rnd thr fuel prune g = .ok out) (v : RewVecs K) (d : K)
    (hsw : sweepRew rnd g.owners g.rewards out.nodes out.probs v =
      .ok ({ er := out.rewards, ermr := out.rewMinReach, pmr := out.probMinRew }, d))
    (hd : ¬ (d > thr)) (her : ∀ j, v.er.getD j 0 = out.rewards.getD j 0)
    (s : Nat) (hs : s < g.owners.size) :
    ∃ e m p, stepRew rnd g.owners g.rewards out.nodes out.probs
        { er := out.rewards, ermr := out.rewMinReach, pmr := out.probMinRew } s = .ok (e, m, p) ∧
      |m - out.rewMinReach.getD s 0| ≤ thr ∧ |p - out.probMinRew.getD s 0| ≤ thr := by
  obtain ⟨⟨e, m, p⟩, hst⟩ := diag_step_ok hwf H s
  obtain ⟨h1, h2⟩ := diag_residual hwf H v d hsw s hs (Or.inr her) e m p hst
  exact ⟨e, m, p, hst, le_trans h1 (not_lt.mp hd), le_trans h2 (not_lt.mp hd)⟩

/-- 3 (b) for a Player-1 state with a single reported action `a` carried by exactly one
transition `u`: the reported diagnostics of the state are within `thr` of those of `u`'s target
(plus the state's reward), provided the last sweep left `er` unchanged -/
theorem diag_consistency_p1_reported (hwf : NodesWF g.owners out.nodes)
    (hmono : ∀ x y, x ≤ y → rnd x ≤ rnd y)
    (H : solve rnd thr fuel prune g = .ok out) (v : RewVecs K) (d : K)
    (hsw : sweepRew rnd g.owners g.rewards out.nodes out.probs v =
      .ok ({ er := out.rewards, ermr := out.rewMinReach, pmr := out.probMinRew }, d))
    (hd : ¬ (d > thr)) (her : ∀ j, v.er.getD j 0 = out.rewards.getD j 0)
    (s : Nat) (ho : g.owners.getD s .prob = .p1) (a : String)
    (hfin : out.finalStrat.getD s none = some [a]) (u : Tr K)
    (huniq : (out.nodes.getD s []).filter (fun t => t.act == a) = [u]) :
    |out.rewMinReach.getD u.tgt 0 + g.rewards.getD s 0 - out.rewMinReach.getD s 0| ≤ thr ∧
    |out.probMinRew.getD u.tgt 0 - out.probMinRew.getD s 0| ≤ thr := by
  have hs : s < g.owners.size := owner_lt_size (by rw [ho]; simp)
  obtain ⟨e, m, p, hst, h1, h2⟩ := diag_consistency_of_er_unchanged hwf H v d hsw hd her s hs
  have hbest : bestStrat rnd out.rewards (out.nodes.getD s []) = [a] := by
    obtain ⟨_, _, _, _, _, _, _, hf⟩ := solve_ok_full H
    rw [hf, rewardStrategies_getD, ho] at hfin
    exact Option.some.inj hfin
  obtain ⟨hm, hp⟩ := diag_step_p1_reported rnd g.owners g.rewards out.nodes out.probs hmono
    { er := out.rewards, ermr := out.rewMinReach, pmr := out.probMinRew } s ho a hbest u huniq
    e m p hst
  rw [hm] at h1; rw [hp] at h2
  exact ⟨h1, h2⟩

end

/-! ### non-vacuity: concrete data over `Rat`

`g7nodes` / `g6nodes` are the conditioned lists (pruning on) of the example games `g7` / `g6`,
`g7vecs` / `g6vecs` the reported vectors, `g7probs` / `g6probs` the reachability probabilities. -/

section NonVacuity
open CR.Examples CR.Rew.Examples

/-- `NodesWF` on concrete conditioned lists -/
example : NodesWF g7.owners g7nodes := g7_wf

/-- the rounding function of the `Rat` instance satisfies the monotonicity hypothesis -/
example : ∀ x y : Rat, x ≤ y → roundRat 6 x ≤ roundRat 6 y := roundRat_mono 6

/-- one concrete `stepRew` evaluation per node kind: probabilistic state 1, Player-1 state 3 and
emptied state 2 of `g7`; Player-2 state 1 of `g6` (its reachability arg-min list is `["y"]`, both
successors have `er = 0`, the LAST one — `y` — is followed for `pmr`) -/
example :
    stepRew (roundRat 6) g7.owners g7.rewards g7nodes g7probs g7vecs 1 = .ok (2, 2, 1) ∧
    stepRew (roundRat 6) g7.owners g7.rewards g7nodes g7probs g7vecs 3 = .ok (2, 2, 1) ∧
    stepRew (roundRat 6) g7.owners g7.rewards g7nodes g7probs g7vecs 2 = .ok (0, 0, 0) ∧
    stepRew (roundRat 6) g6.owners g6.rewards g6nodes g6probs g6vecs 1 = .ok (0, 0, 1) := by
  decide +kernel

/-- `IsLastMax` / `IsLastMin` are satisfiable: at the Player-2 state 1 of `g6` both successors
have `er = 0`; the last one is the last minimal AND the last maximal one -/
example : IsLastMin g6vecs.er (g6nodes.getD 1 []) (tr "y" 0 2) ∧
    IsLastMax g6vecs.er (g6nodes.getD 1 []) (tr "y" 0 2) :=
  ⟨⟨[tr "x" 0 4], [], rfl, by decide +kernel, by simp⟩,
   ⟨[tr "x" 0 4], [], rfl, by decide +kernel, by simp⟩⟩

/-- the hypotheses of `diag_step_p1_reported` hold together at the Player-1 state 3 of `g7`:
single reported action `gamma`, carried by exactly one transition -/
example :
    stepRew (roundRat 6) g7.owners g7.rewards g7nodes g7probs g7vecs 3 = .ok (2, 2, 1) ∧
    (2 : Rat) = g7vecs.ermr.getD 5 0 + g7.rewards.getD 3 0 ∧ (1 : Rat) = g7vecs.pmr.getD 5 0 := by
  have h : stepRew (roundRat 6) g7.owners g7.rewards g7nodes g7probs g7vecs 3 = .ok (2, 2, 1) := by
    decide +kernel
  have := diag_step_p1_reported (roundRat 6) g7.owners g7.rewards g7nodes g7probs
    (roundRat_mono 6) g7vecs 3 rfl "gamma" (by decide +kernel) (tr "gamma" 0 5)
    (by decide +kernel) 2 2 1 h
  exact ⟨h, this⟩

/-- the hypotheses of `diag_step_p2_reported` are satisfiable (a Player-2 row `x→1, y→2` with
`er = [0, 5, 3]`: the single reported action is `y`) -/
example : worstStratRew (roundRat 6) (#[0, 5, 3] : Array Rat) [tr "x" 0 1, tr "y" 0 2] = ["y"] ∧
    [tr "x" 0 1, tr "y" 0 2].filter (fun t => t.act == "y") = [tr "y" 0 2] := by
  decide +kernel

/-- all hypotheses of `diag_consistency_prob` and of `diag_consistency_p1_reported` (including
"the last sweep left `er` unchanged") hold together on the concrete run of `g7` -/
example : ∃ out, solve (roundRat 6) thr 1000 true g7 = .ok out ∧
    (∃ e m p, stepRew (roundRat 6) g7.owners g7.rewards out.nodes out.probs
        { er := out.rewards, ermr := out.rewMinReach, pmr := out.probMinRew } 1 = .ok (e, m, p) ∧
      |m - out.rewMinReach.getD 1 0| ≤ thr ∧ |p - out.probMinRew.getD 1 0| ≤ thr) ∧
    |out.rewMinReach.getD 5 0 + g7.rewards.getD 3 0 - out.rewMinReach.getD 3 0| ≤ thr ∧
    |out.probMinRew.getD 5 0 - out.probMinRew.getD 3 0| ≤ thr := by
  obtain ⟨out, H, h1, h2, h3, _, h5, h6, h7⟩ := g7_run
  have hwf : NodesWF g7.owners out.nodes := by rw [h6]; exact g7_wf
  have hsw : sweepRew (roundRat 6) g7.owners g7.rewards out.nodes out.probs
      { er := out.rewards, ermr := out.rewMinReach, pmr := out.probMinRew } =
      .ok ({ er := out.rewards, ermr := out.rewMinReach, pmr := out.probMinRew }, 0) := by
    rw [h1, h2, h3, h5, h6]; exact g7_sweep
  refine ⟨out, H, diag_consistency_prob hwf (by decide +kernel) H 1 (by decide) rfl, ?_⟩
  have := diag_consistency_p1_reported hwf (roundRat_mono 6) H _ 0 hsw (by decide +kernel)
    (fun _ => rfl) 3 rfl "gamma" (by rw [h7]; rfl) (tr "gamma" 0 5) (by rw [h6]; decide +kernel)
  exact this

end NonVacuity

end CR.C14
