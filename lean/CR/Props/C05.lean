/-
Property C05 — final (reward) strategies.

"For every game and every Player 1 state, the reported final strategy is a subset of that
state's reported reachability strategy ... For states reachable from the initial state it lists
exactly the permitted actions whose successor has the largest conditioned expected reward (for
Player 2 states: all actions with the smallest), in transition order, and probabilistic states
have none."

`out.nodes` are the conditioned transition lists (the permitted actions) on which the reward
phase ran; `out.rewards` the reported conditioned expected rewards.  All theorems are generic in
the number type and the rounding function, hold in both pruning modes and need no
well-formedness hypothesis on the game beyond `solve` having returned `.ok`.
-/
import CR.Lemmas.Strat

namespace CR.C05
open CR List

section
variable {α : Type} [Add α] [Sub α] [Mul α] [Div α] [Neg α] [LT α] [DecidableLT α]
  [LE α] [DecidableLE α] [BEq α] [OfNat α 0] [OfNat α 1]

/-- C05.1 — at every Player-1 state every action of the final strategy is an action of the
reachability strategy. -/
theorem final_subset_reach {rnd : α → Int} {thr : α} {fuel : Nat} {prune : Bool} {g : Game α}
    {out : SolveOut α} (h : solve rnd thr fuel prune g = .ok out) :
    ∀ s, g.owners.getD s .prob = .p1 →
      ∀ a ∈ (out.finalStrat.getD s none).getD [], a ∈ (out.reachStrat.getD s none).getD [] := by
  obtain ⟨ro, v, j, _, hc, _, hfin, hreach, _, _⟩ := solve_ok_inv h
  intro s hp a ha
  rw [hfin, rewardStrategies_getD, hp] at ha
  have ha' : a ∈ bestStrat rnd v.er (out.nodes.getD s []) := ha
  have hsub := (bestStrat_sublist rnd v.er (out.nodes.getD s [])).subset ha'
  obtain ⟨t, ht, rfl⟩ := List.mem_map.1 hsub
  have ht' := (condition_p1_sublist hc s hp).subset ht
  have := (List.mem_filter.1 ht').2
  rw [hreach]
  simpa using this

/-- C05.1, sharper: the permitted actions of a Player-1 state are the reachability-optimal ones
(minus, when pruning, those leading to a state of reachability value `== 0`), and the final
strategy is a sub-list of them. -/
theorem final_sublist_permitted {rnd : α → Int} {thr : α} {fuel : Nat} {prune : Bool}
    {g : Game α} {out : SolveOut α} (h : solve rnd thr fuel prune g = .ok out) :
    ∀ s, g.owners.getD s .prob = .p1 →
      (out.nodes.getD s []).Sublist
        ((g.tl.getD s []).filter
          (fun t => ((out.reachStrat.getD s none).getD []).contains t.act)) ∧
      ((out.finalStrat.getD s none).getD []).Sublist ((out.nodes.getD s []).map (·.act)) := by
  obtain ⟨ro, v, j, _, hc, _, hfin, hreach, _, _⟩ := solve_ok_inv h
  intro s hp
  refine ⟨by rw [hreach]; exact condition_p1_sublist hc s hp, ?_⟩
  rw [hfin, rewardStrategies_getD, hp]
  exact bestStrat_sublist rnd v.er _

/-- C05.2 — shape of the final strategy array: one entry per state; `none` exactly for the
probabilistic states; `some []` for a player state without permitted transitions; always a
sub-list (transition order) of the permitted actions. -/
theorem final_shape {rnd : α → Int} {thr : α} {fuel : Nat} {prune : Bool} {g : Game α}
    {out : SolveOut α} (h : solve rnd thr fuel prune g = .ok out) :
    out.finalStrat.size = g.owners.size ∧
    (∀ s, out.finalStrat.getD s none = none ↔ g.owners.getD s .prob = .prob) ∧
    (∀ s, g.owners.getD s .prob ≠ .prob → out.nodes.getD s [] = [] →
      out.finalStrat.getD s none = some []) ∧
    (∀ s, g.owners.getD s .prob ≠ .prob →
      ∃ l, out.finalStrat.getD s none = some l ∧
        l.Sublist ((out.nodes.getD s []).map (·.act))) := by
  obtain ⟨ro, v, j, _, _, _, hfin, _, _, _⟩ := solve_ok_inv h
  rw [hfin]
  refine ⟨rewardStrategies_size _ _ _ _, ?_, ?_, ?_⟩
  · intro s
    rw [rewardStrategies_getD]
    cases g.owners.getD s .prob <;> simp
  · intro s hs he
    rw [rewardStrategies_getD, he]
    cases hq : g.owners.getD s .prob with
    | prob => exact absurd hq hs
    | p1 => rfl
    | p2 => rfl
  · intro s hs
    rw [rewardStrategies_getD]
    cases hq : g.owners.getD s .prob with
    | prob => exact absurd hq hs
    | p1 => exact ⟨_, rfl, bestStrat_sublist rnd v.er _⟩
    | p2 => exact ⟨_, rfl, worstStratRew_sublist rnd v.er _⟩

/-- C05.3 — the final strategy in terms of the reported rewards.
Player 1: the permitted actions (transition order) whose successor's rounded reported reward
equals the maximum (clamped below by 0).
Player 2 with a non-empty permitted list `t0 :: rest`: the permitted actions whose successor's
rounded reported reward equals the minimum over the list (started at the first successor: no
clamp; the list is non-empty). -/
theorem final_argmax_reported {rnd : α → Int} {thr : α} {fuel : Nat} {prune : Bool}
    {g : Game α} {out : SolveOut α} (h : solve rnd thr fuel prune g = .ok out) :
    (∀ s, g.owners.getD s .prob = .p1 →
      out.finalStrat.getD s none = some
        (((out.nodes.getD s []).filter (fun t => rnd (out.rewards.getD t.tgt 0) ==
            (out.nodes.getD s []).foldl
              (fun m t => max m (rnd (out.rewards.getD t.tgt 0))) 0)).map (·.act))) ∧
    (∀ s t0 rest, g.owners.getD s .prob = .p2 → out.nodes.getD s [] = t0 :: rest →
      out.finalStrat.getD s none = some
        (((t0 :: rest).filter (fun t => rnd (out.rewards.getD t.tgt 0) ==
            (t0 :: rest).foldl (fun m t => min m (rnd (out.rewards.getD t.tgt 0)))
              (rnd (out.rewards.getD t0.tgt 0)))).map (·.act)) ∧
      out.finalStrat.getD s none ≠ some []) := by
  obtain ⟨ro, v, j, _, _, _, hfin, _, hrew, _⟩ := solve_ok_inv h
  rw [hfin, hrew]
  refine ⟨?_, ?_⟩
  · intro s hp
    rw [rewardStrategies_getD, hp]
    exact congrArg some (bestStrat_eq rnd v.er _)
  · intro s t0 rest hp hrow
    rw [rewardStrategies_getD, hp, hrow]
    refine ⟨congrArg some (worstStratRew_cons rnd v.er t0 rest), ?_⟩
    intro hcontra
    exact worstStratRew_ne_nil rnd v.er (t0 :: rest) (by simp) (Option.some.inj hcontra)

end

/-! ### non-vacuity: concrete runs of `solve` over `Rat`

`reverseDfs` (well-founded recursion) does not reduce in the kernel; its value on the concrete
games is supplied by `Examples.g7_ord` / `Examples.g6_ord`, everything else is evaluated by the
kernel. -/

open Examples

/-- 7-state game, pruning on -/
example : ∃ out, solve (roundRat 6) thr 1000 true g7 = .ok out ∧
    (out.finalStrat, out.reachStrat, out.rewards, out.nodes.map (·.map (·.act))) =
      (#[some ["alfa"], none, none, some ["gamma"], none, none, none],
       #[some ["alfa"], none, none, some ["gamma"], none, none, none],
       #[2, 2, 0, 2, 0, 0, 0],
       #[["alfa"], [""], [], ["gamma"], [], [""], []]) :=
  exists_ok_of_toOption_map (by unfold solve solveReach; rw [g7_ord]; decide +kernel)

/-- 7-state game, pruning off -/
example : ∃ out, solve (roundRat 6) thr 1000 false g7 = .ok out ∧
    (out.finalStrat, out.reachStrat, out.rewards, out.nodes.map (·.map (·.act))) =
      (#[some ["alfa"], none, none, some ["gamma"], none, none, none],
       #[some ["alfa"], none, none, some ["gamma"], none, none, none],
       #[3/2, 3/2, 0, 2, 0, 0, 0],
       #[["alfa"], ["", ""], ["", ""], ["gamma"], [""], [""], [""]]) :=
  exists_ok_of_toOption_map (by unfold solve solveReach; rw [g7_ord]; decide +kernel)

/-- 6-state game, pruning on: at the Player-1 state 0 the final strategy `["c"]` is a proper
subset of the reachability strategy `["a","b","c"]`; at the Player-2 state 1 the final strategy
`["x","y"]` (all permitted actions have the smallest reward) is NOT a subset of its reachability
strategy `["y"]` — the subset claim is about Player 1 only. -/
example : ∃ out, solve (roundRat 6) thr 1000 true g6 = .ok out ∧
    (out.finalStrat, out.reachStrat, out.rewards, out.nodes.map (·.map (·.act))) =
      (#[some ["c"], some ["x", "y"], none, none, none, none],
       #[some ["a", "b", "c"], some ["y"], none, none, none, none],
       #[1, 0, 0, 1, 0, 0],
       #[["a", "b", "c"], ["x", "y"], [""], [""], [""], []]) :=
  exists_ok_of_toOption_map (by unfold solve solveReach; rw [g6_ord]; decide +kernel)

end CR.C05
