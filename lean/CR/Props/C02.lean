/-
Property C02: the expected rewards reported by `solve`.

"Reported expected rewards are the values of the conditioned game … for … games which need not
be stopping, the same claim in its Bellman-consistency form (the reported vector is a fixed point
of the conditioned game's reward equations up to the threshold)."

The loop of the reward phase stops on the RESIDUAL (the change of the last Gauss–Seidel sweep),
so the tolerance-to-the-true-value form is false for this algorithm (known finding); what is
proved here is the Bellman-consistency form and the supporting facts, for an arbitrary `.ok`
outcome `H : solve rnd thr fuel prune g = .ok out` (arbitrary rounding function, threshold, fuel,
pruning flag) over an arbitrary linearly ordered field `K`.

Vocabulary (defined in `CR/Lemmas/Rew.lean`, where all helper lemmas live):
* `Brew owners rewards nodes x s`: the reward Bellman operator of the game with transition lists
  `nodes`, defined independently of the model's `stepRew`:
  `0` if `nodes[s] = []`; `r_s + Σ x[t]·p` (probabilistic); `r_s + max(0, max_t x[t])`
  (Player 1, clamped below by 0 as the code does); `r_s + min_t x[t]` (Player 2);
* `NodesWF owners nodes`: the row of every probabilistic state is empty or a distribution
  (`p ≥ 0`, `Σ p = 1`) — which is what conditioning produces (`nodesWF_of_game`).
-/
import CR.Lemmas.Rew

set_option linter.unusedSectionVars false

namespace CR.C02

open CR CR.VI CR.Rew

variable {K : Type} [Field K] [LinearOrder K] [IsStrictOrderedRing K]

/-! ### 0: the first component of `stepRew` is `Brew` -/

/-- the expected-reward component of the model's step function is the Bellman operator `Brew`
applied to the `er` vector alone -/
theorem stepRew_fst (rnd : K → Int) (owners : Array Owner) (rewards : Array K)
    (nodes : Array (List (Tr K))) (reach : Array K) (v : RewVecs K) (s : Nat) (e m p : K)
    (h : stepRew rnd owners rewards nodes reach v s = .ok (e, m, p)) :
    e = Brew owners rewards nodes v.er s :=
  Rew.stepRew_fst rnd owners rewards nodes reach v s e m p h

/-- `Brew` spelled out for the four kinds of rows -/
theorem Brew_cases (owners : Array Owner) (rewards : Array K) (nodes : Array (List (Tr K)))
    (x : Array K) (s : Nat) :
    (nodes.getD s [] = [] → Brew owners rewards nodes x s = 0) ∧
    (nodes.getD s [] ≠ [] → owners.getD s .prob = .prob →
      Brew owners rewards nodes x s =
        rewards.getD s 0 + ((nodes.getD s []).map (fun t => x.getD t.tgt 0 * t.p)).sum) ∧
    (nodes.getD s [] ≠ [] → owners.getD s .prob = .p1 →
      0 ≤ Brew owners rewards nodes x s - rewards.getD s 0 ∧
      (∀ t ∈ nodes.getD s [], x.getD t.tgt 0 ≤ Brew owners rewards nodes x s - rewards.getD s 0) ∧
      (Brew owners rewards nodes x s - rewards.getD s 0 = 0 ∨
        ∃ t ∈ nodes.getD s [], Brew owners rewards nodes x s - rewards.getD s 0 = x.getD t.tgt 0)) ∧
    (nodes.getD s [] ≠ [] → owners.getD s .prob = .p2 →
      (∀ t ∈ nodes.getD s [], Brew owners rewards nodes x s - rewards.getD s 0 ≤ x.getD t.tgt 0) ∧
      ∃ t ∈ nodes.getD s [], Brew owners rewards nodes x s - rewards.getD s 0 = x.getD t.tgt 0) := by
  refine ⟨Brew_nil owners rewards nodes x s, Brew_prob owners rewards nodes x s, ?_, ?_⟩
  · intro hne ho
    rw [Brew_p1 owners rewards nodes x s hne ho, add_sub_cancel_left]
    exact ⟨le_maxOver_init _ _ _, fun t ht => le_maxOver_mem _ _ _ t ht, maxOver_attained _ _ _⟩
  · intro hne ho
    obtain ⟨t0, rest, hrow⟩ := List.exists_cons_of_ne_nil hne
    rw [Brew_p2 owners rewards nodes x s t0 rest hrow ho, add_sub_cancel_left, hrow]
    refine ⟨fun t ht => minOver_le_mem _ _ _ t ht, ?_⟩
    rcases minOver_attained x (t0 :: rest) (x.getD t0.tgt 0) with h | h
    · exact ⟨t0, List.mem_cons_self, h⟩
    · exact h

section
variable {rnd : K → Int} {thr : K} {fuel : Nat} {prune : Bool} {g : Game K} {out : SolveOut K}

/-! ### 1: the run -/

/-- 1. on `.ok`, the reachability phase succeeded with the reported probabilities and strategy,
`out.nodes` is the result of conditioning the game on them, and the three reported vectors and
the iteration count are what the reward loop returns on the conditioned lists, started from
(rewards, rewards, reachability probabilities) with `diff = 1` -/
theorem rew_result (H : solve rnd thr fuel prune g = .ok out) :
    (∃ ro : ReachOut K, solveReach rnd thr fuel prune g = .ok ro ∧ out.probs = ro.probs ∧
      out.reachStrat = ro.strat ∧ out.itReach = ro.iters) ∧
    condition prune g out.reachStrat out.probs = .ok out.nodes ∧
    viRew rnd g.owners g.rewards out.nodes out.probs thr fuel 1
      { er := g.rewards, ermr := g.rewards, pmr := out.probs } 0 =
        .ok ({ er := out.rewards, ermr := out.rewMinReach, pmr := out.probMinRew }, out.itRew) := by
  obtain ⟨ro, h1, h2, h3, h4, h5, h6, _⟩ := solve_ok_full H
  exact ⟨⟨ro, h1, h2, h3, h4⟩, h5, h6⟩

/-- one entry per state in each of the three reported vectors -/
theorem rew_size (H : solve rnd thr fuel prune g = .ok out) :
    out.rewards.size = g.owners.size ∧ out.rewMinReach.size = g.owners.size ∧
      out.probMinRew.size = g.owners.size :=
  (solve_run H (Sized g.owners.size) (init_sized H) (fun _ _ _ hx h => sweepRew_sized hx h)).1

/-! ### 2: what is known when the loop stops -/

/-- 2. on `.ok`, either the loop never ran (`thr ≥ 1`; the initial vectors are reported) or the
reported vectors are the result of a last full sweep, started from vectors `v`, whose reported
change `d` is not above the threshold; `d` bounds the change of every coordinate of each of the
three tracked quantities in that sweep -/
theorem rew_stop (H : solve rnd thr fuel prune g = .ok out) :
    (¬ (1 > thr) ∧ out.itRew = 0 ∧ out.rewards = g.rewards ∧ out.rewMinReach = g.rewards ∧
      out.probMinRew = out.probs) ∨
    ∃ (v : RewVecs K) (d : K),
      1 > thr ∧ 1 ≤ out.itRew ∧
      v.er.size = g.owners.size ∧ v.ermr.size = g.owners.size ∧ v.pmr.size = g.owners.size ∧
      sweepRew rnd g.owners g.rewards out.nodes out.probs v =
        .ok ({ er := out.rewards, ermr := out.rewMinReach, pmr := out.probMinRew }, d) ∧
      ¬ (d > thr) ∧ 0 ≤ d ∧
      ∀ j, |out.rewards.getD j 0 - v.er.getD j 0| ≤ d ∧
        |out.rewMinReach.getD j 0 - v.ermr.getD j 0| ≤ d ∧
        |out.probMinRew.getD j 0 - v.pmr.getD j 0| ≤ d := by
  obtain ⟨_, hcase⟩ :=
    solve_run H (Sized g.owners.size) (init_sized H) (fun _ _ _ hx h => sweepRew_sized hx h)
  rcases hcase with ⟨h1, h2, h3⟩ | ⟨h1, h2, v, d, hv, hsw, hd⟩
  · left
    injection h3 with h3a h3b h3c
    exact ⟨h1, h2, h3a, h3b, h3c⟩
  · right
    exact ⟨v, d, h1, h2, hv.1, hv.2.1, hv.2.2, hsw, hd, sweepRew_diff_nonneg hsw, fun j =>
      ⟨sweepRew_change_le Comp.er hsw j, sweepRew_change_le Comp.ermr hsw j,
        sweepRew_change_le Comp.pmr hsw j⟩⟩

/-! ### 3: Bellman consistency -/

/-- 3'. Bellman residual of a sweep result: if the reported vectors are the result of a sweep
with reported change `d`, every state's reported reward is within `d` of its Bellman value
(Gauss–Seidel: state `s` was set to `Brew` of an intermediate vector that differs from the final
one by at most `d` in every coordinate, and `Brew` is non-expansive in the sup norm) -/
theorem rew_residual (hwf : NodesWF g.owners out.nodes) (H : solve rnd thr fuel prune g = .ok out)
    (v : RewVecs K) (d : K)
    (hsw : sweepRew rnd g.owners g.rewards out.nodes out.probs v =
      .ok ({ er := out.rewards, ermr := out.rewMinReach, pmr := out.probMinRew }, d)) :
    ∀ s < g.owners.size,
      |Brew g.owners g.rewards out.nodes out.rewards s - out.rewards.getD s 0| ≤ d := by
  intro s hs
  have hsz : v.er.size = g.owners.size := by
    rw [← (rew_size H).1]; exact (sweepRew_size Comp.er hsw).symm
  exact sweepRew_bellman hwf hsw s hs (by rw [hsz]; exact hs)

/-- 3. **Bellman consistency**: if the loop ran (`thr < 1`) and the conditioned rows of the
probabilistic states are empty or distributions, the reported reward vector is a fixed point of
the conditioned game's reward equations up to the threshold, at every state -/
theorem rew_bellman_consistency (hwf : NodesWF g.owners out.nodes) (hthr : thr < 1)
    (H : solve rnd thr fuel prune g = .ok out) :
    ∀ s < g.owners.size,
      |Brew g.owners g.rewards out.nodes out.rewards s - out.rewards.getD s 0| ≤ thr := by
  intro s hs
  rcases rew_stop H with ⟨h, _⟩ | ⟨v, d, _, _, _, _, _, hsw, hd, _, _⟩
  · exact absurd hthr h
  · exact le_trans (rew_residual hwf H v d hsw s hs) (not_lt.mp hd)

/-- 3''. exactness when the last sweep changed nothing: the reported rewards are then an exact
fixed point of the conditioned game's reward equations -/
theorem rew_fixed_point_of_zero_diff (hwf : NodesWF g.owners out.nodes)
    (H : solve rnd thr fuel prune g = .ok out) (v : RewVecs K)
    (hsw : sweepRew rnd g.owners g.rewards out.nodes out.probs v =
      .ok ({ er := out.rewards, ermr := out.rewMinReach, pmr := out.probMinRew }, 0)) :
    ∀ s < g.owners.size,
      Brew g.owners g.rewards out.nodes out.rewards s = out.rewards.getD s 0 := by
  intro s hs
  have := rew_residual hwf H v 0 hsw s hs
  exact sub_eq_zero.mp (abs_nonpos_iff.mp this)

/-! ### 4: sign -/

/-- `check_game` lets only games with non-negative state rewards through -/
theorem game_rewards_nonneg (H : solve rnd thr fuel prune g = .ok out) :
    ∀ j, 0 ≤ g.rewards.getD j 0 := (solve_checked H).1

/-- 4. reported rewards are non-negative, given `p ≥ 0` on the conditioned rows of the
probabilistic states (the state rewards are non-negative by `check_game`; holds whether or not
the loop ran) -/
theorem rew_nonneg
    (hp : ∀ s < g.owners.size, g.owners.getD s .prob = .prob → ∀ t ∈ out.nodes.getD s [], 0 ≤ t.p)
    (H : solve rnd thr fuel prune g = .ok out) : ∀ j, 0 ≤ out.rewards.getD j 0 :=
  solve_er_nonneg hp H

/-! ### 5: emptied states -/

/-- 5. "an emptied state is worth 0": if the loop ran, a state whose conditioned transition list
is empty reports 0 for all three quantities -/
theorem rew_emptied_zero (hthr : thr < 1) (H : solve rnd thr fuel prune g = .ok out) (s : Nat)
    (hrow : out.nodes.getD s [] = []) :
    out.rewards.getD s 0 = 0 ∧ out.rewMinReach.getD s 0 = 0 ∧ out.probMinRew.getD s 0 = 0 := by
  by_cases hs : s < g.owners.size
  · rcases rew_stop H with ⟨h, _⟩ | ⟨v, d, _, _, _, _, _, hsw, _⟩
    · exact absurd hthr h
    · exact ⟨sweepRew_emptied Comp.er hsw s hs hrow, sweepRew_emptied Comp.ermr hsw s hs hrow,
        sweepRew_emptied Comp.pmr hsw s hs hrow⟩
  · obtain ⟨h1, h2, h3⟩ := rew_size H
    have hs' : g.owners.size ≤ s := Nat.le_of_not_lt hs
    exact ⟨getD_of_size_le _ _ _ (h1 ▸ hs'), getD_of_size_le _ _ _ (h2 ▸ hs'),
      getD_of_size_le _ _ _ (h3 ▸ hs')⟩

/-- 4'. the same under `NodesWF` -/
theorem rew_nonneg_of_nodesWF (hwf : NodesWF g.owners out.nodes)
    (H : solve rnd thr fuel prune g = .ok out) : ∀ j, 0 ≤ out.rewards.getD j 0 :=
  rew_nonneg (fun s hs ho t ht => by
    rcases hwf s hs ho with h | h
    · rw [h] at ht; exact absurd ht List.not_mem_nil
    · exact h.1 t ht) H

/-! ### the hypothesis `NodesWF` holds for conditioned games -/

/-- if every probabilistic row of the game is a positive distribution then `NodesWF` holds for
the conditioned lists of any `.ok` run (pruning on: C03 `prob_survivors`; pruning off: the rows
are unchanged) -/
theorem nodesWF_of_game
    (hrows : ∀ s < g.owners.size, g.owners.getD s .prob = .prob →
      (∀ t ∈ g.tl.getD s [], 0 < t.p) ∧ ((g.tl.getD s []).map (·.p)).sum = 1)
    (H : solve rnd thr fuel prune g = .ok out) : NodesWF g.owners out.nodes :=
  nodesWF_of_condition (solve_checked H).2 hrows (rew_result H).2.1

/-- 3, for games: Bellman consistency with the hypothesis on the INPUT game -/
theorem rew_bellman_consistency_of_game
    (hrows : ∀ s < g.owners.size, g.owners.getD s .prob = .prob →
      (∀ t ∈ g.tl.getD s [], 0 < t.p) ∧ ((g.tl.getD s []).map (·.p)).sum = 1)
    (hthr : thr < 1) (H : solve rnd thr fuel prune g = .ok out) :
    ∀ s < g.owners.size,
      |Brew g.owners g.rewards out.nodes out.rewards s - out.rewards.getD s 0| ≤ thr :=
  rew_bellman_consistency (nodesWF_of_game hrows H) hthr H

end

/-! ### 6: pruning off -/

section NoPrune
variable {rnd : K → Int} {thr : K} {fuel : Nat} {g : Game K} {out : SolveOut K}

/-- 6. with pruning off the conditioned game is the input game with Player 1 restricted to its
reachability strategies and nothing else changed -/
theorem noprune_nodes (H : solve rnd thr fuel false g = .ok out) :
    out.nodes = pruneReachability g.owners out.reachStrat g.tl ∧
    ∀ s, out.nodes.getD s [] =
      match g.owners.getD s .prob with
      | .p1 => (g.tl.getD s []).filter
          (fun t => ((out.reachStrat.getD s none).getD []).contains t.act)
      | _ => g.tl.getD s [] := by
  have h := (rew_result H).2.1
  rw [CR.C03.condition_false] at h
  injection h with h
  exact ⟨h.symm, fun s => by rw [← h]; exact pruneReachability_getD _ _ _ s⟩

/-- 6. with pruning off, statements 1–5 hold with `out.nodes` replaced by
`pruneReachability g.owners out.reachStrat g.tl`; in particular Bellman consistency, where
`NodesWF` now follows from `p ≥ 0`, `Σ p = 1` on the probabilistic rows of the input game -/
theorem rew_bellman_consistency_noprune
    (hrows : ∀ s < g.owners.size, g.owners.getD s .prob = .prob →
      (∀ t ∈ g.tl.getD s [], 0 ≤ t.p) ∧ ((g.tl.getD s []).map (·.p)).sum = 1)
    (hthr : thr < 1) (H : solve rnd thr fuel false g = .ok out) :
    ∀ s < g.owners.size,
      |Brew g.owners g.rewards (pruneReachability g.owners out.reachStrat g.tl) out.rewards s
        - out.rewards.getD s 0| ≤ thr := by
  obtain ⟨hn, hrow⟩ := noprune_nodes H
  rw [← hn]
  refine rew_bellman_consistency (fun s hs ho => Or.inr ?_) hthr H
  rw [hrow s, ho]
  exact hrows s hs ho

end NoPrune

/-! ### non-vacuity: concrete runs over `Rat`

`reverseDfs` does not reduce in the kernel; its value on the example games is supplied by
`Examples.g7_ord` / `Examples.g6_ord`, everything else is evaluated by the kernel. -/

section NonVacuity
open CR.Examples CR.Rew.Examples

example : NodesWF g7.owners g7nodes := g7_wf

example : (thr : Rat) < 1 := by decide +kernel

/-- `Brew` evaluated on the concrete conditioned game: probabilistic state 1, Player-1 state 3,
emptied state 2 -/
example : Brew g7.owners g7.rewards g7nodes #[2, 2, 0, 2, 0, 0, 0] 1 = 2 ∧
    Brew g7.owners g7.rewards g7nodes #[2, 2, 0, 2, 0, 0, 0] 3 = 2 ∧
    Brew g7.owners g7.rewards g7nodes #[2, 2, 0, 2, 0, 0, 0] 2 = 0 := by decide +kernel

/-- all hypotheses of `rew_bellman_consistency` hold together on a concrete run -/
example : ∃ out, solve (roundRat 6) thr 1000 true g7 = .ok out ∧
    ∀ s < g7.owners.size,
      |Brew g7.owners g7.rewards out.nodes out.rewards s - out.rewards.getD s 0| ≤ thr := by
  obtain ⟨out, H, _, _, _, _, _, hn, _⟩ := g7_run
  refine ⟨out, H, rew_bellman_consistency ?_ (by decide +kernel) H⟩
  rw [hn]; exact g7_wf

/-- ... and those of `rew_emptied_zero` (state 2 is emptied) -/
example : ∃ out, solve (roundRat 6) thr 1000 true g7 = .ok out ∧
    out.nodes.getD 2 [] = [] ∧ out.rewards.getD 2 0 = 0 := by
  obtain ⟨out, H, _, _, _, _, _, hn, _⟩ := g7_run
  have hrow : out.nodes.getD 2 [] = [] := by rw [hn]; rfl
  exact ⟨out, H, hrow, (rew_emptied_zero (by decide +kernel) H 2 hrow).1⟩

/-- a run with a Player-2 state (state 1 of the 6-state game), pruning off: the hypotheses of
`rew_bellman_consistency_noprune` hold -/
example : ∃ out, solve (roundRat 6) thr 1000 false g6 = .ok out ∧
    (out.rewards, out.itRew) = (#[1, 0, 0, 1, 0, 0], 2) ∧
    ∀ s < g6.owners.size,
      |Brew g6.owners g6.rewards (pruneReachability g6.owners out.reachStrat g6.tl) out.rewards s
        - out.rewards.getD s 0| ≤ thr := by
  obtain ⟨out, H, hout⟩ : ∃ out, solve (roundRat 6) thr 1000 false g6 = .ok out ∧
      (out.rewards, out.itRew) = (#[1, 0, 0, 1, 0, 0], 2) :=
    exists_ok_of_toOption_map (by unfold solve solveReach; rw [g6_ord]; decide +kernel)
  refine ⟨out, H, hout, rew_bellman_consistency_noprune ?_ (by decide +kernel) H⟩
  intro s hs ho
  have hs' : s < 6 := hs
  have : s = 0 ∨ s = 1 ∨ s = 2 ∨ s = 3 ∨ s = 4 ∨ s = 5 := by omega
  rcases this with rfl | rfl | rfl | rfl | rfl | rfl <;>
    simp [g6, tr] at ho ⊢ <;> norm_num

end NonVacuity

end CR.C02
