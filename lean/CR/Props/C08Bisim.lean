/-
C08, packaged as a bisimulation statement.

Both the specification (`CR/Spec/Roborta.lean`) and the generated game (`CR/Model/Gen.lean`) are
viewed as labelled transition systems with observations:

* an `LTS σ α` gives every state an observation `(owner, reward, is-final)` and an ORDERED list
  of successors, each labelled `(action name, probability)`;
* `Bisim A B R` is the strong, order-preserving notion: `R`-related states have equal
  observations, and their successor lists have the same length with position-wise equal labels
  and `R`-related targets (`List.Forall₂`).  This implies ordinary strong bisimilarity
  (`Bisim.forth`, `Bisim.back`) and, for chance states, probabilistic bisimilarity (the two
  distributions are the same list of weights over position-wise related targets).

The vocabulary (`LTS`, `LTS.Step`, `Bisim`, `specLTS`, `genLTS`, `EncRel`) and the generic
consequences of `Bisim` are in `CR/Lemmas/ExtraBisim.lean`.

`generated_bisimilar`: for `BoardOK` boards, `R s n := Valid s ∧ n = enc s` is such a
bisimulation between the specification and the generated game and relates `light 0 0` to `0`.
`reachable_image`: the states of the generated game reachable from `0` are exactly the `enc`
images of the (valid) situations reachable from `light 0 0`.
-/
import CR.Props.C08
import CR.Lemmas.ExtraBisim

namespace CR.C08

open CR CR.Gen CR.Roborta

/-! ### the generated games -/

section
variable {α : Type} [Sub α] [OfNat α 0] [OfNat α 1]

/-- **C08 as a bisimulation.**  For every `BoardOK` board, variant and parameters,
`R s n := Valid s ∧ n = enc s` is a strong order-preserving bisimulation between the
specification and the generated game, and it relates the initial situation `light 0 0` to
state `0`. -/
theorem generated_bisimilar (v : Variant) (L W : Nat) (b : Board) (hb : BoardOK L W b)
    (q : Params α) :
    Bisim (specLTS v L W b q) (genLTS (genGame v L W b q)) (EncRel v L W b) ∧
    EncRel v L W b (.light 0 0) 0 := by
  refine ⟨?_, (enc_init v L W b hb).2, (enc_init v L W b hb).1.symm⟩
  rintro s n ⟨hs, rfl⟩
  obtain ⟨_, htl, hown, hrew, hfin⟩ := gen_bisim_step v L W b hb q s hs
  refine ⟨?_, ?_⟩
  · show (owner s, reward b s, s = RState.win) = (_, _, _)
    rw [hown, hrew, propext hfin]
  · show List.Forall₂ _ ((rules v L W b q s).map _) (((genGame v L W b q).tl.getD _ []).map _)
    rw [htl, List.map_map, List.forall₂_map_left_iff, List.forall₂_map_right_iff,
      List.forall₂_same]
    intro x hx
    exact ⟨rfl, valid_closed v L W b hb q s hs x hx, rfl⟩

/-- **Reachable part.**  A state of the generated game is reachable from `0` iff it is the
number of a situation reachable from `light 0 0` under the rules; every such situation is
valid. -/
theorem reachable_image (v : Variant) (L W : Nat) (b : Board) (hb : BoardOK L W b)
    (q : Params α) (n : Nat) :
    Relation.ReflTransGen (genLTS (genGame v L W b q)).Step 0 n ↔
      ∃ s, Relation.ReflTransGen (specLTS v L W b q).Step (.light 0 0) s ∧
        Valid v L W b s ∧ n = enc v L W s := by
  obtain ⟨hbis, h0⟩ := generated_bisimilar v L W b hb q
  constructor
  · intro hn
    exact hbis.reach_right h0 hn
  · rintro ⟨s, hs, _, rfl⟩
    obtain ⟨n, hn, _, rfl⟩ := hbis.reach_left h0 hs
    exact hn

/-- every situation reachable from `light 0 0` is valid -/
theorem reachable_valid (v : Variant) (L W : Nat) (b : Board) (hb : BoardOK L W b)
    (q : Params α) (s : RState)
    (hs : Relation.ReflTransGen (specLTS v L W b q).Step (.light 0 0) s) : Valid v L W b s := by
  obtain ⟨hbis, h0⟩ := generated_bisimilar v L W b hb q
  obtain ⟨_, _, hv, _⟩ := hbis.reach_left h0 hs
  exact hv

/-- on the reachable part the correspondence is one-to-one: two reachable situations with the
same number are equal -/
theorem reachable_enc_injective (v : Variant) (L W : Nat) (b : Board) (hb : BoardOK L W b)
    (q : Params α) (s s' : RState)
    (hs : Relation.ReflTransGen (specLTS v L W b q).Step (.light 0 0) s)
    (hs' : Relation.ReflTransGen (specLTS v L W b q).Step (.light 0 0) s')
    (h : enc v L W s = enc v L W s') : s = s' :=
  enc_injective v L W b s s' (reachable_valid v L W b hb q s hs)
    (reachable_valid v L W b hb q s' hs') h

end

/-! ### non-vacuity (2×1 board of `CR/Props/C08.lean`, game A, over `Rat`) -/

/-- the two systems on the one-column board: the light's first move -/
example : (specLTS .A 2 1 b21 q0).next (.light 0 0) =
    [(("Green", 0), .down 0 0), (("Yellow", 0), .lr 0 0)] := by rfl
example : (genLTS (genGame .A 2 1 b21 q0)).next 0 = [(("Green", 0), 2), (("Yellow", 0), 4)] := by
  rfl

/-- state 6 (`land 0 0`, a loose tile) is reachable from 0 in the generated game: 0 → 4 → 6 -/
example : Relation.ReflTransGen (genLTS (genGame .A 2 1 b21 q0)).Step 0 6 :=
  .tail (.tail .refl ⟨(("Yellow", 0), 4), by decide, rfl⟩) ⟨(("Left", 0), 6), by decide, rfl⟩

/-- ... hence, by `reachable_image`, it is the number of a reachable valid situation -/
example : ∃ s, Relation.ReflTransGen (specLTS .A 2 1 b21 q0).Step (.light 0 0) s ∧
    Valid .A 2 1 b21 s ∧ 6 = enc .A 2 1 s :=
  (reachable_image .A 2 1 b21 (by unfold BoardOK; decide) q0 6).mp
    (.tail (.tail .refl ⟨(("Yellow", 0), 4), by decide, rfl⟩) ⟨(("Left", 0), 6), by decide, rfl⟩)

/-- state 5 (the `Etha` row of the down-only tile) is NOT the image of a valid situation, and
by `reachable_image` it is not reachable from 0 -/
example : ¬ Relation.ReflTransGen (genLTS (genGame .A 2 1 b21 q0)).Step 0 5 := by
  rw [reachable_image .A 2 1 b21 (by unfold BoardOK; decide) q0 5]
  rintro ⟨s, _, hv, he⟩
  cases s with
  | lr i j =>
    obtain ⟨hi, hj, hm⟩ := hv
    simp only [enc] at he
    obtain rfl : j = 0 := by omega
    obtain rfl : i = 1 := by omega
    exact hm (by decide)
  | light i j | down i j | land i j => simp only [enc, Valid] at hv he; omega
  | free i j | lightG i j | lightY i j | tryDown i j | tryLeft i j | tryRight i j =>
    simp [Valid] at hv
  | lose | win => simp [enc] at he

end CR.C08
