/-
Canonical text of the values the translated functions return (translation validation, harness/exval.py):
ints in decimal, floats as `f<bits>`, strings JSON-quoted, lists `[a,b]`, tuples `(a,b,c)` flat, dicts as lists of
pairs in insertion order, `none`, `ValueError:<message>`.
-/
import CR.Extracted.Prelude

namespace CR.PyShow

class Sh (α : Type) where
  sh : α → String
  inner : α → String := sh

export Sh (sh)

instance : Sh Int := { sh := fun i => toString i }
instance : Sh Float := { sh := fun x => "f" ++ toString x.toBits.toNat }
instance : Sh Bool := { sh := fun b => if b then "true" else "false" }
instance : Sh Unit := { sh := fun _ => "()" }

def quote (s : String) : String :=
  "\"" ++ s.foldl (fun acc c =>
    if c == '"' then acc ++ "\\\"" else if c == '\\' then acc ++ "\\\\" else acc.push c) "" ++ "\""

instance : Sh String := { sh := quote }
instance : Sh CR.Py.Slot := { sh := fun s => match s with | .act a => quote a | .prob p => Sh.sh p }
instance {α β : Type} [Sh α] [Sh β] : Sh (α × β) :=
  { sh := fun p => "(" ++ Sh.sh p.1 ++ "," ++ Sh.inner p.2 ++ ")"
    inner := fun p => Sh.sh p.1 ++ "," ++ Sh.inner p.2 }
instance {α : Type} [Sh α] : Sh (List α) := { sh := fun l => "[" ++ ",".intercalate (l.map Sh.sh) ++ "]" }
instance {α : Type} [Sh α] : Sh (Option α) := { sh := fun o => match o with | none => "none" | some x => Sh.sh x }
instance {α : Type} [Sh α] : Sh (Except String α) :=
  { sh := fun o => match o with | .error m => "ValueError:" ++ m | .ok x => Sh.sh x }

end CR.PyShow
