/-
Semantics of the Python primitives the translator `harness/py2lean.py` emits (hand-written, small, trusted:
this file is the translator's run-time library).  No Mathlib import.
-/
import CR.Model.Gen

namespace CR.Py

/-- the first slot of a transition tuple in a whole game's transition list: an action name on player rows, a
probability on probabilistic rows -/
inductive Slot where
  | act (a : String)
  | prob (p : Float)
  deriving Inhabited

/-- `range(n)` -/
def range (n : Int) : List Int := (List.range n.toNat).map Int.ofNat

/-- `enumerate(xs)` -/
def enumerate {α : Type} (xs : List α) : List (Int × α) := xs.zipIdx.map (fun (x, i) => (Int.ofNat i, x))

/-- `len(xs)` -/
def len {α : Type} (xs : List α) : Int := Int.ofNat xs.length

/-- `xs[i]` with Python's negative indices.  An index out of range yields `default`
(Python: IndexError — not modelled). -/
def idx {α : Type} [Inhabited α] (xs : List α) (i : Int) : α :=
  if i < 0 then xs.getD (xs.length - i.natAbs) default else xs.getD i.toNat default

/-- `xs * n` -/
def listMul {α : Type} (xs : List α) (n : Int) : List α := (List.replicate n.toNat xs).flatten

/-- `xs[i] = v` for an index in range (out of range: IndexError — not modelled, the list is unchanged) -/
def setIdx {α : Type} (xs : List α) (i : Int) (v : α) : List α :=
  if i < 0 then xs else xs.set i.toNat v

/-- `set(a) == set(b)` -/
def sameSet {α : Type} [BEq α] (a b : List α) : Bool := a.all (b.contains ·) && b.all (a.contains ·)

/-- truthiness of a value that is `None` or an int (`if not winning_state`) -/
def truthyOpt : Option Int → Bool
  | none => false
  | some n => n != 0

/-- an int read out of a None-or-int variable (`None` used as a number: TypeError — not modelled) -/
def unopt : Option Int → Int
  | none => 0
  | some n => n

/-- `max(xs)` / `min(xs)` of a non-empty list of ints (empty: ValueError — not modelled, yields 0) -/
def maxList : List Int → Int
  | [] => 0
  | x :: xs => xs.foldl max x
def minList : List Int → Int
  | [] => 0
  | x :: xs => xs.foldl min x

/-- `max(xs)` / `min(xs)` of a non-empty list of floats: the first extreme element, as Python's left-to-right scan
(empty: ValueError — not modelled, yields 0) -/
def maxListF : List Float → Float
  | [] => 0
  | x :: xs => xs.foldl (fun m y => if y > m then y else m) x
def minListF : List Float → Float
  | [] => 0
  | x :: xs => xs.foldl (fun m y => if y < m then y else m) x

/-- `round(x)` for a finite double `0 ≤ x < 2^63` (the model's rounding; negative arguments not modelled) -/
def round (x : Float) : Int := Int.ofNat (CR.Gen.pyRoundNonneg x)

/-- `xs.pop()`'s value: the last element (empty list: IndexError — not modelled, yields `default`) -/
def last {α : Type} [Inhabited α] (xs : List α) : α := xs.getLastD default

/-- `xs.sort()` on a list of ints -/
def sortInts (xs : List Int) : List Int := xs.mergeSort (fun a b => decide (a ≤ b))

/-- `while c(st): st = body(st)`, at most `fuel` iterations; `none` when the condition still holds after `fuel`
iterations -/
def whileFuel {σ : Type} : Nat → (σ → Bool) → (σ → σ) → σ → Option σ
  | 0, c, _, st => if c st then none else some st
  | fuel + 1, c, body, st => if c st then whileFuel fuel c body (body st) else some st

/-- value of a call of a fuel-bounded unit inside another unit: `default` when it ran out of fuel -/
def orDefault {α : Type} [Inhabited α] : Option α → α
  | some x => x
  | none => default

/-! dicts as association lists in insertion order -/
def dictHas {κ β : Type} [BEq κ] (d : List (κ × β)) (k : κ) : Bool := d.any (fun e => e.1 == k)
def dictGet {κ β : Type} [BEq κ] [Inhabited β] (d : List (κ × β)) (k : κ) : β :=
  match d.find? (fun e => e.1 == k) with
  | some e => e.2
  | none => default
def dictSet {κ β : Type} [BEq κ] (d : List (κ × β)) (k : κ) (v : β) : List (κ × β) :=
  if dictHas d k then d.map (fun e => if e.1 == k then (e.1, v) else e) else d ++ [(k, v)]

end CR.Py
