/-
Executable model of the text that `roberta_generator.write_robot_A/B/C` writes for one game:

    str(game).replace("[[", "[\n[").replace("], ", "],\n")
             .replace("[(", SIXTEEN_SPACES+"[(").replace("\n'", "\n" + TWELVE_SPACES + "'")

* `replaceAll` : Python's `str.replace(pat, rep)` on character lists (leftmost, non-overlapping).
* `surgery`    : the four replacements, in the code's order.
* `Lit`, `renderLit` : Python literals as they occur in the game dict and their `repr`.
  Floats are opaque atoms carrying their `repr` text (`num`); the harness supplies the text.
* `stripWs`    : delete blanks and newlines that occur outside single-quoted string literals
  (the token-level view of the text: Python's parser ignores exactly this white space between
  the tokens of a bracketed expression).
* `gameLit`    : the game dict.

Everything works on `List Char`.  No Mathlib/Batteries import.
-/

namespace CR.Text

/-! ### `str.replace` -/

/-- scan with a skip counter: `skip` characters of a matched pattern are still to be dropped -/
def replaceAux (pat rep : List Char) : Nat → List Char → List Char
  | _, [] => []
  | skip + 1, _ :: s => replaceAux pat rep skip s
  | 0, c :: s =>
    if pat.isPrefixOf (c :: s) then rep ++ replaceAux pat rep (pat.length - 1) s
    else c :: replaceAux pat rep 0 s

/-- Python `s.replace(pat, rep)`: scan from the left; where `pat` is a prefix of the rest, emit
`rep` and skip `pat` (so matches do not overlap), otherwise emit one character.
For the empty pattern Python inserts `rep` before every character and at the end. -/
def replaceAll (pat rep : List Char) (s : List Char) : List Char :=
  match pat with
  | [] => rep ++ s.flatMap (fun c => c :: rep)
  | _ :: _ => replaceAux pat rep 0 s

def spaces (n : Nat) : List Char := List.replicate n ' '

/-- the four replacements of `write_robot_A/B/C`, in the code's order -/
def surgery (s : List Char) : List Char :=
  replaceAll ['\n', '\''] ('\n' :: (spaces 12 ++ ['\'']))
    (replaceAll ['[', '('] (spaces 16 ++ ['[', '('])
      (replaceAll [']', ',', ' '] [']', ',', '\n']
        (replaceAll ['[', '['] ['[', '\n', '['] s)))

/-! ### Python literals and their `repr` -/

inductive Lit where
  | int (i : Int)
  | num (atom : String)                 -- a number given by its `repr` text (floats)
  | str (s : String)
  | tuple (xs : List Lit)
  | list (xs : List Lit)
  | dict (kvs : List (String × Lit))    -- string keys only
  deriving Inhabited

/-- `repr` of a string without quotes, backslashes and non-printable characters -/
def quoted (s : String) : List Char := '\'' :: (s.toList ++ ['\''])

/-- a one-element tuple is written `(a,)` -/
def tupleClose : List Lit → List Char
  | [_] => [',', ')']
  | _ => [')']

mutual
/-- Python `repr` (= `str`) of a literal -/
def renderLit : Lit → List Char
  | .int i => (toString i).toList
  | .num a => a.toList
  | .str s => quoted s
  | .tuple xs => '(' :: (renderSeq xs ++ tupleClose xs)
  | .list xs => '[' :: (renderSeq xs ++ [']'])
  | .dict kvs => '{' :: (renderKVs kvs ++ ['}'])
/-- elements separated by `", "` -/
def renderSeq : List Lit → List Char
  | [] => []
  | [x] => renderLit x
  | x :: y :: r => renderLit x ++ ',' :: ' ' :: renderSeq (y :: r)
/-- `key: value` pairs separated by `", "` -/
def renderKVs : List (String × Lit) → List Char
  | [] => []
  | [(k, v)] => quoted k ++ ':' :: ' ' :: renderLit v
  | (k, v) :: kv :: r => quoted k ++ ':' :: ' ' :: (renderLit v ++ ',' :: ' ' :: renderKVs (kv :: r))
end

/-! ### the token-level view -/

/-- delete `' '` and `'\n'` outside string literals; `q` = currently inside a literal -/
def stripAux : Bool → List Char → List Char
  | _, [] => []
  | q, c :: s =>
    if c = '\'' then c :: stripAux (!q) s
    else if q = false ∧ (c = ' ' ∨ c = '\n') then stripAux q s
    else c :: stripAux q s

def stripWs (s : List Char) : List Char := stripAux false s

/-! ### the domain of the theorems (decidable, so a driver can check it on generated files) -/

def isWs (c : Char) : Bool := c == ' ' || c == '\n'

/-- characters allowed inside a string literal: none of `[ ] ( ) ' \ newline` -/
def inStrOK (c : Char) : Bool :=
  !(c == '[' || c == ']' || c == '(' || c == ')' || c == '\'' || c == '\\' || c == '\n')

/-- a string whose `repr` is the string in single quotes, and that contains no bracket,
parenthesis or newline -/
def safeStr (st : String) : Bool := st.toList.all inStrOK

/-- characters allowed in a number atom: no white space, bracket, parenthesis, quote -/
def atomChOK (c : Char) : Bool :=
  !(isWs c || c == '[' || c == ']' || c == '(' || c == ')' || c == '\'')

def numOK (a : String) : Bool := a.toList.all atomChOK

mutual
/-- all string literals (`str`s and dict keys) are safe, all number atoms are `numOK` -/
def litOK : Lit → Bool
  | .int _ => true
  | .num a => numOK a
  | .str s => safeStr s
  | .tuple xs => seqOK xs
  | .list xs => seqOK xs
  | .dict kvs => kvsOK kvs
def seqOK : List Lit → Bool
  | [] => true
  | x :: xs => litOK x && seqOK xs
def kvsOK : List (String × Lit) → Bool
  | [] => true
  | (k, v) :: r => safeStr k && (litOK v && kvsOK r)
end

/-- characters allowed in a number atom for the unique-reading theorem: additionally no
separator (`,` `:`) and no brace -/
def atomChWF (c : Char) : Bool :=
  atomChOK c && !(c == ',' || c == ':' || c == '{' || c == '}')

/-- a number atom that is not the text of an integer: non-empty, only atom characters, and some
character is neither a digit nor `-` (Python's float `repr` always contains `.`, `e`, `inf` or
`nan`) -/
def numWF (a : String) : Bool :=
  !a.toList.isEmpty && a.toList.all atomChWF && a.toList.any (fun c => !(c.isDigit || c == '-'))

mutual
/-- `litOK`, and every number atom is `numWF` -/
def litWF : Lit → Bool
  | .int _ => true
  | .num a => numWF a
  | .str s => safeStr s
  | .tuple xs => seqWF xs
  | .list xs => seqWF xs
  | .dict kvs => kvsWF kvs
def seqWF : List Lit → Bool
  | [] => true
  | x :: xs => litWF x && seqWF xs
def kvsWF : List (String × Lit) → Bool
  | [] => true
  | (k, v) :: r => safeStr k && (litWF v && kvsWF r)
end

/-- scanning `s` from state `q` (inside a string literal or not), every character met inside a
literal is the closing quote or an allowed string character -/
def safeFrom : Bool → List Char → Bool
  | _, [] => true
  | q, c :: s =>
    if c = '\'' then safeFrom (!q) s else (!q || inStrOK c) && safeFrom q s

/-- the state after scanning `s` from state `q` -/
def endState : Bool → List Char → Bool
  | q, [] => q
  | q, c :: s => if c = '\'' then endState (!q) s else endState q s

/-! ### the game dict -/

/-- label of a transition: an action name (a Python string), an integer, or a float given by
its `repr` text -/
inductive Label where
  | act (name : String)
  | int (i : Int)
  | num (atom : String)
  deriving Inhabited

def Label.lit : Label → Lit
  | .act a => .str a
  | .int i => .int i
  | .num r => .num r

def Label.ok : Label → Bool
  | .act a => safeStr a
  | .int _ => true
  | .num r => numWF r

/-- the strings of the game (player names, action names) are safe and the float texts are
`numWF` -/
def gameOK (players : List String) (tl : List (List (Label × Nat))) : Bool :=
  players.all safeStr && tl.all (fun row => row.all (fun t => t.1.ok))

/-- `{'rewards': […], 'players': […], 'transition_list': [[(label, target), …], …],
'final_states': […]}` -/
def gameLit (rewards : List Int) (players : List String) (tl : List (List (Label × Nat)))
    (finals : List Nat) : Lit :=
  .dict
    [("rewards", .list (rewards.map .int)),
     ("players", .list (players.map .str)),
     ("transition_list",
        .list (tl.map fun row => .list (row.map fun t => .tuple [t.1.lit, .int (Int.ofNat t.2)]))),
     ("final_states", .list (finals.map fun n => .int (Int.ofNat n)))]

end CR.Text
