/-
Numbers of the model.

The solver model is polymorphic in its number type `α`; it only needs the ordinary
operations `+ - * /`, `<`, `≤`, `==`, the literals `0` and `1`, and a *rounding function*
`rnd : α → Int` standing for Python's `round(x, digits)` (the value scaled by `10^digits` and
rounded half-to-even; the code only ever compares rounded values with each other and with the
literals 0 and 1, so the scaled integer is a faithful stand-in — validated by the `round`
correspondence suite).

Executable instances: `Float` (IEEE double, bit-identical to CPython's float arithmetic) and
core `Rat` (exact).  This file has no Mathlib import.
-/

namespace CR

/-- exact rational value of a finite IEEE double (NaN/inf are mapped to 0; never rounded) -/
def floatToRat (x : Float) : Rat :=
  let b := x.toBits
  let neg := (b >>> 63) == 1
  let e := ((b >>> 52) &&& 0x7FF).toNat
  let m := (b &&& 0xFFFFFFFFFFFFF).toNat
  let mag : Rat :=
    if e == 0x7FF then 0
    else if e == 0 then mkRat (Int.ofNat m) (2 ^ 1074)
    else if e ≥ 1075 then ((m + 2 ^ 52) * 2 ^ (e - 1075) : Nat)
    else mkRat (Int.ofNat (m + 2 ^ 52)) (2 ^ (1075 - e))
  if neg then -mag else mag

/-- nearest integer, ties to even -/
def roundHalfEven (q : Rat) : Int :=
  let fl := q.floor
  let rem := q - (fl : Rat)
  if rem > (1 : Rat) / 2 then fl + 1
  else if rem < (1 : Rat) / 2 then fl
  else if fl % 2 == 0 then fl else fl + 1

/-- Python `round(x, digits)` as the scaled integer, on rationals -/
def roundRat (digits : Nat) (q : Rat) : Int := roundHalfEven (q * ((10 ^ digits : Nat) : Rat))

/-- Python `round(x, digits)` as the scaled integer, on doubles -/
def roundFloat (digits : Nat) (x : Float) : Int := roundRat digits (floatToRat x)

/-- `abs` as the model uses it (`-0.0` instead of `0.0` is indistinguishable by `<`,`==`) -/
@[inline] def absv {α : Type} [Neg α] [LT α] [DecidableLT α] [OfNat α 0] (x : α) : α :=
  if x < 0 then -x else x

end CR
