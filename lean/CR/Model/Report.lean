/-
Executable model of `conditionalrewards.save_results_to_file` (working tree), of the report
file name, and of a line-level reader of the report.

Values are Python values as they occur in a result entry.  Floats are *opaque atoms* carrying
their `repr` text (float formatting is not modelled; the harness supplies the text).
No Mathlib import.
-/

namespace CR.Report

/-- result values: `None`, `True/False`, ints, floats (repr text), strings, lists -/
inductive RVal where
  | none
  | bool (b : Bool)
  | int (i : Int)
  | float (repr : String)
  | str (s : String)
  | list (xs : List RVal)
  deriving Inhabited, Repr

/-- Python `repr` of a string made of printable ASCII without quotes or backslashes -/
def reprStr (s : String) : String := "'" ++ s ++ "'"

mutual
/-- Python `str()`/`repr()` of a result value (inside f-strings `str(list)` uses `repr` of the
elements) -/
def renderVal : RVal → String
  | .none => "None"
  | .bool b => if b then "True" else "False"
  | .int i => toString i
  | .float r => r
  | .str s => reprStr s
  | .list xs => "[" ++ renderList xs ++ "]"
def renderList : List RVal → String
  | [] => ""
  | [x] => renderVal x
  | x :: y :: rest => renderVal x ++ ", " ++ renderList (y :: rest)
end

/-- one result entry of `run_games` (the fields the report prints) -/
structure Entry where
  msg            : String      -- printed with `str`, i.e. verbatim
  nStates        : RVal
  nTransitions   : RVal
  itReach        : RVal
  itRew          : RVal
  reachStrat     : RVal
  finalStrat     : RVal
  areEqual       : Bool        -- `reachability_strategies == final_strategies`, computed by Python
  probabilities  : RVal
  probMinRew     : RVal
  rewards        : RVal
  rewMinReach    : RVal
  totalTime      : String      -- masked by the harness
  deriving Inhabited

def separator : String := String.ofList (List.replicate 160 '=')

/-- the labels, in the order the report prints them (all padded to the same width) -/
def labels : List String :=
  ["Running example         : ", "Message                 : ", "number of states        : ",
   "number of transitions   : ", "n iterations reach      : ", "n iterations rew        : ",
   "Reachability strategies : ", "Final strategies        : ", "Are equal               : ",
   "Probabilities           : ", "Probabilities min rew   : ", "Rewards                 : ",
   "Rewards min reach       : ", "Total time              : "]

/-- the values of a block, as printed, in label order -/
def fieldTexts (name : String) (e : Entry) : List String :=
  [name, e.msg, renderVal e.nStates, renderVal e.nTransitions, renderVal e.itReach, renderVal e.itRew,
   renderVal e.reachStrat, renderVal e.finalStrat, (if e.areEqual then "True" else "False"),
   renderVal e.probabilities, renderVal e.probMinRew, renderVal e.rewards, renderVal e.rewMinReach,
   e.totalTime]

/-- the lines of one block: separator, then one line per field -/
def blockLines (name : String) (e : Entry) : List String :=
  separator :: (labels.zip (fieldTexts name e)).map (fun lt => lt.1 ++ lt.2)

/-- the whole report: blocks in run order, every line terminated by a newline -/
def renderReport (rs : List (String × Entry)) : String :=
  String.join ((rs.flatMap (fun ne => blockLines ne.1 ne.2)).map (· ++ "\n"))

/-- `file_name.split("/")[-1].split(".")[0]`, then `outputs/<stem>.txt` -/
def outName (path : String) : String :=
  let last := (path.splitOn "/").getLast!
  let stem := (last.splitOn ".").head!
  "outputs/" ++ stem ++ ".txt"

/-- line-level reader: drop the 26-character label -/
def fieldOfLine (line : String) : String := (line.drop 26).toString

/-- read back the field texts of every block (14 lines after each separator) -/
def readBlocks (lines : List String) : List (List String) :=
  match lines with
  | [] => []
  | _sep :: rest => (rest.take 14).map fieldOfLine :: readBlocks (rest.drop 14)
termination_by lines.length
decreasing_by simp; omega

end CR.Report
