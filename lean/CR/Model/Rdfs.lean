/-
Executable model of `reverse_dfs.py` (working tree): reversed-transition table and the
backward search with a visited set and an explicit stack.

A transition list is abstracted to its targets: `List (List Nat)` (the labels play no role in
this file).  Domain: every target and every final state is `< tl.length` (what
`StochasticGame.check_game` / `Node.check_next_states` guarantee before the search is
called).  No Mathlib import.
-/

namespace CR

/-- `reverse_transition_list_core`: one pair `(next_state, current_state)` per transition, in
order of appearance -/
def revCore (tl : List (List Nat)) : List (Nat × Nat) :=
  tl.zipIdx.flatMap (fun (row, u) => row.map (fun v => (v, u)))

/-- `list_of_tuples_to_dict_of_lists` + `add_missing_states`, as an array indexed by state
(a Python dict with exactly the keys `0..n-1`; value lists in insertion order) -/
def revTable (tl : List (List Nat)) : Array (List Nat) :=
  (revCore tl).foldl (fun tab (v, u) => tab.setIfInBounds v (tab.getD v [] ++ [u]))
    (Array.replicate tl.length [])

/-- number of states of `0..n-1` not yet visited -/
def unvisited (n : Nat) (acc : List Nat) : Nat :=
  ((List.range n).filter (fun v => !acc.contains v)).length

theorem filt_le_gen (p q : Nat → Bool) (l : List Nat) (h : ∀ v, q v = true → p v = true) :
    (l.filter q).length ≤ (l.filter p).length := by
  induction l with
  | nil => simp
  | cons x xs ih =>
    simp only [List.filter_cons]
    cases hq : q x <;> cases hp : p x <;> simp <;> first | omega | (have := h x hq; simp_all)

theorem filt_lt_gen (p q : Nat → Bool) (l : List Nat) (h : ∀ v, q v = true → p v = true)
    (s : Nat) (hs : s ∈ l) (hps : p s = true) (hqs : q s = false) :
    (l.filter q).length < (l.filter p).length := by
  induction l with
  | nil => simp at hs
  | cons x xs ih =>
    have hle := filt_le_gen p q xs h
    simp only [List.filter_cons]
    by_cases h1 : x = s
    · subst h1
      simp [hps, hqs]; omega
    · have hs' : s ∈ xs := by
        cases hs with
        | head => exact absurd rfl h1
        | tail _ h => exact h
      have := ih hs'
      cases hq : q x <;> cases hp : p x <;> simp <;> first | omega | (have := h x hq; simp_all)

theorem unvisited_cons_lt {n s : Nat} {acc : List Nat} (hs : s < n) (hna : acc.contains s = false) :
    unvisited n (s :: acc) < unvisited n acc := by
  unfold unvisited
  apply filt_lt_gen _ _ _ _ s
  · simp [hs]
  · simpa using hna
  · simp
  · intro v; simp

/-- the `while pending:` loop of `reverse_dfs_recursive`: `stack` is `pending` (head = top),
`acc` the states collected so far (most recent first; order is irrelevant downstream) -/
def dfsLoop (rev : Array (List Nat)) (stack : List Nat) (acc : List Nat) : List Nat :=
  match stack with
  | [] => acc
  | s :: rest =>
    if acc.contains s then dfsLoop rev rest acc
    else dfsLoop rev (rev.getD s [] ++ rest) (s :: acc)
termination_by (unvisited rev.size acc, stack.length)
decreasing_by
  · exact Prod.Lex.right _ (by simp)
  · rename_i hc
    by_cases hs : s < rev.size
    · exact Prod.Lex.left _ _ (unvisited_cons_lt hs (by simpa using hc))
    · have hempty : rev.getD s [] = [] := by
        simp [Array.getD, hs]
      have hsame : unvisited rev.size (s :: acc) = unvisited rev.size acc := by
        unfold unvisited
        congr 1
        apply List.filter_congr
        intro v hv
        have hv' : v < rev.size := by simpa using hv
        have hne : ¬ v = s := by omega
        simp [hne]
      rw [hempty, hsame]
      exact Prod.Lex.right _ (by simp)

/-- `reverse_dfs`: search from every final state, drop the finals, sort -/
def reverseDfs (tl : List (List Nat)) (finals : List Nat) : List Nat :=
  let rev := revTable tl
  let all := finals.foldl (fun acc f => dfsLoop rev [f] acc) []
  (all.filter (fun s => !finals.contains s)).mergeSort (fun a b => a ≤ b)

end CR
