/-
Aliasing ("heap") model of the conditioning phase of `StochasticGame.solve`.

In `tad.py` every node object has an attribute `next_states`.  `Node.__init__` stores the
reference it is given, and `StochasticGame.init_states` hands it the caller's own inner list
`transition_list[idx]`: right after `init_states` the attribute of node `s` ALIASES the caller's
list object number `s`.  The conditioning methods then either REBIND the attribute to a freshly
built list (`self.next_states = [...]`) — the current code — or MUTATE the list object the
attribute points to (`self.next_states.remove(x)`) — the older, defective code, which thereby
edited the caller's game description.

The pure model (`CR.Model.Solver`) abstracts from object identity.  This file keeps it:

* `HState.desc`  — the caller's inner list objects (one per state);
* `HState.nodes` — for every node, where its attribute `next_states` points (`Ref`): to the
  caller's list number `row`, or to a list only the node can reach.

`conditionHS` transcribes, operation by operation and in the order of the pure `condition`, what
the current Python does; it returns the heap as it is when the phase ends — normally or by a
Python exception (`Option Err`), so that the caller's lists can be inspected in both cases.
`conditionH_old` is the older behaviour, for contrast.

No Mathlib import (this file is compiled into the driver).
-/
import CR.Model.Solver

namespace CR

/-- where a node's `next_states` attribute points -/
inductive Ref (α : Type) where
  | caller (row : Nat)        -- the caller's inner list object `transition_list[row]`
  | own (l : List (Tr α))     -- a list object created by the solver; only this node refers to it
  deriving Inhabited

/-- the part of the Python heap that matters: the caller's list objects and the nodes' attributes -/
structure HState (α : Type) where
  desc  : Array (List (Tr α))
  nodes : Array (Ref α)
  deriving Inhabited

namespace HState
variable {α : Type}

/-- `init_states`: node `s` is constructed with `next_states=transitions`, the caller's list `s` -/
def init (tl : Array (List (Tr α))) : HState α :=
  { desc := tl, nodes := (Array.range tl.size).map Ref.caller }

def deref (desc : Array (List (Tr α))) : Ref α → List (Tr α)
  | .caller r => desc.getD r []
  | .own l => l

/-- `state_list[s].next_states` (read) -/
def read (h : HState α) (s : Nat) : List (Tr α) :=
  match h.nodes[s]? with
  | some r => deref h.desc r
  | none => []

/-- snapshot `[state.next_states for state in state_list]` -/
def view (h : HState α) : Array (List (Tr α)) := h.nodes.map (deref h.desc)

/-- `state_list[s].next_states = l` with `l` a new list object: only the attribute changes -/
def rebind (h : HState α) (s : Nat) (l : List (Tr α)) : HState α :=
  { h with nodes := h.nodes.setIfInBounds s (.own l) }

/-- in-place edit (`.remove(x)`, `del`, ...) of the list object `state_list[s].next_states`
points to: when that is one of the caller's lists, the caller's description changes -/
def mutate (h : HState α) (s : Nat) (f : List (Tr α) → List (Tr α)) : HState α :=
  match h.nodes[s]? with
  | some (.caller r) => { h with desc := h.desc.setIfInBounds r (f (h.desc.getD r [])) }
  | some (.own l) => { h with nodes := h.nodes.setIfInBounds s (.own (f l)) }
  | none => h

end HState

/-- a heap together with the pending Python exception, if any -/
abbrev HRes (α : Type) := HState α × Option Err

def HRes.toExcept {α : Type} (r : HRes α) : Except Err (HState α) :=
  match r.2 with
  | none => .ok r.1
  | some e => .error e

section
variable {α : Type} [Add α] [Sub α] [Mul α] [Div α] [Neg α] [LT α] [DecidableLT α]
  [LE α] [DecidableLE α] [BEq α] [OfNat α 0] [OfNat α 1]

/-! ### the current code -/

/-- `Solver.prune_reachability`: `for idx, state in enumerate(state_list): if state.player ==
PLAYER_1: state.prune_paths_reachability(...)`, which does `self.next_states = [... if action in
best_strategies]` -/
def pruneReachabilityH (owners : Array Owner) (strat : Array Strat) (h : HState α) : HState α :=
  (List.range h.nodes.size).foldl (fun h s =>
    match owners.getD s .prob with
    | .p1 => h.rebind s
        ((h.read s).filter (fun t => (strat.getD s none).getD [] |>.contains t.act))
    | _ => h) h

/-- one iteration of the loop of `Solver.prune_paths` (skipped once an exception is pending).
`PlayerOne.prune_paths` rebinds to the filtered list; `ProbabilisticNode.prune_paths` rebinds
only `if len(kept_states) != len(self.next_states)` and otherwise leaves the attribute as it is
(possibly still the caller's list); Player 2 nodes are not visited. -/
def prunePathsStep (owners : Array Owner) (reach : Array α) (acc : HRes α) (s : Nat) : HRes α :=
  match acc.2 with
  | some _ => acc
  | none =>
    let h := acc.1
    match owners.getD s .prob with
    | .p1 => (h.rebind s (prunePathsP1 reach (h.read s)), none)
    | .prob =>
      let row := h.read s
      match prunePathsProb reach row with
      | .error e => (h, some e)
      | .ok row' =>
        if (row.filter (fun t => !(reach.getD t.tgt 0 == 0))).length ≠ row.length
        then (h.rebind s row', none)
        else (h, none)
    | .p2 => (h, none)

/-- `Solver.prune_paths` -/
def prunePathsHS (owners : Array Owner) (reach : Array α) (h : HState α) : HRes α :=
  (List.range h.nodes.size).foldl (prunePathsStep owners reach) (h, none)

/-- one round of the `while not finished` loop of `Solver.prune_states`: first
`reachable_states` is collected from every node's list, then the states are scanned; a cleared
state gets `next_states = []` (rebind).  Returns the heap and `not_reachable_states_new`. -/
def pruneStatesRoundH (owners : Array Owner) (h : HState α) : HState α × List Nat :=
  let targets : List Nat := 0 :: (h.view.toList.flatMap (fun row => row.map (·.tgt)))
  (List.range h.nodes.size).foldl (fun (acc : HState α × List Nat) s =>
    if (owners.getD s .prob != .p1) && !(targets.contains s) then
      (acc.1.rebind s [], acc.2 ++ [s])
    else if (owners.getD s .prob == .p1) && (acc.1.read s).isEmpty && !(targets.contains s) then
      (acc.1, acc.2 ++ [s])
    else acc) (h, [])

/-- `Solver.prune_states` (fuel as in the pure `pruneStates`) -/
def pruneStatesHS (owners : Array Owner) : Nat → List Nat → HState α → HRes α
  | 0, _, h => (h, some .outOfFuel)
  | fuel + 1, prev, h =>
    let r := pruneStatesRoundH owners h
    if sameSet r.2 prev then (r.1, none) else pruneStatesHS owners fuel r.2 r.1

/-- the conditioning phase of `StochasticGame.solve` on the heap: final heap and the pending
exception, if any -/
def conditionHS (prune : Bool) (g : Game α) (strat : Array Strat) (reach : Array α)
    (h : HState α) : HRes α :=
  let h := pruneReachabilityH g.owners strat h
  if prune then
    match prunePathsHS g.owners reach h with
    | (h, some e) => (h, some e)
    | (h, none) => pruneStatesHS g.owners (g.owners.size + 2) [] h
  else (h, none)

/-- the conditioning phase as an `Except` value (the heap is dropped when an exception is
pending) -/
def conditionH (prune : Bool) (g : Game α) (strat : Array Strat) (reach : Array α)
    (h : HState α) : Except Err (HState α) :=
  (conditionHS prune g strat reach h).toExcept

/-- `StochasticGame.solve` with the caller's list objects made explicit: the outcome (result or
exception) and the caller's inner lists as they are afterwards -/
def solveHS (rnd : α → Int) (thr : α) (fuel : Nat) (prune : Bool) (g : Game α) :
    Except Err (SolveOut α) × Array (List (Tr α)) :=
  let h0 := HState.init g.tl
  match solveReach rnd thr fuel prune g with
  | .error e => (.error e, h0.desc)
  | .ok ro =>
    match conditionHS prune g ro.strat ro.probs h0 with
    | (h, some e) => (.error e, h.desc)
    | (h, none) =>
      let nodes := h.view
      let v0 : RewVecs α := { er := g.rewards, ermr := g.rewards, pmr := ro.probs }
      match viRew rnd g.owners g.rewards nodes ro.probs thr fuel 1 v0 0 with
      | .error e => (.error e, h.desc)
      | .ok (v, j) =>
        (.ok { finalStrat := rewardStrategies rnd g.owners nodes v.er, reachStrat := ro.strat,
               rewards := v.er, probs := ro.probs, itReach := ro.iters, itRew := j,
               probMinRew := v.pmr, rewMinReach := v.ermr, nodes := nodes }, h.desc)

/-- `solveHS` as an `Except` value: the result together with the caller's lists afterwards -/
def solveH (rnd : α → Int) (thr : α) (fuel : Nat) (prune : Bool) (g : Game α) :
    Except Err (SolveOut α × Array (List (Tr α))) :=
  match solveHS rnd thr fuel prune g with
  | (.ok out, d) => .ok (out, d)
  | (.error e, _) => .error e

/-- a sequence of `solve()` calls on one and the same description object (each `Bool` is the
pruning mode of one call): every call sees the caller's lists AS LEFT BY THE PREVIOUS CALL — also
when that call ended with an exception — and the outcomes are collected in order -/
def runOps (rnd : α → Int) (thr : α) (fuel : Nat) (g : Game α) :
    List Bool → Array (List (Tr α)) → List (Except Err (SolveOut α))
  | [], _ => []
  | m :: ms, desc =>
    let r := solveHS rnd thr fuel m { g with tl := desc }
    r.1 :: runOps rnd thr fuel g ms r.2

/-! ### the older, defective code (before "pruning ... leaves the caller's lists alone")

`PlayerOne.prune_paths` and `ProbabilisticNode.prune_paths` called `self.remove_path(x)` for
every dead successor `x`; `remove_path` starts with `self.next_states.remove(x)` — an in-place
edit of whatever list object the attribute points to.  Simplified transcription: the in-place
edit removes all dead successors at once (the skipped-element behaviour of removing while
iterating is not modelled), and the probabilistic node then rebinds to the renormalised list as
`ProbabilisticNode.remove_path` did. -/

def prunePathsOldStep (owners : Array Owner) (reach : Array α) (h : HState α) (s : Nat) :
    HState α :=
  match owners.getD s .prob with
  | .p1 => h.mutate s (fun row => row.filter (fun t => !(reach.getD t.tgt 0 == 0)))
  | .prob =>
    let row := h.read s
    if row.any (fun t => reach.getD t.tgt 0 == 0) then
      let removed :=
        row.foldl (fun acc t => if reach.getD t.tgt 0 == 0 then acc + t.p else acc) (0 : α)
      let h1 := h.mutate s (fun row => row.filter (fun t => !(reach.getD t.tgt 0 == 0)))
      h1.rebind s ((h1.read s).map (fun t => { t with p := t.p / (1 - removed) }))
    else h
  | .p2 => h

def conditionH_old (prune : Bool) (g : Game α) (strat : Array Strat) (reach : Array α)
    (h : HState α) : Except Err (HState α) :=
  let h := pruneReachabilityH g.owners strat h
  if prune then
    let h := (List.range h.nodes.size).foldl (prunePathsOldStep g.owners reach) h
    (pruneStatesHS g.owners (g.owners.size + 2) [] h).toExcept
  else .ok h

end
end CR
