/-
Executable model of `roberta_generator.py` (working tree): the transition builders, the
assembly of games A, B and C, the parameter check, the percentage/file-name formatting and
the random board as a function of the *draws* of the `random` API.  Also the name assembly of
`stochastic_game_from_roborta_board.create_sg_from_board`.

Probabilities are polymorphic (`α`); board entries (arrows, rewards, loose flags) are naturals.
No Mathlib import.
-/
import CR.Model.Num
import CR.Model.Solver

namespace CR.Gen
open CR

/-- a board: rows of arrows (0 = left only, 1 = both, 2 = right only, 3 = down only),
rewards and loose-tile flags -/
structure Board where
  moves   : List (List Nat)
  rewards : List (List Nat)
  loose   : List (List Nat)
  deriving Repr, Inhabited, DecidableEq

def Board.mv (b : Board) (i j : Nat) : Nat := (b.moves.getD i []).getD j 0
def Board.rw (b : Board) (i j : Nat) : Nat := (b.rewards.getD i []).getD j 0
def Board.ls (b : Board) (i j : Nat) : Nat := (b.loose.getD i []).getD j 0

/-- `for i in range(length): for j in range(width): … append(f i j)` -/
def grid {β : Type} (L W : Nat) (f : Nat → Nat → β) : List β :=
  (List.range L).flatMap (fun i => (List.range W).map (fun j => f i j))

/-- same loop where an iteration may append nothing -/
def gridOpt {β : Type} (L W : Nat) (f : Nat → Nat → Option β) : List β :=
  (List.range L).flatMap (fun i => (List.range W).filterMap (fun j => f i j))

section
variable {α : Type} [Sub α] [OfNat α 0] [OfNat α 1]

def act (a : String) (t : Nat) : Tr α := { act := a, p := 0, tgt := t }
def pr (p : α) (t : Nat) : Tr α := { act := "", p := p, tgt := t }

/-- `player_two_transitions` -/
def playerTwo (L W : Nat) (b : Board) (offR offY : Nat) : List (List (Tr α)) :=
  grid L W (fun i j =>
    if b.mv i j = 3 then [act "Green" (offR + i * W + j)]
    else [act "Green" (offR + i * W + j), act "Yellow" (offY + i * W + j)])

/-- `player_one_down_transitions` (`winning = none` models `winning_state=None`) -/
def playerOneDown (L W : Nat) (off : Nat) (winning : Option Nat) : List (List (Tr α)) :=
  grid L W (fun i j =>
    match winning with
    | none => [act "Down" (off + i * W + j)]
    | some w => if i < L - 1 then [act "Down" (off + i * W + j + W)] else [act "Down" w])

/-- `player_one_left_right_transitions` -/
def playerOneLeftRight (L W : Nat) (b : Board) (offL offR : Nat) : List (List (Tr α)) :=
  gridOpt L W (fun i j =>
    let lr : Tr α × Tr α :=
      if offL ≠ offR then (act "Left" (offL + i * W + j), act "Right" (offR + i * W + j))
      else if j = 0 then (act "Left" (offL + i * W + W - 1), act "Right" (offR + i * W + (j + 1) % W))
      else if j = W - 1 then (act "Left" (offL + i * W + j - 1), act "Right" (offR + i * W))
      else (act "Left" (offL + i * W + j - 1), act "Right" (offR + i * W + j + 1))
    match b.mv i j with
    | 0 => some [lr.1]
    | 1 => some [lr.1, lr.2]
    | 2 => some [lr.2]
    | 3 => some [act "Etha" 0]
    | _ => none)

/-- `prob_tile_break_transitions` -/
def probTileBreak (L W : Nat) (p : α) (b : Board) (off lose : Nat) : List (List (Tr α)) :=
  grid L W (fun i j =>
    if b.ls i j = 1 then [pr p lose, pr (1 - p) (off + i * W + j)]
    else [pr 1 (off + i * W + j)])

/-- `prob_robot_down_break_transitions` -/
def probRobotDownBreak (L W : Nat) (p : α) (off win : Nat) : List (List (Tr α)) :=
  grid L W (fun i j =>
    [pr p (off + i * W + j),
     if i < L - 1 then pr (1 - p) (off + i * W + j + W) else pr (1 - p) win])

/-- `prob_robot_left_break_transitions` -/
def probRobotLeftBreak (L W : Nat) (p : α) (off : Nat) : List (List (Tr α)) :=
  grid L W (fun i j =>
    [pr p (off + i * W + j),
     if j = 0 then pr (1 - p) (off + i * W + W - 1) else pr (1 - p) (off + i * W + j - 1)])

/-- `prob_robot_right_break_transitions` -/
def probRobotRightBreak (L W : Nat) (p : α) (off : Nat) : List (List (Tr α)) :=
  grid L W (fun i j =>
    [pr p (off + i * W + j),
     if j = W - 1 then pr (1 - p) (off + i * W) else pr (1 - p) (off + i * W + j + 1)])

/-- `player_one_down_left_right_transitions` -/
def playerOneDownLeftRight (L W : Nat) (b : Board) (offD offL offR : Nat) : List (List (Tr α)) :=
  gridOpt L W (fun i j =>
    let d : Tr α := act "Down" (offD + i * W + j)
    let l : Tr α := act "Left" (offL + i * W + j)
    let r : Tr α := act "Right" (offR + i * W + j)
    match b.mv i j with
    | 0 => some [d, l]
    | 1 => some [d, l, r]
    | 2 => some [d, r]
    | 3 => some [d]
    | _ => none)

/-- `prob_light_break_transitions` -/
def probLightBreak (L W : Nat) (p : α) (offOk offBreak : Nat) : List (List (Tr α)) :=
  grid L W (fun i j => [pr p (offBreak + i * W + j), pr (1 - p) (offOk + i * W + j)])

/-- what each `write_robot_*` assembles into its `game` dict -/
structure GenGame (α : Type) where
  rewards : List Nat
  owners  : List Owner
  tl      : List (List (Tr α))
  finals  : List Nat

def flatRewards (b : Board) : List Nat := b.rewards.flatMap id

/-- `write_robot_A` -/
def gameA (L W : Nat) (b : Board) (pTile : α) : GenGame α :=
  let n := L * W
  let lose := n * 4
  let win := n * 4 + 1
  { rewards := flatRewards b ++ List.replicate (n * 3) 0 ++ [0, 0]
    owners := List.replicate n .p2 ++ List.replicate (n * 2) .p1 ++ List.replicate (n * 1) .prob
                ++ [.prob, .prob]
    tl := playerTwo L W b (1 * n) (2 * n)
          ++ playerOneDown L W (3 * n) (some win)
          ++ playerOneLeftRight L W b (3 * n) (3 * n)
          ++ probTileBreak L W pTile b 0 lose
          ++ [[pr 1 lose], [pr 1 win]]
    finals := [win] }

/-- `write_robot_B` -/
def gameB (L W : Nat) (b : Board) (pTile pRobot : α) : GenGame α :=
  let n := L * W
  let lose := n * 7
  let win := n * 7 + 1
  { rewards := flatRewards b ++ List.replicate (n * 6) 0 ++ [0, 0]
    owners := List.replicate n .p2 ++ List.replicate (n * 2) .p1 ++ List.replicate (n * 4) .prob
                ++ [.prob, .prob]
    tl := playerTwo L W b (1 * n) (2 * n)
          ++ playerOneDown L W (4 * n) none
          ++ playerOneLeftRight L W b (5 * n) (6 * n)
          ++ probTileBreak L W pTile b 0 lose
          ++ probRobotDownBreak L W pRobot (3 * n) win
          ++ probRobotLeftBreak L W pRobot (3 * n)
          ++ probRobotRightBreak L W pRobot (3 * n)
          ++ [[pr 1 lose], [pr 1 win]]
    finals := [win] }

/-- `write_robot_C` -/
def gameC (L W : Nat) (b : Board) (pTile pRobot pLight : α) : GenGame α :=
  let n := L * W
  let lose := n * 10
  let win := n * 10 + 1
  { rewards := flatRewards b ++ List.replicate (n * 9) 0 ++ [0, 0]
    owners := List.replicate n .p2 ++ List.replicate (n * 3) .p1 ++ List.replicate (n * 6) .prob
                ++ [.prob, .prob]
    tl := playerTwo L W b (8 * n) (9 * n)
          ++ playerOneDown L W (5 * n) none
          ++ playerOneLeftRight L W b (6 * n) (7 * n)
          ++ playerOneDownLeftRight L W b (5 * n) (6 * n) (7 * n)
          ++ probTileBreak L W pTile b 0 lose
          ++ probRobotDownBreak L W pRobot (4 * n) win
          ++ probRobotLeftBreak L W pRobot (4 * n)
          ++ probRobotRightBreak L W pRobot (4 * n)
          ++ probLightBreak L W pLight (1 * n) (3 * n)
          ++ probLightBreak L W pLight (2 * n) (3 * n)
          ++ [[pr 1 lose], [pr 1 win]]
    finals := [win] }

end

/-- into the solver's game type -/
def GenGame.toGame {α : Type} (ofNat : Nat → α) (g : GenGame α) : Game α :=
  { rewards := (g.rewards.map ofNat).toArray, owners := g.owners.toArray, tl := g.tl.toArray,
    finals := g.finals }

/-! ### parameter check, percentages, file names -/

/-- `check_input`: index (0-based) of the first failing check, `none` when accepted.
Comparisons on probabilities are IEEE comparisons (NaN passes every check, as in Python). -/
def checkInput (seed width length : Int) (pRobot pLight pLoose pTile : Float) (maxReward : Int) :
    Option Nat :=
  if seed < 0 then some 0
  else if width ≤ 0 then some 1
  else if length ≤ 0 then some 2
  else if pRobot ≤ 0 || pRobot ≥ 1 then some 3
  else if pLight ≤ 0 || pLight ≥ 1 then some 4
  else if pLoose ≤ 0 || pLoose ≥ 1 then some 5
  else if pTile ≤ 0 || pTile ≥ 1 then some 6
  else if maxReward ≤ 0 then some 7
  else none

/-- Python `round(x)` for a finite double `0 ≤ x < 2^63`: nearest integer, ties to even.
Written with kernel-reducible `Float` operations only (`toUInt64` truncates; the subtraction
is exact). -/
def pyRoundNonneg (x : Float) : Nat :=
  let t := x.toUInt64
  let frac := x - t.toFloat
  if frac > 0.5 then t.toNat + 1
  else if frac < 0.5 then t.toNat
  else if t.toNat % 2 = 0 then t.toNat else t.toNat + 1

/-- `prob_to_str`: `str(round(prob*100))` (domain: 0 ≤ prob, finite) -/
def probToNat (p : Float) : Nat := pyRoundNonneg (p * 100)
def probToStr (p : Float) : String := toString (probToNat p)

/-- the path assembled by `main` -/
def fileName (seed width length maxReward : Nat) (pRobot pLight pTile pLoose : Float)
    (forceDown : Bool) : String :=
  "inputs/robot_" ++ toString seed ++ "_" ++ "w" ++ toString width ++ "_" ++ "l" ++ toString length
    ++ "_" ++ "r" ++ toString maxReward ++ "_" ++ "rb" ++ probToStr pRobot ++ "_" ++ "lb"
    ++ probToStr pLight ++ "_" ++ "tb" ++ probToStr pTile ++ "_" ++ "lt" ++ probToStr pLoose
    ++ (if forceDown then "_force_down" else "") ++ ".py"

/-- the same with the percentages already rendered as naturals (used by the injectivity
theorem) -/
def fileNameN (seed width length maxReward rb lb tb lt : Nat) (forceDown : Bool) : String :=
  "inputs/robot_" ++ toString seed ++ "_" ++ "w" ++ toString width ++ "_" ++ "l" ++ toString length
    ++ "_" ++ "r" ++ toString maxReward ++ "_" ++ "rb" ++ toString rb ++ "_" ++ "lb"
    ++ toString lb ++ "_" ++ "tb" ++ toString tb ++ "_" ++ "lt" ++ toString lt
    ++ (if forceDown then "_force_down" else "") ++ ".py"

/-- the path assembled by `create_sg_from_board` (manual entry point) -/
def manualFileName (b : Board) (pRobot pLight pTile : Float) : String :=
  let width := (b.moves.getD 0 []).length
  let length := b.moves.length
  let maxOf (m : List (List Nat)) : Nat := (m.map (fun r => r.foldl max 0)).foldl max 0
  let forceDown := maxOf b.moves + 1 = 4
  "inputs/manual_robot" ++ "_" ++ "w" ++ toString width ++ "_" ++ "l" ++ toString length ++ "_"
    ++ "r" ++ toString (maxOf b.rewards) ++ "_" ++ "rb" ++ probToStr pRobot ++ "_" ++ "lb"
    ++ probToStr pLight ++ "_" ++ "tb" ++ probToStr pTile ++ "_"
    ++ (if forceDown then "force_down" else "") ++ ".py"

/-! ### the random board as a function of the draws -/

/-- results of the `random` API calls, in call order:
`us` = the `random.random()` results (two per tile: reward draw, loose draw),
`rows` = the `random.choices(..., k=width)` result per row,
`downs` = the `random.randrange(0, width)` result per row (force-down only). -/
structure Draws where
  us    : List Float
  rows  : List (List Nat)
  downs : List Nat

/-- `2.0**-min(max_reward+1, 1074)`: the probability of the largest reward.  Powers of two down to the smallest
subnormal double; written with exact divisions (`2^k` itself is not a double beyond `k = 1023`). -/
def smallestProb (maxReward : Nat) : Float :=
  let k := min (maxReward + 1) 1074
  if k ≤ 1023 then 1.0 / Float.ofNat (2 ^ k)
  else (1.0 / Float.ofNat (2 ^ 1023)) / Float.ofNat (2 ^ (k - 1023))

/-- the reward formula; `math.floor(-math.log(a + u (1-a))/math.log(2.0))`, clamped -/
def rewardOf (maxReward : Nat) (u : Float) : Nat :=
  let a : Float := smallestProb maxReward
  let v := Float.floor (-(Float.log (a + u * (1.0 - a))) / Float.log 2.0)
  min maxReward v.toUInt64.toNat

def looseOf (pLoose : Float) (u : Float) : Nat := if u < pLoose then 1 else 0

/-- `gen_rnd_board` (after `random.seed(seed)`) -/
def genBoard (length width : Nat) (pLoose : Float) (maxReward : Nat) (forceDown : Bool)
    (d : Draws) : Board :=
  let u (k : Nat) : Float := d.us.getD k 0
  { rewards := (List.range length).map (fun i => (List.range width).map (fun j =>
      rewardOf maxReward (u (2 * (i * width + j)))))
    loose := (List.range length).map (fun i => (List.range width).map (fun j =>
      looseOf pLoose (u (2 * (i * width + j) + 1))))
    moves := (List.range length).map (fun i =>
      let row := d.rows.getD i []
      if forceDown then row.set (d.downs.getD i 0) 3 else row) }

/-! ### `main` as a trace of externally visible effects -/

inductive Effect where
  | raiseValueError (check : Nat)     -- `check_input` refused: index of the failing check
  | seedRng (seed : Int)              -- `random.seed(seed)`
  | drawBoard                         -- all `random.*` calls of `gen_rnd_board`
  | openWrite (path : String)         -- `open(file_name, "w")` and the writes
  deriving Repr, DecidableEq

/-- `roberta_generator.main()` after argument parsing -/
def mainEffects (seed width length : Int) (pRobot pLight pLoose pTile : Float) (maxReward : Int)
    (forceDown : Bool) : List Effect :=
  match checkInput seed width length pRobot pLight pLoose pTile maxReward with
  | some k => [.raiseValueError k]
  | none =>
    [.seedRng seed, .drawBoard,
     .openWrite (fileName seed.toNat width.toNat length.toNat maxReward.toNat pRobot pLight pTile pLoose
       forceDown)]

end CR.Gen
