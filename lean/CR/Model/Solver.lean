/-
Executable model of `tad.py` (class `StochasticGame`, the three node kinds, class `Solver`)
as it stands in the repository's working tree, polymorphic in the number type.

Conventions
* a transition is `Tr α` = (action name, probability, target); player states use `act`,
  probabilistic states use `p`;
* per-state mutable Python attributes are arrays indexed by state;
* Python exceptions are values of `Err`;
* `while diff > threshold` loops take a fuel argument; `Err.outOfFuel` is a distinct outcome.
No Mathlib import (this file is compiled into the driver).
-/
import CR.Model.Num
import CR.Model.Rdfs

namespace CR

inductive Owner where
  | prob | p1 | p2
  deriving DecidableEq, Repr, Inhabited

structure Tr (α : Type) where
  act : String
  p   : α
  tgt : Nat
  deriving Repr, Inhabited

structure Game (α : Type) where
  rewards : Array α
  owners  : Array Owner
  tl      : Array (List (Tr α))
  finals  : List Nat
  deriving Inhabited

inductive Err where
  | noSolution                 -- ValueError("The game has no solution ...")
  | malformed (rule : String)  -- every other ValueError raised by validation
  | outOfFuel                  -- a `while diff > threshold` loop did not exit within the fuel
  | unbound                    -- UnboundLocalError (`max_next_state` never assigned)
  | zeroDiv                    -- ZeroDivisionError in the renormalisation
  deriving DecidableEq, Repr, Inhabited

abbrev Strat := Option (List String)

section
variable {α : Type} [Add α] [Sub α] [Mul α] [Div α] [Neg α] [LT α] [DecidableLT α]
  [LE α] [DecidableLE α] [BEq α] [OfNat α 0] [OfNat α 1]

/-! ### `StochasticGame.check_game`, `init_states`, `Node.check_next_states` (typed part) -/

/-- Python `min(xs) < 0`; `none` when `xs` is empty (`ValueError`). -/
def anyNeg (xs : Array α) : Option Bool :=
  if xs.size = 0 then none else some (xs.any (fun x => x < 0))

def checkGame (g : Game α) : Except Err Unit := do
  let n := g.owners.size
  if g.tl.size ≠ n then throw (.malformed "transition list length")
  if g.rewards.size ≠ n then throw (.malformed "reward list length")
  match anyNeg g.rewards with
  | none => throw (.malformed "min of empty rewards")
  | some true => throw (.malformed "negative reward")
  | some false => pure ()
  if g.finals.isEmpty then throw (.malformed "max of empty final states")
  -- `max(final) >= n or min(final) < 0`; indices are naturals here, the sign check is in the
  -- PyVal-level validator (`CR.Model.Validate`)
  if g.finals.any (fun f => f ≥ n) then throw (.malformed "final state out of range")
  pure ()

/-- `init_states`: every state needs a non-empty transition list; targets in range
(`Node.check_next_states`, typed part). -/
def initStates (g : Game α) : Except Err Unit := do
  let n := g.owners.size
  for row in g.tl do
    if row.any (fun t => t.tgt ≥ n) then throw (.malformed "next state out of range")
  if g.tl.any (fun row => row.isEmpty) then throw (.malformed "missing transitions")
  pure ()

/-! ### Bellman steps for reachability (`*.value_iteration_reach`) -/

def stepReach (owners : Array Owner) (nodes : Array (List (Tr α))) (reach : Array α) (s : Nat) : α :=
  let row := nodes.getD s []
  match owners.getD s .prob with
  | .p1 => row.foldl (fun m t => let x := reach.getD t.tgt 0; if x > m then x else m) 0
  | .p2 => row.foldl (fun m t => let x := reach.getD t.tgt 0; if x < m then x else m) 1
  | .prob => row.foldl (fun v t => v + reach.getD t.tgt 0 * t.p) 0

/-- one pass of the `for state_idx in states_reaching_final` loop: Gauss–Seidel, in place -/
def sweepReach (owners : Array Owner) (nodes : Array (List (Tr α))) (ord : List Nat)
    (reach : Array α) : Array α × α :=
  ord.foldl (fun (acc : Array α × α) s =>
    let nx := stepReach owners nodes acc.1 s
    let d := absv (nx - acc.1.getD s 0)
    (acc.1.setIfInBounds s nx, if d > acc.2 then d else acc.2)) (reach, 0)

/-- `while diff > threshold:` of `value_iteration_reachability`; returns probabilities and `i` -/
def viReach (owners : Array Owner) (nodes : Array (List (Tr α))) (ord : List Nat) (thr : α) :
    Nat → α → Array α → Nat → Except Err (Array α × Nat)
  | 0, diff, reach, i => if diff > thr then .error .outOfFuel else .ok (reach, i)
  | fuel + 1, diff, reach, i =>
    if diff > thr then
      let r := sweepReach owners nodes ord reach
      viReach owners nodes ord thr fuel r.2 r.1 (i + 1)
    else .ok (reach, i)

/-! ### strategies for reachability -/

/-- `PlayerOne.get_best_strategies_reachability` (also `..._total_rewards`): argmax list of the
rounded value, starting from 0 -/
def bestStrat (rnd : α → Int) (vals : Array α) (row : List (Tr α)) : List String :=
  (row.foldl (fun (acc : Int × List String) t =>
    let v := rnd (vals.getD t.tgt 0)
    if v > acc.1 then (v, [t.act]) else if v == acc.1 then (acc.1, acc.2 ++ [t.act]) else acc)
    (0, [])).2

/-- `PlayerTwo.get_worst_strategies_reachability`: argmin list of the rounded value, starting
from `one` (the rounded value of the literal 1) -/
def worstStratFrom (rnd : α → Int) (start : Int) (vals : Array α) (row : List (Tr α)) : List String :=
  (row.foldl (fun (acc : Int × List String) t =>
    let v := rnd (vals.getD t.tgt 0)
    if v < acc.1 then (v, [t.act]) else if v == acc.1 then (acc.1, acc.2 ++ [t.act]) else acc)
    (start, [])).2

/-- `PlayerTwo.get_worst_strategies_total_rewards`: starts from the first successor's value -/
def worstStratRew (rnd : α → Int) (vals : Array α) (row : List (Tr α)) : List String :=
  match row with
  | [] => []
  | t :: _ => worstStratFrom rnd (rnd (vals.getD t.tgt 0)) vals row

def reachStrategies (rnd : α → Int) (owners : Array Owner) (nodes : Array (List (Tr α)))
    (reach : Array α) : Array Strat :=
  (Array.range owners.size).map (fun s =>
    match owners.getD s .prob with
    | .p1 => some (bestStrat rnd reach (nodes.getD s []))
    | .p2 => some (worstStratFrom rnd (rnd 1) reach (nodes.getD s []))
    | .prob => none)

/-! ### conditioning: `prune_reachability`, `prune_paths`, `prune_states` -/

/-- `Solver.prune_reachability`: Player 1 keeps the actions named in its strategy -/
def pruneReachability (owners : Array Owner) (strat : Array Strat) (nodes : Array (List (Tr α))) :
    Array (List (Tr α)) :=
  nodes.mapIdx (fun s row =>
    match owners.getD s .prob with
    | .p1 => row.filter (fun t => (strat.getD s none).getD [] |>.contains t.act)
    | _ => row)

/-- `ProbabilisticNode.prune_paths`: the successors with non-zero reach probability are kept; if
any was removed, each surviving probability is divided by the sum of the surviving probabilities
(`sum(...)`: starts from 0, adds left to right).  Dividing by a zero total raises
`ZeroDivisionError`; with no survivor nothing is divided. -/
def prunePathsProb (reach : Array α) (row : List (Tr α)) : Except Err (List (Tr α)) :=
  let kept := row.filter (fun t => !(reach.getD t.tgt 0 == 0))
  if kept.length ≠ row.length then
    let total := kept.foldl (fun acc t => acc + t.p) (0 : α)
    if !kept.isEmpty && (total == 0) then .error .zeroDiv
    else .ok (kept.map (fun t => { t with p := t.p / total }))
  else .ok row

/-- `PlayerOne.prune_paths` -/
def prunePathsP1 (reach : Array α) (row : List (Tr α)) : List (Tr α) :=
  row.filter (fun t => !(reach.getD t.tgt 0 == 0))

/-- `Solver.prune_paths` -/
def prunePaths (owners : Array Owner) (reach : Array α) (nodes : Array (List (Tr α))) :
    Except Err (Array (List (Tr α))) :=
  (Array.range nodes.size).mapM (fun s =>
    let row := nodes.getD s []
    match owners.getD s .prob with
    | .p1 => .ok (prunePathsP1 reach row)
    | .prob => prunePathsProb reach row
    | .p2 => .ok row)

/-- one round of the `while not finished` loop of `Solver.prune_states`: returns the new node
lists and the list of states found not reachable in this round -/
def pruneStatesRound (owners : Array Owner) (nodes : Array (List (Tr α))) :
    Array (List (Tr α)) × List Nat :=
  let targets : List Nat := 0 :: (nodes.toList.flatMap (fun row => row.map (·.tgt)))
  let idxs := List.range nodes.size
  let isCleared (s : Nat) : Bool := (owners.getD s .prob != .p1) && !(targets.contains s)
  let isDeadP1 (s : Nat) : Bool :=
    (owners.getD s .prob == .p1) && (nodes.getD s []).isEmpty && !(targets.contains s)
  let nodes' := nodes.mapIdx (fun s row => if isCleared s then [] else row)
  (nodes', idxs.filter (fun s => isCleared s || isDeadP1 s))

/-- set equality of two index lists (`set(a) == set(b)`) -/
def sameSet (a b : List Nat) : Bool := a.all (b.contains ·) && b.all (a.contains ·)

def pruneStates (owners : Array Owner) :
    Nat → List Nat → Array (List (Tr α)) → Except Err (Array (List (Tr α)))
  | 0, _, _ => .error .outOfFuel
  | fuel + 1, prev, nodes =>
    let r := pruneStatesRound owners nodes
    if sameSet r.2 prev then .ok r.1 else pruneStates owners fuel r.2 r.1

/-! ### Bellman steps for total rewards (`*.value_iteration_rewards`) -/

structure RewVecs (α : Type) where
  er   : Array α      -- expected_rewards
  ermr : Array α      -- expected_rewards_min_reach     ("rewards under minimal reachability")
  pmr  : Array α      -- expected_reach_min_rewards     ("probabilities under minimal reward")

/-- `PlayerTwo._expected_rewards_min_reach` -/
def p2RewMinReach (reward : α) (ermr : Array α) (row : List (Tr α)) (strat : List String) : α :=
  match row.filter (fun t => strat.contains t.act) with
  | [] => 0     -- `if not strategies: return 0` (and the unreachable IndexError case)
  | t0 :: rest =>
    let m := (t0 :: rest).foldl (fun m t => let x := ermr.getD t.tgt 0; if x < m then x else m)
      (ermr.getD t0.tgt 0)
    m + reward

/-- returns the three next values of state `s`, or `unbound` -/
def stepRew (rnd6 : α → Int) (owners : Array Owner) (rewards : Array α)
    (nodes : Array (List (Tr α))) (reach : Array α) (v : RewVecs α) (s : Nat) :
    Except Err (α × α × α) :=
  let row := nodes.getD s []
  let r := rewards.getD s 0
  if row.isEmpty then .ok (0, 0, 0) else
  match owners.getD s .prob with
  | .prob =>
    .ok (row.foldl (fun acc t => acc + v.er.getD t.tgt 0 * t.p) r,
         row.foldl (fun acc t => acc + v.ermr.getD t.tgt 0 * t.p) r,
         row.foldl (fun acc t => acc + v.pmr.getD t.tgt 0 * t.p) 0)
  | .p1 =>
    let sel := row.foldl (fun (acc : α × Option (Tr α)) t =>
      let x := v.er.getD t.tgt 0
      if x ≥ acc.1 then (x, some t) else acc) (0, none)
    match sel.2 with
    | none => .error .unbound
    | some t => .ok (sel.1 + r, v.ermr.getD t.tgt 0 + r, v.pmr.getD t.tgt 0)
  | .p2 =>
    let strat := worstStratFrom rnd6 (rnd6 1) reach row
    let emr := p2RewMinReach r v.ermr row strat
    match row with
    | [] => .ok (0, 0, 0)
    | t0 :: _ =>
      let sel := row.foldl (fun (acc : α × Tr α) t =>
        let x := v.er.getD t.tgt 0
        if x ≤ acc.1 then (x, t) else acc) (v.er.getD t0.tgt 0, t0)
      .ok (sel.1 + r, emr, v.pmr.getD sel.2.tgt 0)

def max3 (a b c : α) : α :=
  -- Python `max(a, b, c)`: first maximal element
  let m := if b > a then b else a
  if c > m then c else m

def sweepRew (rnd6 : α → Int) (owners : Array Owner) (rewards : Array α)
    (nodes : Array (List (Tr α))) (reach : Array α) (v : RewVecs α) :
    Except Err (RewVecs α × α) :=
  (List.range owners.size).foldlM (fun (acc : RewVecs α × α) s => do
    let (e, m, p) ← stepRew rnd6 owners rewards nodes reach acc.1 s
    let d := max3 (absv (e - acc.1.er.getD s 0)) (absv (m - acc.1.ermr.getD s 0))
      (absv (p - acc.1.pmr.getD s 0))
    pure ({ er := acc.1.er.setIfInBounds s e, ermr := acc.1.ermr.setIfInBounds s m,
            pmr := acc.1.pmr.setIfInBounds s p }, if d > acc.2 then d else acc.2)) (v, 0)

def viRew (rnd6 : α → Int) (owners : Array Owner) (rewards : Array α)
    (nodes : Array (List (Tr α))) (reach : Array α) (thr : α) :
    Nat → α → RewVecs α → Nat → Except Err (RewVecs α × Nat)
  | 0, diff, v, i => if diff > thr then .error .outOfFuel else .ok (v, i)
  | fuel + 1, diff, v, i =>
    if diff > thr then do
      let r ← sweepRew rnd6 owners rewards nodes reach v
      viRew rnd6 owners rewards nodes reach thr fuel r.2 r.1 (i + 1)
    else .ok (v, i)

def rewardStrategies (rnd : α → Int) (owners : Array Owner) (nodes : Array (List (Tr α)))
    (er : Array α) : Array Strat :=
  (Array.range owners.size).map (fun s =>
    match owners.getD s .prob with
    | .p1 => some (bestStrat rnd er (nodes.getD s []))
    | .p2 => some (worstStratRew rnd er (nodes.getD s []))
    | .prob => none)

/-! ### the pipeline -/

structure ReachOut (α : Type) where
  probs  : Array α
  strat  : Array Strat
  iters  : Nat
  order  : List Nat        -- states_reaching_final

structure SolveOut (α : Type) where
  finalStrat  : Array Strat
  reachStrat  : Array Strat
  rewards     : Array α
  probs       : Array α
  itReach     : Nat
  itRew       : Nat
  probMinRew  : Array α
  rewMinReach : Array α
  nodes       : Array (List (Tr α))   -- the conditioned transition lists (before the reward phase)

/-- `Solver.solve_reachability` after `check_game`/`init_states` -/
def solveReach (rnd : α → Int) (thr : α) (fuel : Nat) (prune : Bool) (g : Game α) :
    Except Err (ReachOut α) := do
  checkGame g
  initStates g
  let n := g.owners.size
  let reach0 : Array α := (Array.range n).map (fun s => if g.finals.contains s then 1 else 0)
  let ord := reverseDfs (g.tl.toList.map (fun row => row.map (·.tgt))) g.finals
  let (reach, i) ← viReach g.owners g.tl ord thr fuel 1 reach0 0
  if prune && (reach.getD 0 0 == 0) then throw .noSolution
  pure { probs := reach, strat := reachStrategies rnd g.owners g.tl reach, iters := i, order := ord }

/-- conditioning as `StochasticGame.solve` performs it -/
def condition (prune : Bool) (g : Game α) (strat : Array Strat) (reach : Array α) :
    Except Err (Array (List (Tr α))) := do
  let nodes := pruneReachability g.owners strat g.tl
  if prune then
    let nodes ← prunePaths g.owners reach nodes
    pruneStates g.owners (g.owners.size + 2) [] nodes
  else pure nodes

/-- `StochasticGame.solve` -/
def solve (rnd : α → Int) (thr : α) (fuel : Nat) (prune : Bool) (g : Game α) :
    Except Err (SolveOut α) := do
  let ro ← solveReach rnd thr fuel prune g
  let nodes ← condition prune g ro.strat ro.probs
  let v0 : RewVecs α := { er := g.rewards, ermr := g.rewards, pmr := ro.probs }
  let (v, j) ← viRew rnd g.owners g.rewards nodes ro.probs thr fuel 1 v0 0
  pure { finalStrat := rewardStrategies rnd g.owners nodes v.er, reachStrat := ro.strat,
         rewards := v.er, probs := ro.probs, itReach := ro.iters, itRew := j,
         probMinRew := v.pmr, rewMinReach := v.ermr, nodes := nodes }

end
end CR
