/-
Executable model of `conditionalrewards.run_games` (working tree): per game a pruned and an
unpruned solve on deep copies, `except ValueError` turned into a message, the
`prev_game_had_solution` flag, and Python-dict semantics of the result (`d[k] = v` overwrites
in place, otherwise appends).  No Mathlib import.
-/
import CR.Model.Validate

namespace CR.Batch
open CR CR.Py

inductive Msg where
  | solved                -- "Game solved"
  | error (e : Err)       -- "Error while solving the game: …"
  | notSolved             -- "Game not solved"
  deriving Inhabited

structure Entry where
  nStates      : Nat
  nTransitions : Nat
  msg          : Msg
  out          : Option (SolveOut Float)    -- `none`: the defaults (None / 0) are reported
  deriving Inhabited

/-- `d[k] = v` on an insertion-ordered dict -/
def dictSet {β : Type} (d : List (String × β)) (k : String) (v : β) : List (String × β) :=
  if d.any (fun kv => kv.1 == k) then d.map (fun kv => if kv.1 == k then (k, v) else kv)
  else d ++ [(k, v)]

/-- is this model error a Python `ValueError` (the only class `run_games` catches)? -/
def isValueError : Err → Bool
  | .noSolution | .malformed _ => true
  | _ => false

/-- the two runs of one game; returns the pruned and the unpruned entry.  Errors that are not
`ValueError`s (and a loop that does not exit) are not caught by `run_games`: they abort the
whole batch, which is the `.error` outcome here. -/
def runOne (thr : Float) (fuel : Nat) (g : PyGame) : Except Err (Entry × Entry) :=
  let base (m : Msg) (o : Option (SolveOut Float)) : Entry :=
    { nStates := g.players.length, nTransitions := countTransitions g, msg := m, out := o }
  match solvePy thr fuel true g with
  | .ok r =>
    match solvePy thr fuel false g with
    | .ok r' => .ok (base .solved (some r), base .solved (some r'))
    | .error e => if isValueError e then .ok (base .solved (some r), base (.error e) none) else .error e
  | .error e =>
    if isValueError e then .ok (base (.error e) none, base .notSolved none) else .error e

/-- `run_games` on the (insertion-ordered, distinct-keyed) input dict -/
def runGames (thr : Float) (fuel : Nat) (games : List (String × PyGame)) :
    Except Err (List (String × Entry)) :=
  games.foldlM (fun d (name, g) => do
    let (e1, e2) ← runOne thr fuel g
    pure (dictSet (dictSet d name e1) (name ++ "_no_prune") e2)) []

end CR.Batch
