/-
Executable model of the validation that `StochasticGame.solve` performs on a *dynamically
typed* game description (`check_game`, `init_states`, `Node.check_next_states`), and of the
conversion of an accepted description into the typed `Game` the solver model works on.

Domain (stated in the theorems of C09): `rewards` is a list of numbers, `players` a list of
strings, `final_states` a list of ints, `transition_list` a list of ARBITRARY Python values.
No Mathlib import.
-/
import CR.Model.Solver

namespace CR.Py
open CR

/-- Python values that can occur in a transition list.  Floats are IEEE doubles. -/
inductive PyVal where
  | none
  | bool (b : Bool)
  | int (i : Int)
  | float (x : Float)
  | str (s : String)
  | tuple (xs : List PyVal)
  | list (xs : List PyVal)
  | dict (n : Nat)            -- a dict with n items (contents never inspected by the code)
  deriving Inhabited

/-- numbers (`rewards`): int, bool or float -/
inductive PyNum where
  | int (i : Int)
  | float (x : Float)
  deriving Inhabited

structure PyGame where
  rewards : List PyNum
  players : List String
  tl      : List PyVal
  finals  : List Int
  deriving Inhabited

/-- Python truthiness (`if transitions:`) -/
def truthy : PyVal → Bool
  | .none => false
  | .bool b => b
  | .int i => i != 0
  | .float x => !(x == 0)
  | .str s => !s.isEmpty
  | .tuple xs => !xs.isEmpty
  | .list xs => !xs.isEmpty
  | .dict n => n != 0

def isStr : PyVal → Bool
  | .str _ => true
  | _ => false

/-- `isinstance(x, (int, float))` — `bool` is a subclass of `int` -/
def isNumber : PyVal → Bool
  | .int _ | .float _ | .bool _ => true
  | _ => false

/-- `isinstance(x, int)` with its value -/
def asInt : PyVal → Option Int
  | .int i => some i
  | .bool b => some (if b then 1 else 0)
  | _ => Option.none

def PyNum.isNeg : PyNum → Bool
  | .int i => i < 0
  | .float x => x < 0

def PyNum.toFloat : PyNum → Float
  | .int i => Float.ofInt i
  | .float x => x

def playerOf (s : String) : Option Owner :=
  if s = "Player 1" then some .p1 else if s = "Player 2" then some .p2
  else if s = "Probabilistic" then some .prob else Option.none

/-- `Node.check_next_states` for one state -/
def checkNextStates (n : Nat) (owner : Owner) (v : PyVal) : Except Err Unit :=
  match v with
  | .list xs =>
    xs.forM (fun e =>
      match e with
      | .tuple [a, b] => do
        match owner with
        | .prob => if !isNumber a then throw (.malformed "probability must be a number")
        | _ => if !isStr a then throw (.malformed "action must be a str")
        match asInt b with
        | Option.none => throw (.malformed "next state must be an int")
        | some i => if i < 0 || i ≥ (n : Int) then throw (.malformed "next state out of range")
      | .tuple _ => throw (.malformed "tuples of length 2")
      | _ => throw (.malformed "list of tuples"))
  | _ => throw (.malformed "next states must be a list")

/-- `check_game` followed by `init_states`, in the code's order of checks -/
def validate (g : PyGame) : Except Err Unit := do
  let n := g.players.length
  if g.tl.length ≠ n then throw (.malformed "transition list length")
  if g.rewards.length ≠ n then throw (.malformed "reward list length")
  if g.rewards.isEmpty then throw (.malformed "min of empty rewards")
  if g.rewards.any PyNum.isNeg then throw (.malformed "negative reward")
  if g.finals.isEmpty then throw (.malformed "max of empty final states")
  if g.finals.any (fun f => f ≥ (n : Int) || f < 0) then throw (.malformed "final state out of range")
  if g.players.any (fun p => (playerOf p).isNone) then throw (.malformed "unknown player")
  -- init_states: nodes are built (and checked) in state order for truthy entries only
  (g.players.zip g.tl).forM (fun (p, v) =>
    if truthy v then checkNextStates n ((playerOf p).getD .prob) v else pure ())
  if g.tl.any (fun v => !truthy v) then throw (.malformed "missing transitions")

/-- numeric value of a probability slot -/
def probOf : PyVal → Float
  | .int i => Float.ofInt i
  | .bool b => if b then 1 else 0
  | .float x => x
  | _ => 0

def trOf (owner : Owner) : PyVal → Tr Float
  | .tuple [a, b] =>
    let t := ((asInt b).getD 0).toNat
    match owner, a with
    | .prob, _ => { act := "", p := probOf a, tgt := t }
    | _, .str s => { act := s, p := 0, tgt := t }
    | _, _ => { act := "", p := 0, tgt := t }
  | _ => default

def rowOf (owner : Owner) : PyVal → List (Tr Float)
  | .list xs => xs.map (trOf owner)
  | _ => []

/-- the typed game denoted by an accepted description -/
def toGame (g : PyGame) : Game Float :=
  let owners := g.players.map (fun p => (playerOf p).getD .prob)
  { rewards := (g.rewards.map PyNum.toFloat).toArray
    owners := owners.toArray
    tl := ((owners.zip g.tl).map (fun (o, v) => rowOf o v)).toArray
    finals := g.finals.map Int.toNat }

/-- `StochasticGame(**game).solve()` on a dynamically typed description: no result unless the
validation succeeded -/
def solvePy (thr : Float) (fuel : Nat) (prune : Bool) (g : PyGame) : Except Err (SolveOut Float) := do
  validate g
  solve (roundFloat 6) thr fuel prune (toGame g)

/-- `count_transitions` (after the `isinstance(..., (list, tuple))` guard) -/
def countTransitions (g : PyGame) : Nat :=
  (g.tl.map (fun v => match v with
    | .list xs => xs.length
    | .tuple xs => xs.length
    | _ => 0)).sum

end CR.Py
