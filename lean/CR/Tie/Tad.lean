/-
Tie theorems for the node classes of `tad.py`: the mechanical translation of each method
(CR/Extracted/Tad.lean, regenerated from /repo on every run) equals the hand-written model
(CR/Model/Solver.lean, at `α := Float`) on every argument.
-/
import CR.Tie.Basic
import CR.Extracted.Tad
import Mathlib.Tactic.SplitIfs

namespace CR.Tie
open CR

/-- a model vector as the code sees it -/
theorem idx_arr (v : Array Float) (n : Nat) : Py.idx v.toList (n : Int) = v.getD n 0 := by
  rw [idx_nat]
  show v.toList.getD n 0 = v.getD n 0
  simp [List.getD_eq_getElem?_getD, Array.getD_eq_getD_getElem?]

/-! ### A. reachability steps -/

theorem prob_reach_tie (row : List (Tr Float)) (reach : Array Float) :
    Ex.Tad.ProbabilisticNode_value_iteration_reach (row.map encP) reach.toList
      = row.foldl (fun v t => v + reach.getD t.tgt 0 * t.p) 0 := by
  unfold Ex.Tad.ProbabilisticNode_value_iteration_reach
  dsimp only
  suffices H : ∀ init : Float, List.foldl (fun st1 (it2 : Float × Int) => st1 + Py.idx reach.toList it2.2 * it2.1) init
      (row.map encP) = row.foldl (fun v t => v + reach.getD t.tgt 0 * t.p) init from H 0
  induction row with
  | nil => intro _; rfl
  | cons t ts ih =>
    intro init
    simp only [List.map_cons, List.foldl_cons]
    rw [ih]
    simp only [encP, idx_arr]

theorem p1_reach_tie (row : List (Tr Float)) (reach : Array Float) :
    Ex.Tad.PlayerOne_value_iteration_reach (row.map encA) reach.toList
      = row.foldl (fun m t => let x := reach.getD t.tgt 0; if x > m then x else m) 0 := by
  unfold Ex.Tad.PlayerOne_value_iteration_reach
  dsimp only
  suffices H : ∀ init : Float, List.foldl (fun st1 (it2 : String × Int) =>
      if Py.idx reach.toList it2.2 > st1 then Py.idx reach.toList it2.2 else st1) init (row.map encA)
      = row.foldl (fun m t => let x := reach.getD t.tgt 0; if x > m then x else m) init from H 0
  induction row with
  | nil => intro _; rfl
  | cons t ts ih =>
    intro init
    simp only [List.map_cons, List.foldl_cons]
    rw [ih]
    simp only [encA, idx_arr]

theorem p2_reach_tie (row : List (Tr Float)) (reach : Array Float) :
    Ex.Tad.PlayerTwo_value_iteration_reach (row.map encA) reach.toList
      = row.foldl (fun m t => let x := reach.getD t.tgt 0; if x < m then x else m) 1 := by
  unfold Ex.Tad.PlayerTwo_value_iteration_reach
  dsimp only
  suffices H : ∀ init : Float, List.foldl (fun st1 (it2 : String × Int) =>
      if Py.idx reach.toList it2.2 < st1 then Py.idx reach.toList it2.2 else st1) init (row.map encA)
      = row.foldl (fun m t => let x := reach.getD t.tgt 0; if x < m then x else m) init from H 1
  induction row with
  | nil => intro _; rfl
  | cons t ts ih =>
    intro init
    simp only [List.map_cons, List.foldl_cons]
    rw [ih]
    simp only [encA, idx_arr]

theorem stepReach_tie (owners : Array Owner) (nodes : Array (List (Tr Float))) (reach : Array Float) (s : Nat) :
    stepReach owners nodes reach s =
      match owners.getD s .prob with
      | .p1 => Ex.Tad.PlayerOne_value_iteration_reach ((nodes.getD s []).map encA) reach.toList
      | .p2 => Ex.Tad.PlayerTwo_value_iteration_reach ((nodes.getD s []).map encA) reach.toList
      | .prob => Ex.Tad.ProbabilisticNode_value_iteration_reach ((nodes.getD s []).map encP) reach.toList := by
  rw [p1_reach_tie, p2_reach_tie, prob_reach_tie]
  rfl

/-! ### C. conditioning -/

theorem filter_encA (row : List (Tr Float)) (reach : Array Float) :
    List.filter (fun (ns : String × Int) => decide ((Py.idx reach.toList ns.2 == (0 : Float)) = false)) (row.map encA)
      = (row.filter (fun t => !(reach.getD t.tgt 0 == 0))).map encA := by
  rw [List.filter_map]
  congr 1
  apply List.filter_congr
  intro t _
  simp only [Function.comp, encA, idx_arr]
  cases (reach.getD t.tgt 0 == 0) <;> rfl

theorem filter_encP (row : List (Tr Float)) (reach : Array Float) :
    List.filter (fun (ns : Float × Int) => decide ((Py.idx reach.toList ns.2 == (0 : Float)) = false)) (row.map encP)
      = (row.filter (fun t => !(reach.getD t.tgt 0 == 0))).map encP := by
  rw [List.filter_map]
  congr 1
  apply List.filter_congr
  intro t _
  simp only [Function.comp, encP, idx_arr]
  cases (reach.getD t.tgt 0 == 0) <;> rfl

theorem p1_prune_paths_tie (row : List (Tr Float)) (reach : Array Float) :
    Ex.Tad.PlayerOne_prune_paths (row.map encA) reach.toList = (prunePathsP1 reach row).map encA := by
  unfold Ex.Tad.PlayerOne_prune_paths prunePathsP1
  dsimp only
  rw [filter_encA, List.map_id']

theorem p1_prune_reachability_tie (row : List (Tr Float)) (strat : List String) :
    Ex.Tad.PlayerOne_prune_paths_reachability (row.map encA) strat
      = (row.filter (fun t => strat.contains t.act)).map encA := by
  unfold Ex.Tad.PlayerOne_prune_paths_reachability
  dsimp only
  rw [List.filter_map, List.map_map]
  congr 1
  apply List.filter_congr
  intro t _
  simp only [Function.comp, encA, List.contains_eq_mem]
  exact decide_eq_decide.mpr Iff.rfl

theorem prob_prune_paths_tie (row : List (Tr Float)) (reach : Array Float) {row' : List (Tr Float)}
    (h : prunePathsProb reach row = .ok row') :
    Ex.Tad.ProbabilisticNode_prune_paths (row.map encP) reach.toList = row'.map encP := by
  unfold Ex.Tad.ProbabilisticNode_prune_paths
  unfold prunePathsProb at h
  dsimp only at h ⊢
  rw [filter_encP, List.map_id']
  simp only [Py.len, List.length_map, ne_eq, Int.ofNat_eq_natCast, Int.natCast_inj]
  split_ifs at h with h1 h2
  · cases h
    rw [if_pos h1, List.map_map, List.map_map, List.map_map, List.foldl_map]
    rfl
  · cases h
    rw [if_neg h1]

/-- the hypothesis of `prob_prune_paths_tie` is satisfiable with a renormalised row -/
example : (prunePathsProb (α := Float) #[0, 0.5] [⟨"", 0.5, 0⟩, ⟨"", 0.5, 1⟩]).toBool = true := by decide +kernel

/-! ### B. strategies -/

/-- the only link between Python's `round(x, d)` (a double) and the model's scaled integer: rounded values are
only compared with each other and with the literals 0 and 1, and on those comparisons the two views agree -/
structure RndAgree (rnd2 : Float → Int → Float) (d : Int) (rndI : Float → Int) : Prop where
  lt_iff   : ∀ x y, rnd2 x d < rnd2 y d ↔ rndI x < rndI y
  eq_iff   : ∀ x y, (rnd2 x d == rnd2 y d) = true ↔ rndI x = rndI y
  pos_iff  : ∀ x, (0 : Float) < rnd2 x d ↔ 0 < rndI x
  zero_iff : ∀ x, (rnd2 x d == (0 : Float)) = true ↔ rndI x = 0
  lt_one   : ∀ x, rnd2 x d < (1 : Float) ↔ rndI x < rndI 1
  eq_one   : ∀ x, (rnd2 x d == (1 : Float)) = true ↔ rndI x = rndI 1

/-- the assumption is satisfiable: a two-valued rounding -/
example : RndAgree (fun x _ => if x < 0.5 then 0 else 1) 6 (fun x => if x < 0.5 then 0 else 1) := by
  have f00 : ¬ (0 : Float) < 0 := by decide +kernel
  have f01 : (0 : Float) < 1 := by decide +kernel
  have f10 : ¬ (1 : Float) < 0 := by decide +kernel
  have f11 : ¬ (1 : Float) < 1 := by decide +kernel
  have e00 : ((0 : Float) == 0) = true := by decide +kernel
  have e01 : ((0 : Float) == 1) = false := by decide +kernel
  have e10 : ((1 : Float) == 0) = false := by decide +kernel
  have e11 : ((1 : Float) == 1) = true := by decide +kernel
  have h1 : ¬ (1 : Float) < 0.5 := by decide +kernel
  constructor
  · intro x y; by_cases hx : x < 0.5 <;> by_cases hy : y < 0.5 <;> simp [hx, hy, f00, f01, f10, f11]
  · intro x y; by_cases hx : x < 0.5 <;> by_cases hy : y < 0.5 <;> simp [hx, hy, e00, e01, e10, e11]
  · intro x; by_cases hx : x < 0.5 <;> simp [hx, f00, f01]
  · intro x; by_cases hx : x < 0.5 <;> simp [hx, e00, e10]
  · intro x; by_cases hx : x < 0.5 <;> simp [hx, h1, f01, f11]
  · intro x; by_cases hx : x < 0.5 <;> simp [hx, h1, e01, e11]

/-- two loops over the same row (the code's over the encoded row) keep a relation between their states -/
theorem fold_sim {σ τ A B : Type} (R : σ → τ → Prop) (F : σ → A → σ) (G : τ → B → τ) (e : B → A)
    (hstep : ∀ s t b, R s t → R (F s (e b)) (G t b)) :
    ∀ (row : List B) (s : σ) (t : τ), R s t → R (List.foldl F s (row.map e)) (List.foldl G t row) := by
  intro row
  induction row with
  | nil => intro s t h; exact h
  | cons b bs ih =>
    intro s t h
    simp only [List.map_cons, List.foldl_cons]
    exact ih _ _ (hstep s t b h)

/-- simulation of the arg-max loops: the running extreme of the code (`m`) and of the model (`k`) are related
by `R`, which is all the comparisons look at -/
theorem strat_sim_gt (rnd2 : Float → Int → Float) (d : Int) (rndI : Float → Int) (R : Float → Int → Prop)
    (hgt : ∀ m k, R m k → ∀ x, (m < rnd2 x d ↔ k < rndI x))
    (heq : ∀ m k, R m k → ∀ x, ((rnd2 x d == m) = true ↔ rndI x = k))
    (hstep : ∀ x, R (rnd2 x d) (rndI x))
    (vals : Array Float) (row : List (Tr Float)) (m : Float) (k : Int) (l : List String) (hR : R m k) :
    (List.foldl (fun (st1 : Float × List String) (it2 : String × Int) =>
        if rnd2 (Py.idx vals.toList it2.2) d > st1.1 then (rnd2 (Py.idx vals.toList it2.2) d, [it2.1])
        else (st1.1, if (rnd2 (Py.idx vals.toList it2.2) d == st1.1) = true then st1.2 ++ [it2.1] else st1.2))
      (m, l) (row.map encA)).2
    = (row.foldl (fun (acc : Int × List String) t =>
        let v := rndI (vals.getD t.tgt 0)
        if v > acc.1 then (v, [t.act]) else if v == acc.1 then (acc.1, acc.2 ++ [t.act]) else acc) (k, l)).2 := by
  refine (fold_sim (fun (s : Float × List String) (t : Int × List String) => R s.1 t.1 ∧ s.2 = t.2)
    _ _ encA ?_ row (m, l) (k, l) ⟨hR, rfl⟩).2
  rintro ⟨m, l⟩ ⟨k, l'⟩ t ⟨hR, hl⟩
  cases hl
  simp only [encA, idx_arr]
  have e1 := hgt m k hR (vals.getD t.tgt 0)
  have e2 := heq m k hR (vals.getD t.tgt 0)
  by_cases c1 : k < rndI (vals.getD t.tgt 0)
  · have c1' := e1.mpr c1
    simp only [gt_iff_lt, c1, c1', if_true]
    exact ⟨hstep _, by first | rfl | trivial⟩
  · have c1' : ¬ m < rnd2 (vals.getD t.tgt 0) d := fun hh => c1 (e1.mp hh)
    by_cases c2 : rndI (vals.getD t.tgt 0) = k
    · have c2' := e2.mpr c2
      have c2'' : (rndI (vals.getD t.tgt 0) == k) = true := by simpa using c2
      simp only [gt_iff_lt, c1, c1', c2', c2'', if_false, if_true]
      exact ⟨hR, by first | rfl | trivial⟩
    · have c2' : ¬ (rnd2 (vals.getD t.tgt 0) d == m) = true := fun hh => c2 (e2.mp hh)
      have c2'' : ¬ (rndI (vals.getD t.tgt 0) == k) = true := by simpa using c2
      simp only [gt_iff_lt, c1, c1', c2', c2'', if_false]
      exact ⟨hR, rfl⟩

/-- simulation of the arg-min loops -/
theorem strat_sim_lt (rnd2 : Float → Int → Float) (d : Int) (rndI : Float → Int) (R : Float → Int → Prop)
    (hlt : ∀ m k, R m k → ∀ x, (rnd2 x d < m ↔ rndI x < k))
    (heq : ∀ m k, R m k → ∀ x, ((rnd2 x d == m) = true ↔ rndI x = k))
    (hstep : ∀ x, R (rnd2 x d) (rndI x))
    (vals : Array Float) (row : List (Tr Float)) (m : Float) (k : Int) (l : List String) (hR : R m k) :
    (List.foldl (fun (st1 : Float × List String) (it2 : String × Int) =>
        if rnd2 (Py.idx vals.toList it2.2) d < st1.1 then (rnd2 (Py.idx vals.toList it2.2) d, [it2.1])
        else (st1.1, if (rnd2 (Py.idx vals.toList it2.2) d == st1.1) = true then st1.2 ++ [it2.1] else st1.2))
      (m, l) (row.map encA)).2
    = (row.foldl (fun (acc : Int × List String) t =>
        let v := rndI (vals.getD t.tgt 0)
        if v < acc.1 then (v, [t.act]) else if v == acc.1 then (acc.1, acc.2 ++ [t.act]) else acc) (k, l)).2 := by
  refine (fold_sim (fun (s : Float × List String) (t : Int × List String) => R s.1 t.1 ∧ s.2 = t.2)
    _ _ encA ?_ row (m, l) (k, l) ⟨hR, rfl⟩).2
  rintro ⟨m, l⟩ ⟨k, l'⟩ t ⟨hR, hl⟩
  cases hl
  simp only [encA, idx_arr]
  have e1 := hlt m k hR (vals.getD t.tgt 0)
  have e2 := heq m k hR (vals.getD t.tgt 0)
  by_cases c1 : rndI (vals.getD t.tgt 0) < k
  · have c1' := e1.mpr c1
    simp only [c1, c1', if_true]
    exact ⟨hstep _, by first | rfl | trivial⟩
  · have c1' : ¬ rnd2 (vals.getD t.tgt 0) d < m := fun hh => c1 (e1.mp hh)
    by_cases c2 : rndI (vals.getD t.tgt 0) = k
    · have c2' := e2.mpr c2
      have c2'' : (rndI (vals.getD t.tgt 0) == k) = true := by simpa using c2
      simp only [c1, c1', c2', c2'', if_false, if_true]
      exact ⟨hR, by first | rfl | trivial⟩
    · have c2' : ¬ (rnd2 (vals.getD t.tgt 0) d == m) = true := fun hh => c2 (e2.mp hh)
      have c2'' : ¬ (rndI (vals.getD t.tgt 0) == k) = true := by simpa using c2
      simp only [c1, c1', c2', c2'', if_false]
      exact ⟨hR, rfl⟩

section
variable {rnd2 : Float → Int → Float} {d : Int} {rndI : Float → Int}

/-- both extremes are the literal `c`, or both are the rounding of the same value -/
def RelFrom (rnd2 : Float → Int → Float) (d : Int) (rndI : Float → Int) (c : Float) (ci : Int) (m : Float) (k : Int) : Prop :=
  (m = c ∧ k = ci) ∨ ∃ y, m = rnd2 y d ∧ k = rndI y

theorem best_strat_reach_tie (h : RndAgree rnd2 d rndI) (vals : Array Float) (row : List (Tr Float)) :
    bestStrat rndI vals row
      = Ex.Tad.PlayerOne_get_best_strategies_reachability rnd2 (row.map encA) vals.toList d := by
  unfold Ex.Tad.PlayerOne_get_best_strategies_reachability bestStrat
  symm
  refine strat_sim_gt rnd2 d rndI (RelFrom rnd2 d rndI 0 0) ?_ ?_ ?_ vals row 0 0 [] (Or.inl ⟨rfl, rfl⟩)
  · rintro m k (⟨rfl, rfl⟩ | ⟨y, rfl, rfl⟩) x
    · exact h.pos_iff x
    · exact h.lt_iff y x
  · rintro m k (⟨rfl, rfl⟩ | ⟨y, rfl, rfl⟩) x
    · exact h.zero_iff x
    · exact h.eq_iff x y
  · exact fun x => Or.inr ⟨x, rfl, rfl⟩

theorem best_strat_rew_tie (h : RndAgree rnd2 d rndI) (vals : Array Float) (row : List (Tr Float)) :
    bestStrat rndI vals row
      = Ex.Tad.PlayerOne_get_best_strategies_total_rewards rnd2 (row.map encA) vals.toList d := by
  rw [best_strat_reach_tie h]
  rfl

theorem worst_strat_reach_tie (h : RndAgree rnd2 d rndI) (vals : Array Float) (row : List (Tr Float)) :
    worstStratFrom rndI (rndI 1) vals row
      = Ex.Tad.PlayerTwo_get_worst_strategies_reachability rnd2 (row.map encA) vals.toList d := by
  unfold Ex.Tad.PlayerTwo_get_worst_strategies_reachability worstStratFrom
  symm
  refine strat_sim_lt rnd2 d rndI (RelFrom rnd2 d rndI 1 (rndI 1)) ?_ ?_ ?_ vals row 1 (rndI 1) [] (Or.inl ⟨rfl, rfl⟩)
  · rintro m k (⟨rfl, rfl⟩ | ⟨y, rfl, rfl⟩) x
    · exact h.lt_one x
    · exact h.lt_iff x y
  · rintro m k (⟨rfl, rfl⟩ | ⟨y, rfl, rfl⟩) x
    · exact h.eq_one x
    · exact h.eq_iff x y
  · exact fun x => Or.inr ⟨x, rfl, rfl⟩

theorem worst_strat_rew_tie (h : RndAgree rnd2 d rndI) (vals : Array Float) (row : List (Tr Float)) :
    worstStratRew rndI vals row
      = Ex.Tad.PlayerTwo_get_worst_strategies_total_rewards rnd2 (row.map encA) vals.toList d := by
  unfold Ex.Tad.PlayerTwo_get_worst_strategies_total_rewards worstStratRew
  cases row with
  | nil => rfl
  | cons t ts =>
    have hl : ¬ (Py.len (List.map encA (t :: ts)) = (0 : Int)) := by
      simp [Py.len]; omega
    rw [if_neg hl]
    unfold worstStratFrom
    symm
    refine strat_sim_lt rnd2 d rndI (fun m k => ∃ y, m = rnd2 y d ∧ k = rndI y) ?_ ?_ ?_ vals (t :: ts) _ _ []
      ⟨vals.getD t.tgt 0, ?_, rfl⟩
    · rintro m k ⟨y, rfl, rfl⟩ x
      exact h.lt_iff x y
    · rintro m k ⟨y, rfl, rfl⟩ x
      exact h.eq_iff x y
    · exact fun x => ⟨x, rfl, rfl⟩
    · simp only [List.map_cons, idx_cons_zero, encA, idx_arr]

end

/-! ### D. reward steps -/

theorem prob_rew_fold (er ermr pmr : Array Float) (row : List (Tr Float)) :
    ∀ (a b c : Float),
    List.foldl (fun (st1 : Float × Float × Float) (it2 : Float × Int) =>
        (st1.1 + Py.idx er.toList it2.2 * it2.1, st1.2.1 + Py.idx ermr.toList it2.2 * it2.1,
          st1.2.2 + Py.idx pmr.toList it2.2 * it2.1)) (a, b, c) (row.map encP)
    = (row.foldl (fun acc t => acc + er.getD t.tgt 0 * t.p) a,
       row.foldl (fun acc t => acc + ermr.getD t.tgt 0 * t.p) b,
       row.foldl (fun acc t => acc + pmr.getD t.tgt 0 * t.p) c) := by
  induction row with
  | nil => intros; rfl
  | cons t ts ih =>
    intro a b c
    simp only [List.map_cons, List.foldl_cons]
    rw [ih]
    simp only [encP, idx_arr]

theorem prob_rew_tie (rndI : Float → Int) (owners : Array Owner) (rewards : Array Float)
    (nodes : Array (List (Tr Float))) (reach : Array Float) (v : RewVecs Float) (s : Nat)
    (ho : owners.getD s .prob = .prob) :
    stepRew rndI owners rewards nodes reach v s
      = .ok (Ex.Tad.ProbabilisticNode_value_iteration_rewards ((nodes.getD s []).map encP) (rewards.getD s 0)
          v.er.toList v.ermr.toList v.pmr.toList) := by
  unfold stepRew Ex.Tad.ProbabilisticNode_value_iteration_rewards
  dsimp only
  rw [ho]
  generalize nodes.getD s [] = row
  generalize rewards.getD s 0 = r
  cases row with
  | nil => simp
  | cons t ts =>
    have hne : ¬ ¬ (List.map encP (t :: ts) ≠ []) := by simp
    rw [if_neg hne, prob_rew_fold]
    simp

/-- the selection loop of `PlayerOne.value_iteration_rewards`: same running maximum; once the model has a
selected successor, the code holds its encoding -/
theorem p1_sel_tie (er : Array Float) (row : List (Tr Float)) (m : Float) (ns : String × Int) :
    let c := List.foldl (fun (st1 : Float × (String × Int)) (it2 : String × Int) =>
        if Py.idx er.toList it2.2 ≥ st1.1 then (Py.idx er.toList it2.2, it2) else (st1.1, st1.2)) (m, ns) (row.map encA)
    let md := row.foldl (fun (acc : Float × Option (Tr Float)) t =>
        let x := er.getD t.tgt 0
        if x ≥ acc.1 then (x, some t) else acc) (m, none)
    c.1 = md.1 ∧ ∀ t, md.2 = some t → c.2 = encA t := by
  refine fold_sim (fun (s : Float × (String × Int)) (t : Float × Option (Tr Float)) =>
    s.1 = t.1 ∧ ∀ t', t.2 = some t' → s.2 = encA t') _ _ encA ?_ row (m, ns) (m, none) ⟨rfl, fun _ h => by cases h⟩
  rintro ⟨m, ns⟩ ⟨m', o⟩ t ⟨hm, ho⟩
  cases hm
  simp only [encA, idx_arr]
  by_cases c1 : er.getD t.tgt 0 ≥ m
  · simp only [c1, if_true]
    exact ⟨trivial, fun t' h => by cases h; rfl⟩
  · simp only [c1, if_false]
    exact ⟨trivial, ho⟩

theorem p1_rew_tie (rndI : Float → Int) (owners : Array Owner) (rewards : Array Float)
    (nodes : Array (List (Tr Float))) (reach : Array Float) (v : RewVecs Float) (s : Nat)
    (ho : owners.getD s .prob = .p1) {x : Float × Float × Float}
    (hx : stepRew rndI owners rewards nodes reach v s = .ok x) :
    Ex.Tad.PlayerOne_value_iteration_rewards ((nodes.getD s []).map encA) (rewards.getD s 0)
      v.er.toList v.ermr.toList v.pmr.toList = x := by
  unfold stepRew at hx
  unfold Ex.Tad.PlayerOne_value_iteration_rewards
  dsimp only at hx ⊢
  rw [ho] at hx
  revert hx
  generalize nodes.getD s [] = row
  generalize rewards.getD s 0 = r
  intro hx
  cases row with
  | nil =>
    simp only [List.isEmpty_nil, if_true] at hx
    cases hx
    simp
  | cons t ts =>
    have hne : ¬ ¬ (List.map encA (t :: ts) ≠ []) := by simp
    rw [if_neg hne]
    simp only [List.isEmpty_cons, Bool.false_eq_true, if_false] at hx
    obtain ⟨h1, h2⟩ := p1_sel_tie v.er (t :: ts) 0 default
    dsimp only at h1 h2
    split at hx
    · cases hx
    · rename_i t' hsel
      cases hx
      rw [h1, h2 t' hsel]
      simp only [encA, idx_arr]

/-- the hypotheses of `p1_rew_tie` are satisfiable on a non-empty row -/
example : (#[Owner.p1].getD 0 .prob = .p1) ∧
    (stepRew (fun _ => 0) #[Owner.p1] #[(1 : Float)] #[[⟨"a", 0, 0⟩]] #[0] ⟨#[1], #[1], #[0]⟩ 0).toBool = true := by
  decide +kernel

/-- the filter of `PlayerTwo._expected_rewards_min_reach` on the encoded row -/
theorem filter_strat_encA (row : List (Tr Float)) (strat : List String) :
    List.filter (fun (ns : String × Int) => decide (ns.1 ∈ strat)) (row.map encA)
      = (row.filter (fun t => strat.contains t.act)).map encA := by
  rw [List.filter_map]
  congr 1
  apply List.filter_congr
  intro t _
  simp only [Function.comp, encA, List.contains_eq_mem]
  exact decide_eq_decide.mpr Iff.rfl

/-- the guarded minimum loop over the whole row is the minimum loop over the filtered row -/
theorem min_reach_fold (ermr : Array Float) (strat : List String) (row : List (Tr Float)) :
    ∀ init : Float,
    List.foldl (fun (st1 : Float) (it2 : String × Int) =>
        if it2.1 ∈ strat then (if Py.idx ermr.toList it2.2 < st1 then Py.idx ermr.toList it2.2 else st1) else st1)
      init (row.map encA)
    = (row.filter (fun t => strat.contains t.act)).foldl
        (fun m t => let x := ermr.getD t.tgt 0; if x < m then x else m) init := by
  induction row with
  | nil => intro _; rfl
  | cons t ts ih =>
    intro init
    simp only [List.map_cons, List.foldl_cons, List.filter_cons]
    rw [ih]
    by_cases c : t.act ∈ strat
    · have c' : strat.contains t.act = true := by simpa using c
      simp only [encA, c, c', if_true, List.foldl_cons, idx_arr]
    · have c' : strat.contains t.act = false := by simpa using c
      simp only [encA, c, c', if_false, Bool.false_eq_true]

/-- STATEMENT CHANGED (extra hypothesis `hs`).  Without it the statement is false: for a non-empty strategy list
none of whose actions labels a transition of the row, Python raises IndexError; the translation's `Py.idx`
yields `default` there (value `ermr[0] + reward`) while the model returns 0.
Counterexample: row = [], reward = 1, ermr = #[5], strat = ["a"]: code 6, model 0. -/
theorem p2_rew_min_reach_tie (row : List (Tr Float)) (r : Float) (ermr : Array Float) (strat : List String)
    (hs : strat = [] ∨ ∃ t ∈ row, t.act ∈ strat) :
    Ex.Tad.PlayerTwo__expected_rewards_min_reach (row.map encA) r ermr.toList strat
      = p2RewMinReach r ermr row strat := by
  unfold Ex.Tad.PlayerTwo__expected_rewards_min_reach p2RewMinReach
  by_cases hst : strat = []
  · subst hst
    have hf : row.filter (fun t => ([] : List String).contains t.act) = [] := by simp
    rw [hf, if_pos (by simp)]
  · have hne : ¬ ¬ (strat ≠ []) := by simpa using hst
    rw [if_neg hne]
    dsimp only
    rw [List.map_id', filter_strat_encA, min_reach_fold]
    obtain ⟨t, htr, hta⟩ := hs.resolve_left hst
    cases hf : row.filter (fun t => strat.contains t.act) with
    | nil =>
      have : t ∈ row.filter (fun t => strat.contains t.act) := by
        simp [List.mem_filter, htr, hta]
      rw [hf] at this
      cases this
    | cons t0 rest =>
      simp only [List.map_cons, idx_cons_zero, encA, idx_arr]

example : ([ "a" ] : List String) = [] ∨ ∃ t ∈ ([⟨"a", 0, 0⟩] : List (Tr Float)), t.act ∈ ["a"] :=
  Or.inr ⟨_, List.mem_cons_self, List.mem_cons_self⟩

/-- every action named by `worstStratFrom` labels a transition of the row -/
theorem worst_strat_mem (rnd : Float → Int) (vals : Array Float) (row : List (Tr Float)) :
    ∀ (acc : Int × List String) (a : String),
      a ∈ (row.foldl (fun (acc : Int × List String) t =>
        let v := rnd (vals.getD t.tgt 0)
        if v < acc.1 then (v, [t.act]) else if v == acc.1 then (acc.1, acc.2 ++ [t.act]) else acc) acc).2 →
      a ∈ acc.2 ∨ ∃ t ∈ row, t.act = a := by
  induction row with
  | nil => intro acc a h; exact Or.inl h
  | cons t ts ih =>
    intro acc a h
    rw [List.foldl_cons] at h
    rcases ih _ a h with h1 | ⟨t', ht', e⟩
    · dsimp only at h1
      split_ifs at h1
      · right
        exact ⟨t, List.mem_cons_self, (List.mem_singleton.mp h1).symm⟩
      · rcases List.mem_append.mp h1 with h2 | h2
        · exact Or.inl h2
        · right
          exact ⟨t, List.mem_cons_self, (List.mem_singleton.mp h2).symm⟩
      · exact Or.inl h1
    · right
      exact ⟨t', List.mem_cons_of_mem _ ht', e⟩

/-- the selection loop of `PlayerTwo.value_iteration_rewards` once the code holds an encoded successor -/
theorem p2_sel_tie (er : Array Float) (row : List (Tr Float)) (m : Float) (t : Tr Float) :
    List.foldl (fun (st1 : Float × (String × Int)) (it2 : String × Int) =>
        if Py.idx er.toList it2.2 ≤ st1.1 then (Py.idx er.toList it2.2, it2) else (st1.1, st1.2)) (m, encA t) (row.map encA)
    = ((row.foldl (fun (acc : Float × Tr Float) t =>
        let x := er.getD t.tgt 0
        if x ≤ acc.1 then (x, t) else acc) (m, t)).1,
       encA (row.foldl (fun (acc : Float × Tr Float) t =>
        let x := er.getD t.tgt 0
        if x ≤ acc.1 then (x, t) else acc) (m, t)).2) := by
  refine fold_sim (fun (s : Float × (String × Int)) (t : Float × Tr Float) => s = (t.1, encA t.2)) _ _ encA ?_
    row (m, encA t) (m, t) rfl
  rintro ⟨m1, ns⟩ ⟨m2, t2⟩ t hR
  cases hR
  simp only [encA, idx_arr]
  by_cases c1 : er.getD t.tgt 0 ≤ m2
  · simp only [c1, if_true]
  · simp only [c1, if_false]

/-- STATEMENT CHANGED (extra hypothesis `hfin`: the expected reward of the first successor is not NaN).
Without it the statement is false: the code starts from `min_rewards = er[first]` with `min_next_state`
unassigned, and `x ≤ min_rewards` never holds when `er[first]` is NaN, so Python raises UnboundLocalError (the
translation reads `default`, i.e. state 0) while the model starts from the first successor.
Counterexample: row = [("a", 1)], er = #[0, NaN], pmr = #[0.3, 0.7]: model third component 0.7, code 0.3. -/
theorem p2_rew_tie {rnd2 : Float → Int → Float} {rndI : Float → Int} (h : RndAgree rnd2 6 rndI)
    (owners : Array Owner) (rewards : Array Float) (nodes : Array (List (Tr Float))) (reach : Array Float)
    (v : RewVecs Float) (s : Nat) (ho : owners.getD s .prob = .p2)
    (hfin : ∀ t0, (nodes.getD s []).head? = some t0 → v.er.getD t0.tgt 0 ≤ v.er.getD t0.tgt 0) :
    stepRew rndI owners rewards nodes reach v s
      = .ok (Ex.Tad.PlayerTwo_value_iteration_rewards rnd2 ((nodes.getD s []).map encA) (rewards.getD s 0)
          reach.toList v.er.toList v.ermr.toList v.pmr.toList) := by
  unfold stepRew Ex.Tad.PlayerTwo_value_iteration_rewards
  dsimp only
  rw [ho]
  revert hfin
  generalize nodes.getD s [] = row
  generalize rewards.getD s 0 = r
  intro hfin
  cases row with
  | nil => simp
  | cons t ts =>
    have hne : ¬ ¬ (List.map encA (t :: ts) ≠ []) := by simp
    have h0 := hfin t rfl
    rw [if_neg hne, ← worst_strat_reach_tie h, p2_rew_min_reach_tie]
    · simp only [List.isEmpty_cons, Bool.false_eq_true, if_false, List.map_cons, List.foldl_cons, idx_cons_zero]
      simp only [encA, idx_arr, h0, if_true]
      rw [show ((t.act, (t.tgt : Int)) : String × Int) = encA t from rfl, p2_sel_tie]
      simp only [encA, idx_arr]
    · by_cases hst : worstStratFrom rndI (rndI 1) reach (t :: ts) = []
      · exact Or.inl hst
      · right
        obtain ⟨a, ha⟩ := List.exists_mem_of_ne_nil _ hst
        rcases worst_strat_mem rndI reach (t :: ts) (rndI 1, []) a ha with h1 | ⟨t', ht', e⟩
        · cases h1
        · exact ⟨t', ht', by rw [e]; exact ha⟩

/-- the extra hypothesis of `p2_rew_tie` is satisfiable on a non-empty row -/
example : ∀ t0, ([⟨"a", 0, 0⟩] : List (Tr Float)).head? = some t0 →
    (#[(1 : Float)]).getD t0.tgt 0 ≤ (#[(1 : Float)]).getD t0.tgt 0 := by
  intro t0 h
  cases h
  decide +kernel


end CR.Tie
