/-
Tie theorem for `StochasticGame.check_game`: the mechanical translation (CR/Extracted/Tad.lean) equals the
hand-written model `checkGame` (CR/Model/Solver.lean) on every typed game with non-empty rewards / finals,
modulo the naming of the error (`checkMsg`).
-/
import CR.Extracted.Tad
import CR.Model.Solver
import Mathlib.Tactic.SplitIfs

namespace CR.Tie
open CR

def ownerStr' : Owner → String
  | .p1 => "Player 1"
  | .p2 => "Player 2"
  | .prob => "Probabilistic"

/-- the model's rule name ↦ the Python message -/
def checkMsg (rule : String) : String :=
  if rule = "transition list length" then
    "The transition list must have the same number of elements as states in the game."
  else if rule = "reward list length" then
    "The reward list must have the same number of elements as states in the game."
  else if rule = "negative reward" then
    "Rewards must be positive."
  else if rule = "final state out of range" then
    "Final states must be in the range of the number of states."
  else ""

theorem foldl_max_ge (xs : List Int) (a n : Int) :
    n ≤ xs.foldl max a ↔ (n ≤ a ∨ ∃ x ∈ xs, n ≤ x) := by
  induction xs generalizing a with
  | nil => simp
  | cons x xs ih =>
    have h : n ≤ max a x ↔ (n ≤ a ∨ n ≤ x) := by omega
    simp only [List.foldl_cons, ih, List.mem_cons, exists_eq_or_imp, h, or_assoc]

theorem foldl_min_neg (xs : List Int) (a : Int) :
    xs.foldl min a < 0 ↔ (a < 0 ∨ ∃ x ∈ xs, x < 0) := by
  induction xs generalizing a with
  | nil => simp
  | cons x xs ih =>
    have h : min a x < 0 ↔ (a < 0 ∨ x < 0) := by omega
    simp only [List.foldl_cons, ih, List.mem_cons, exists_eq_or_imp, h, or_assoc]

theorem maxList_ge (l : List Int) (hl : l ≠ []) (n : Int) :
    Py.maxList l ≥ n ↔ ∃ x ∈ l, n ≤ x := by
  cases l with
  | nil => exact absurd rfl hl
  | cons a xs => simp [Py.maxList, foldl_max_ge]

theorem minList_neg (l : List Int) (hl : l ≠ []) :
    Py.minList l < 0 ↔ ∃ x ∈ l, x < 0 := by
  cases l with
  | nil => exact absurd rfl hl
  | cons a xs => simp [Py.minList, foldl_min_neg]

/-- Python's `max(final) >= n or min(final) < 0` on a list of naturals is "some final is `≥ n`" -/
theorem finals_check (l : List Nat) (hl : l ≠ []) (n : Nat) :
    (Py.maxList (l.map Int.ofNat) ≥ (n : Int) ∨ Py.minList (l.map Int.ofNat) < 0)
      ↔ l.any (fun f => f ≥ n) = true := by
  have hl' : l.map Int.ofNat ≠ [] := by simpa using hl
  rw [maxList_ge _ hl', minList_neg _ hl']
  simp only [List.mem_map, List.any_eq_true, decide_eq_true_eq]
  constructor
  · rintro (⟨x, ⟨y, hy, rfl⟩, hx⟩ | ⟨x, ⟨y, hy, rfl⟩, hx⟩)
    · exact ⟨y, hy, by simpa using hx⟩
    · exact absurd hx (by simp)
  · rintro ⟨y, hy, hx⟩
    exact Or.inl ⟨Int.ofNat y, ⟨y, hy, rfl⟩, by simpa using hx⟩

theorem ownerStr'_mem (o : Owner) : ownerStr' o ∈ (["Player 1", "Player 2", "Probabilistic"] : List String) := by
  cases o <;> simp [ownerStr']

/-- a `for … : if … raise` loop (a fold in `Except`) whose body never raises returns normally -/
theorem fold_ok {γ : Type} (f : Except String Unit → γ → Except String Unit) (l : List γ)
    (h : ∀ s ∈ l, f (Except.ok ()) s = Except.ok ()) : l.foldl f (Except.ok ()) = Except.ok () := by
  induction l with
  | nil => rfl
  | cons x xs ih =>
    rw [List.foldl_cons, h x (by simp)]
    exact ih (fun s hs => h s (by simp [hs]))

/-- `checkGame` as a plain cascade of tests -/
theorem checkGame_eq (g : Game Float) :
    checkGame g =
      if g.tl.size ≠ g.owners.size then .error (.malformed "transition list length")
      else if g.rewards.size ≠ g.owners.size then .error (.malformed "reward list length")
      else if g.rewards.size = 0 then .error (.malformed "min of empty rewards")
      else if g.rewards.any (fun x => x < 0) = true then .error (.malformed "negative reward")
      else if g.finals.isEmpty = true then .error (.malformed "max of empty final states")
      else if g.finals.any (fun f => f ≥ g.owners.size) = true then
        .error (.malformed "final state out of range")
      else .ok () := by
  unfold checkGame anyNeg
  simp only [bind, Except.bind, throw, throwThe, MonadExceptOf.throw, pure, Except.pure]
  split_ifs <;> simp_all

theorem check_game_tie (g : Game Float) (hr : g.rewards.size ≠ 0) (hf : g.finals ≠ [])
    (hmin : (Py.minListF g.rewards.toList < 0) ↔ (g.rewards.any (fun x => x < 0) = true)) :
    Ex.Tad.StochasticGame_check_game g.tl.toList (g.owners.size : Int) g.rewards.toList
        (g.finals.map Int.ofNat) (g.owners.toList.map ownerStr')
      = (match checkGame g with
         | .ok () => Except.ok ()
         | .error (.malformed rule) => Except.error (checkMsg rule)
         | .error _ => Except.ok ()) := by
  have hfe : ¬ (g.finals.isEmpty = true) := by
    cases hg : g.finals with
    | nil => exact absurd hg hf
    | cons _ _ => simp
  have hfin := finals_check g.finals hf g.owners.size
  have hl1 : Py.len g.tl.toList ≠ (g.owners.size : Int) ↔ g.tl.size ≠ g.owners.size := by
    simp only [Py.len, Array.length_toList, Int.ofNat_eq_natCast]; omega
  have hl2 : Py.len g.rewards.toList ≠ (g.owners.size : Int) ↔ g.rewards.size ≠ g.owners.size := by
    simp only [Py.len, Array.length_toList, Int.ofNat_eq_natCast]; omega
  rw [checkGame_eq]
  unfold Ex.Tad.StochasticGame_check_game
  rw [fold_ok]
  · simp only [hl1, hl2, hmin, hfin]
    split_ifs <;> rfl
  · intro s hs
    obtain ⟨o, -, rfl⟩ := List.mem_map.mp hs
    simp only [ownerStr'_mem o, not_true_eq_false, if_false]

/-- the hypotheses of `check_game_tie` hold on a concrete 2-state game -/
def exGame2 : Game Float :=
  { rewards := #[1, 0], owners := #[.p1, .prob],
    tl := #[[⟨"a", 0, 1⟩], [⟨"", 1, 1⟩]], finals := [1] }

example : exGame2.rewards.size ≠ 0 ∧ exGame2.finals ≠ [] ∧
    ((Py.minListF exGame2.rewards.toList < 0) ↔ (exGame2.rewards.any (fun x => x < 0) = true)) :=
  ⟨by decide, by decide, by decide +kernel⟩

example : Ex.Tad.StochasticGame_check_game exGame2.tl.toList (exGame2.owners.size : Int)
    exGame2.rewards.toList (exGame2.finals.map Int.ofNat) (exGame2.owners.toList.map ownerStr')
      = Except.ok () := by
  have hc : checkGame exGame2 = .ok () := by
    rw [checkGame_eq, if_neg (by decide), if_neg (by decide), if_neg (by decide),
      if_neg (by decide +kernel), if_neg (by decide), if_neg (by decide)]
  rw [check_game_tie exGame2 (by decide) (by decide) (by decide +kernel), hc]

end CR.Tie
