/-
Tie theorem for `Solver.prune_states`: the mechanical translation `Ex.Tad.Solver_prune_states`
(CR/Extracted/Tad.lean) equals the hand-written model `pruneStates` (CR/Model/Solver.lean) whenever the
model terminates normally within the fuel.

* `prune_round`      — one pass of the `while not finished:` body = `pruneStatesRound` (+ the exit test)
* `prune_loop`       — the fuel-bounded loop, for every `prev`
* `prune_states_tie` — the statement for the whole function
-/
import CR.Tie.Basic
import CR.Tie.Check
import CR.Extracted.Tad
import CR.Model.Solver

namespace CR.Tie
open CR

def encRow (o : Owner) (row : List (Tr Float)) : List (Py.Slot × Int) :=
  row.map (fun t => ((match o with | .prob => Py.Slot.prob t.p | _ => Py.Slot.act t.act), (t.tgt : Int)))
def encRows (owners : Array Owner) (nodes : Array (List (Tr Float))) : List (List (Py.Slot × Int)) :=
  (List.range nodes.size).map (fun s => encRow (owners.getD s .prob) (nodes.getD s []))

abbrev PSRows := List (List (Py.Slot × Int))

def psStepF (owners : List String) (reach : List Int) (st : List Int × PSRows) (idx : Int) : List Int × PSRows :=
  if Py.idx owners idx ≠ "Player 1" ∧ ¬ idx ∈ reach then (st.1 ++ [idx], Py.setIdx st.2 idx [])
  else (if Py.idx owners idx = "Player 1" ∧ ¬ (Py.idx st.2 idx ≠ []) ∧ ¬ idx ∈ reach then st.1 ++ [idx] else st.1, st.2)

def psReachOf (owners : List String) (rows : PSRows) : List Int :=
  List.foldl (fun st i => List.foldl (fun st (x : Py.Slot × Int) => st ++ [x.2]) st (Py.idx rows i)) [0] (Py.range (Py.len owners))

def pruneBody (owners : List String) (st : PSRows × Bool × List Int) : PSRows × Bool × List Int :=
  let r := List.foldl (psStepF owners (psReachOf owners st.1)) ([], st.1) (Py.range (Py.len owners))
  (r.2, decide (Py.sameSet r.1 st.2.2 = true), r.1)

theorem prune_states_unfold (fuel : Nat) (owners : List String) (rows : PSRows) :
    Ex.Tad.Solver_prune_states fuel owners rows
      = (Py.whileFuel fuel (fun st => decide (¬ (st.2.1 = true))) (pruneBody owners) (rows, false, [])).map (·.1) := by
  unfold Ex.Tad.Solver_prune_states
  show (match Py.whileFuel fuel (fun st => decide (¬ (st.2.1 = true))) (pruneBody owners) (rows, false, []) with
    | none => none | some st1 => some st1.1) = _
  cases Py.whileFuel fuel (fun st => decide (¬ (st.2.1 = true))) (pruneBody owners) (rows, false, []) <;> rfl

theorem ps_range_map_getD {β : Type} (l : List β) (d : β) :
    (List.range l.length).map (fun s => l.getD s d) = l := by
  apply List.ext_getElem
  · simp
  · intro i h1 h2
    simp at h1
    simp [h1]

def psCB (ownersL : List String) (reach : List Int) (s : Nat) : Bool :=
  decide (Py.idx ownersL (s : Int) ≠ "Player 1" ∧ ¬ (s : Int) ∈ reach)
def psDB (ownersL : List String) (reach : List Int) (rows0 : PSRows) (s : Nat) : Bool :=
  decide (Py.idx ownersL (s : Int) = "Player 1" ∧ (rows0.getD s []).isEmpty = true ∧ ¬ (s : Int) ∈ reach)

theorem fold_psStepF (ownersL : List String) (reach : List Int) (rows0 : PSRows) (k : Nat)
    (hk : k ≤ rows0.length) :
    List.foldl (psStepF ownersL reach) ([], rows0) ((List.range k).map Int.ofNat) =
      (((List.range k).filter (fun s => psCB ownersL reach s || psDB ownersL reach rows0 s)).map Int.ofNat,
       (List.range rows0.length).map
         (fun s => if s < k ∧ psCB ownersL reach s = true then [] else rows0.getD s [])) := by
  induction k with
  | zero =>
    simp only [List.range_zero, List.map_nil, List.foldl_nil, List.filter_nil, Nat.not_lt_zero,
      false_and, if_false]
    rw [ps_range_map_getD]
  | succ k ih =>
    rw [List.range_succ, List.map_append, List.foldl_append, ih (by omega)]
    simp only [List.map_cons, List.map_nil, List.foldl_cons, List.foldl_nil]
    have hidx : Py.idx ((List.range rows0.length).map
         (fun s => if s < k ∧ psCB ownersL reach s = true then [] else rows0.getD s [])) (Int.ofNat k)
         = rows0.getD k [] := by
      rw [Int.ofNat_eq_natCast, idx_nat]
      have : k < rows0.length := by omega
      simp [this]
    unfold psStepF
    dsimp only
    rw [hidx]
    by_cases hc : Py.idx ownersL (Int.ofNat k) ≠ "Player 1" ∧ ¬ Int.ofNat k ∈ reach
    · rw [if_pos hc]
      have hcB : psCB ownersL reach k = true := by simpa [psCB] using hc
      refine Prod.ext ?_ ?_
      · simp [List.filter_append, hcB]
      · dsimp only
        unfold Py.setIdx
        rw [if_neg (by simp)]
        apply List.ext_getElem
        · simp
        · intro i h1 h2
          simp only [List.length_map, List.length_range] at h2
          have hto : (Int.ofNat k).toNat = k := rfl
          simp only [hto, List.getElem_set, List.getElem_map, List.getElem_range]
          by_cases hik : k = i
          · subst hik; simp [hcB]
          · have : (i < k + 1) ↔ i < k := by omega
            simp [hik, this]
    · rw [if_neg hc]
      have hcB : psCB ownersL reach k = false := by simpa [psCB] using hc
      have hd : (Py.idx ownersL (Int.ofNat k) = "Player 1" ∧ ¬ (rows0.getD k [] ≠ []) ∧ ¬ Int.ofNat k ∈ reach)
          ↔ psDB ownersL reach rows0 k = true := by
        simp [psDB, List.isEmpty_iff]
      refine Prod.ext ?_ ?_
      · dsimp only
        by_cases hdd : psDB ownersL reach rows0 k = true
        · rw [if_pos (hd.mpr hdd)]
          simp [List.filter_append, hcB, hdd]
        · rw [if_neg (fun h => hdd (hd.mp h))]
          simp [List.filter_append, hcB, hdd]
      · dsimp only
        apply List.map_congr_left
        intro i hi
        by_cases hik : i = k
        · subst hik; simp [hcB]
        · have : (i < k + 1) ↔ i < k := by omega
          simp [this]

/-! model side -/
def psTargets (nodes : Array (List (Tr Float))) : List Nat := 0 :: (nodes.toList.flatMap (fun row => row.map (·.tgt)))
def psCleared (owners : Array Owner) (nodes : Array (List (Tr Float))) (s : Nat) : Bool :=
  (owners.getD s .prob != .p1) && !((psTargets nodes).contains s)
def psDeadP1 (owners : Array Owner) (nodes : Array (List (Tr Float))) (s : Nat) : Bool :=
  (owners.getD s .prob == .p1) && (nodes.getD s []).isEmpty && !((psTargets nodes).contains s)

theorem pruneRound_eq (owners : Array Owner) (nodes : Array (List (Tr Float))) :
    pruneStatesRound owners nodes =
      (nodes.mapIdx (fun s row => if psCleared owners nodes s then [] else row),
       (List.range nodes.size).filter (fun s => psCleared owners nodes s || psDeadP1 owners nodes s)) := rfl

theorem ps_contains_map_ofNat (b : List Nat) (x : Nat) :
    (b.map Int.ofNat).contains (Int.ofNat x) = b.contains x := by
  rw [Bool.eq_iff_iff]
  simp only [List.contains_iff_mem, List.mem_map]
  constructor
  · rintro ⟨a, ha, h⟩
    have : a = x := Int.ofNat.inj h
    exact this ▸ ha
  · intro h; exact ⟨x, h, rfl⟩

theorem ps_sameSet_map (a b : List Nat) :
    Py.sameSet (a.map Int.ofNat) (b.map Int.ofNat) = sameSet a b := by
  unfold Py.sameSet sameSet
  simp only [List.all_map, Function.comp_def, ps_contains_map_ofNat]

theorem encRows_length (owners : Array Owner) (nodes : Array (List (Tr Float))) :
    (encRows owners nodes).length = nodes.size := by simp [encRows]

theorem encRows_getD (owners : Array Owner) (nodes : Array (List (Tr Float))) (s : Nat) (hs : s < nodes.size) :
    (encRows owners nodes).getD s [] = encRow (owners.getD s .prob) (nodes.getD s []) := by
  simp [encRows, hs]

theorem ps_idx_owners (owners : Array Owner) (s : Nat) (hs : s < owners.size) :
    Py.idx (owners.toList.map ownerStr') (s : Int) = ownerStr' (owners.getD s .prob) := by
  rw [idx_nat]
  simp [hs]

theorem ps_ownerStr'_p1 (o : Owner) : ownerStr' o = "Player 1" ↔ o = .p1 := by
  cases o <;> simp [ownerStr']

theorem psReachOf_eq (ownersL : List String) (rows : PSRows) :
    psReachOf ownersL rows = [0] ++ (List.range ownersL.length).flatMap (fun i => (rows.getD i []).map (·.2)) := by
  unfold psReachOf
  simp only [foldl_append_singleton]
  rw [foldl_flat (fun i => (Py.idx rows i).map (·.2))]
  simp [Py.range, Py.len, List.flatMap_map, idx_nat]
  rfl

theorem ps_mem_reach (owners : Array Owner) (nodes : Array (List (Tr Float))) (hsz : nodes.size = owners.size) (s : Nat) :
    (s : Int) ∈ psReachOf (owners.toList.map ownerStr') (encRows owners nodes) ↔ (psTargets nodes).contains s = true := by
  rw [psReachOf_eq]
  simp only [List.mem_append, List.not_mem_nil, or_false, List.mem_flatMap, List.mem_range, List.mem_map, psTargets,
    List.contains_iff_mem, List.mem_cons, List.length_map, Array.length_toList]
  constructor
  · rintro (h0 | ⟨i, hi, x, hx, hxs⟩)
    · left; omega
    · right
      rw [encRows_getD owners nodes i (by omega)] at hx
      obtain ⟨t, ht, rfl⟩ := List.mem_map.mp hx
      refine ⟨nodes.getD i [], ?_, t, ht, ?_⟩
      · have hi' : i < nodes.size := by omega
        simp [hi']
      · dsimp only at hxs; omega
  · rintro (h0 | ⟨row, hrow, t, ht, hts⟩)
    · left; omega
    · right
      obtain ⟨i, hi, rfl⟩ := List.mem_iff_getElem.mp hrow
      have hi' : i < nodes.size := by simpa using hi
      refine ⟨i, by omega, ?_⟩
      rw [encRows_getD owners nodes i hi']
      refine ⟨_, List.mem_map.mpr ⟨t, ?_, rfl⟩, ?_⟩
      · simpa [hi'] using ht
      · simp [hts]

theorem psCB_eq (owners : Array Owner) (nodes : Array (List (Tr Float))) (hsz : nodes.size = owners.size)
    (s : Nat) (hs : s < owners.size) :
    psCB (owners.toList.map ownerStr') (psReachOf (owners.toList.map ownerStr') (encRows owners nodes)) s
      = psCleared owners nodes s := by
  unfold psCB psCleared
  rw [Bool.eq_iff_iff]
  simp only [decide_eq_true_eq, ps_mem_reach owners nodes hsz s, ps_idx_owners owners s hs, ne_eq, ps_ownerStr'_p1,
    Bool.and_eq_true, bne_iff_ne, Bool.not_eq_true', Bool.not_eq_true]

theorem encRow_isEmpty (o : Owner) (row : List (Tr Float)) : (encRow o row).isEmpty = row.isEmpty := by
  cases row <;> rfl

theorem psDB_eq (owners : Array Owner) (nodes : Array (List (Tr Float))) (hsz : nodes.size = owners.size)
    (s : Nat) (hs : s < owners.size) :
    psDB (owners.toList.map ownerStr') (psReachOf (owners.toList.map ownerStr') (encRows owners nodes))
        (encRows owners nodes) s
      = psDeadP1 owners nodes s := by
  unfold psDB psDeadP1
  rw [Bool.eq_iff_iff]
  simp only [decide_eq_true_eq, ps_mem_reach owners nodes hsz s, ps_idx_owners owners s hs, ps_ownerStr'_p1,
    encRows_getD owners nodes s (by omega), encRow_isEmpty,
    Bool.and_eq_true, beq_iff_eq, Bool.not_eq_true', Bool.not_eq_true, and_assoc]

theorem prune_round (owners : Array Owner) (nodes : Array (List (Tr Float))) (hsz : nodes.size = owners.size)
    (fin : Bool) (prev : List Nat) :
    pruneBody (owners.toList.map ownerStr') (encRows owners nodes, fin, prev.map Int.ofNat)
      = (encRows owners (pruneStatesRound owners nodes).1,
         sameSet (pruneStatesRound owners nodes).2 prev,
         (pruneStatesRound owners nodes).2.map Int.ofNat) := by
  have hlen : (encRows owners nodes).length = owners.size := by rw [encRows_length, hsz]
  have hr : Py.range (Py.len (owners.toList.map ownerStr')) = (List.range (encRows owners nodes).length).map Int.ofNat := by
    simp [Py.range, Py.len, hlen]
  unfold pruneBody
  dsimp only
  rw [hr, fold_psStepF _ _ _ _ (Nat.le_refl _), pruneRound_eq]
  dsimp only
  have hL : (List.range (encRows owners nodes).length).filter
        (fun s => psCB (owners.toList.map ownerStr') (psReachOf (owners.toList.map ownerStr') (encRows owners nodes)) s
          || psDB (owners.toList.map ownerStr') (psReachOf (owners.toList.map ownerStr') (encRows owners nodes))
              (encRows owners nodes) s)
      = (List.range nodes.size).filter (fun s => psCleared owners nodes s || psDeadP1 owners nodes s) := by
    rw [hlen, hsz]
    apply List.filter_congr
    intro s hs
    have hs' : s < owners.size := by simpa using hs
    rw [psCB_eq owners nodes hsz s hs', psDB_eq owners nodes hsz s hs']
  rw [hL, ps_sameSet_map]
  refine Prod.ext ?_ (Prod.ext (by simp) rfl)
  dsimp only
  unfold encRows
  rw [List.length_map, List.length_range, Array.size_mapIdx]
  apply List.map_congr_left
  intro s hs
  have hs' : s < nodes.size := by simpa using hs
  have hs'' : s < owners.size := by omega
  have h1 := encRows_getD owners nodes s hs'
  unfold encRows at h1
  rw [h1]
  have h2 := psCB_eq owners nodes hsz s hs''
  unfold encRows at h2
  rw [h2]
  have h3 : (nodes.mapIdx (fun s row => if psCleared owners nodes s = true then [] else row)).getD s []
      = if psCleared owners nodes s = true then [] else nodes.getD s [] := by
    simp [hs']
  rw [h3]
  by_cases hc : psCleared owners nodes s = true
  · simp [hc, hs', encRow]
  · simp [hc]

theorem pruneRound_size (owners : Array Owner) (nodes : Array (List (Tr Float))) :
    (pruneStatesRound owners nodes).1.size = nodes.size := by
  rw [pruneRound_eq]; exact Array.size_mapIdx

theorem ps_whileFuel_done {σ : Type} (fuel : Nat) (c : σ → Bool) (body : σ → σ) (st : σ) (h : c st = false) :
    Py.whileFuel fuel c body st = some st := by
  cases fuel <;> simp [Py.whileFuel, h]

theorem prune_loop (owners : Array Owner) (fuel : Nat) :
    ∀ (prev : List Nat) (nodes nodes' : Array (List (Tr Float))), nodes.size = owners.size →
      pruneStates owners fuel prev nodes = .ok nodes' →
      (Py.whileFuel fuel (fun st => decide (¬ (st.2.1 = true))) (pruneBody (owners.toList.map ownerStr'))
          (encRows owners nodes, false, prev.map Int.ofNat)).map (·.1) = some (encRows owners nodes') := by
  induction fuel with
  | zero =>
    intro prev nodes nodes' _ h
    simp [pruneStates] at h
  | succ fuel ih =>
    intro prev nodes nodes' hsz h
    unfold pruneStates at h
    dsimp only at h
    rw [Py.whileFuel, if_pos (by simp), prune_round owners nodes hsz]
    by_cases hs : sameSet (pruneStatesRound owners nodes).2 prev = true
    · rw [if_pos hs] at h
      rw [ps_whileFuel_done _ _ _ _ (by simp [hs])]
      simp only [Option.map_some, Option.some.injEq]
      injection h with h
      rw [h]
    · rw [if_neg hs] at h
      have hs' : sameSet (pruneStatesRound owners nodes).2 prev = false := by simpa using hs
      rw [hs']
      exact ih _ _ _ (by rw [pruneRound_size, hsz]) h

theorem prune_states_tie (owners : Array Owner) (nodes nodes' : Array (List (Tr Float))) (fuel : Nat)
    (hsz : nodes.size = owners.size)
    (h : pruneStates owners fuel [] nodes = .ok nodes') :
    Ex.Tad.Solver_prune_states fuel (owners.toList.map ownerStr') (encRows owners nodes)
      = some (encRows owners nodes') := by
  rw [prune_states_unfold]
  exact prune_loop owners fuel [] nodes nodes' hsz h

/-- the hypotheses of `prune_states_tie` hold on a concrete 5-state game (three rounds clear the states
1, 2, 3; a fourth round sees the same set) -/
def exOwners5 : Array Owner := #[.p1, .prob, .p2, .prob, .p1]
def exNodes5 : Array (List (Tr Float)) :=
  #[[⟨"a", 0, 0⟩], [⟨"", 1, 2⟩], [⟨"x", 0, 3⟩], [⟨"", 1, 0⟩], []]

example : exNodes5.size = exOwners5.size ∧
    pruneStates exOwners5 5 [] exNodes5 = .ok #[[⟨"a", 0, 0⟩], [], [], [], []] := ⟨rfl, rfl⟩

end CR.Tie
