/-
Transfer of property theorems from the hand-written model to the mechanically translated code.

Every theorem below is about a definition of CR/Extracted/*.lean (namespaces `CR.Ex.Gen`, `CR.Ex.Tad`:
the output of `harness/py2lean.py`, regenerated from /repo on every run).  Each one is obtained by rewriting
with a tie theorem of CR/Tie/Gen.lean, CR/Tie/Gen2.lean or CR/Tie/Tad.lean and then applying a theorem
already proved about the model (CR/Props/C*.lean, or the generic lemma of CR/Lemmas/*.lean that the property
file itself applies).  The docstring of each theorem names the model theorem it transfers.

Only theorems over an arbitrary carrier (instantiated here at `Float`) or about
`Nat`/`Int`/`String`/`Float`-by-kernel-evaluation transfer: `Float` is not an ordered field.
-/
import CR.Tie.Basic
import CR.Tie.Tad
import CR.Props.C03
import CR.Props.C04

namespace CR.Tie
open CR CR.Gen

/-! ## C03: conditioning, row by row

`dead reach t` : the successor of `t` has reachability value `== 0`; `keptMass reach row` : the sum of the
surviving probabilities as Python's `sum` computes it; `condProb`, `condRow` : the conditioned rows in whose
terms `CR.Props.C03` is stated (all from CR/Lemmas/Prune.lean, generic in the carrier).  The translated
`ProbabilisticNode_prune_paths` has no `ZeroDivisionError` branch, so its theorems carry the hypothesis that
the model's `prunePathsProb` returns `.ok` (`prob_prune_paths_tie`). -/

section Prune

/-- the two pruning steps of a Player 1 row (`prune_paths_reachability`, then `prune_paths`) keep, in the
original order, the transitions whose action is in the strategy and whose successor is not dead -/
theorem code_p1_prune_eq (row : List (Tr Float)) (strat : List String) (reach : Array Float) :
    Ex.Tad.PlayerOne_prune_paths (Ex.Tad.PlayerOne_prune_paths_reachability (row.map encA) strat) reach.toList
      = ((row.filter (fun t => strat.contains t.act)).filter (fun t => !dead reach t)).map encA := by
  rw [p1_prune_reachability_tie, p1_prune_paths_tie]
  rfl

/-- transfers the row content of `C03.p1_survivors`: what the code keeps of a Player 1 row is a sub-list
(original order) of the row, and a transition is kept iff it is in the row, its action is in the strategy and
its successor's reachability value is not `== 0` -/
theorem code_p1_survivors (row : List (Tr Float)) (strat : List String) (reach : Array Float) :
    (Ex.Tad.PlayerOne_prune_paths (Ex.Tad.PlayerOne_prune_paths_reachability (row.map encA) strat)
        reach.toList).Sublist (row.map encA) ∧
    ∀ x, x ∈ Ex.Tad.PlayerOne_prune_paths (Ex.Tad.PlayerOne_prune_paths_reachability (row.map encA) strat)
          reach.toList
      ↔ x ∈ row.map encA ∧ x.1 ∈ strat ∧ (Py.idx reach.toList x.2 == (0 : Float)) = false := by
  rw [code_p1_prune_eq]
  refine ⟨(List.Sublist.trans List.filter_sublist List.filter_sublist).map encA, fun x => ?_⟩
  simp only [List.mem_map, List.mem_filter, List.contains_eq_mem, decide_eq_true_eq, Bool.not_eq_true', dead]
  constructor
  · rintro ⟨t, ⟨⟨ht, hs⟩, hd⟩, rfl⟩
    exact ⟨⟨t, ht, rfl⟩, hs, by simpa only [encA, idx_arr] using hd⟩
  · rintro ⟨⟨t, ht, rfl⟩, hs, hd⟩
    exact ⟨t, ⟨⟨ht, hs⟩, by simpa only [encA, idx_arr] using hd⟩, rfl⟩

/-- in the vocabulary of `CR.Props.C03`: on a Player 1 state the code computes `condRow` (`condRow_p1`) -/
theorem code_p1_condRow {g : Game Float} {strat : Array Strat} {reach : Array Float} {s : Nat}
    (ho : g.owners.getD s .prob = .p1) :
    Ex.Tad.PlayerOne_prune_paths
        (Ex.Tad.PlayerOne_prune_paths_reachability ((g.tl.getD s []).map encA) ((strat.getD s none).getD []))
        reach.toList
      = (condRow g strat reach s).map encA := by
  rw [code_p1_prune_eq, condRow_p1 ho]

/-- the code's `prune_paths` of a probabilistic row is `condProb` (`prunePathsProb_ok`) -/
theorem code_prob_prune_condProb (row : List (Tr Float)) (reach : Array Float) {row' : List (Tr Float)}
    (h : prunePathsProb reach row = .ok row') :
    Ex.Tad.ProbabilisticNode_prune_paths (row.map encP) reach.toList = (condProb reach row).map encP := by
  rw [prob_prune_paths_tie row reach h, prunePathsProb_ok h]

/-- in the vocabulary of `CR.Props.C03`: on a probabilistic state the code computes `condRow` (`condRow_prob`) -/
theorem code_prob_condRow {g : Game Float} {strat : Array Strat} {reach : Array Float} {s : Nat}
    (ho : g.owners.getD s .prob = .prob) {row' : List (Tr Float)}
    (h : prunePathsProb reach (g.tl.getD s []) = .ok row') :
    Ex.Tad.ProbabilisticNode_prune_paths ((g.tl.getD s []).map encP) reach.toList
      = (condRow g strat reach s).map encP := by
  rw [code_prob_prune_condProb _ _ h, condRow_prob ho]

/-- transfers the carrier-generic part of `C03.prob_survivors_of_removed` (the shape of `condProb`): if no
successor is dead the code returns the row unchanged; otherwise it returns the live transitions, in their
original order and with their original targets, each carrying its original probability divided by the total
surviving probability; in both cases the targets are those of the live transitions, in order -/
theorem code_prob_survivors (row : List (Tr Float)) (reach : Array Float) {row' : List (Tr Float)}
    (h : prunePathsProb reach row = .ok row') :
    ((row.filter (fun t => !dead reach t)).length = row.length →
      Ex.Tad.ProbabilisticNode_prune_paths (row.map encP) reach.toList = row.map encP) ∧
    ((row.filter (fun t => !dead reach t)).length ≠ row.length →
      Ex.Tad.ProbabilisticNode_prune_paths (row.map encP) reach.toList
        = (row.filter (fun t => !dead reach t)).map (fun t => (t.p / keptMass reach row, (t.tgt : Int)))) ∧
    (Ex.Tad.ProbabilisticNode_prune_paths (row.map encP) reach.toList).map (·.2)
      = (row.filter (fun t => !dead reach t)).map (fun t => (t.tgt : Int)) := by
  rw [code_prob_prune_condProb row reach h]
  unfold condProb
  by_cases hl : (row.filter (fun t => !dead reach t)).length = row.length
  · rw [if_pos hl]
    refine ⟨fun _ => rfl, fun hne => absurd hl hne, ?_⟩
    rw [List.filter_eq_self.2 (List.length_filter_eq_length_iff.1 hl), List.map_map]
    rfl
  · rw [if_neg hl]
    refine ⟨fun he => absurd he hl, fun _ => ?_, ?_⟩
    · rw [List.map_map]; rfl
    · rw [List.map_map, List.map_map]; rfl

/-- transfers the row content of `C03.no_dead_successor` for probabilistic rows: no transition kept by the code
leads to a state whose reachability value is `== 0` -/
theorem code_prob_no_dead (row : List (Tr Float)) (reach : Array Float) {row' : List (Tr Float)}
    (h : prunePathsProb reach row = .ok row') :
    ∀ x ∈ Ex.Tad.ProbabilisticNode_prune_paths (row.map encP) reach.toList,
      (Py.idx reach.toList x.2 == (0 : Float)) = false := by
  intro x hx
  have hm : x.2 ∈ (Ex.Tad.ProbabilisticNode_prune_paths (row.map encP) reach.toList).map (·.2) :=
    List.mem_map_of_mem (f := fun x : Float × Int => x.2) hx
  rw [(code_prob_survivors row reach h).2.2] at hm
  obtain ⟨t, ht, hxt⟩ := List.mem_map.1 hm
  have hd := (List.mem_filter.1 ht).2
  rw [← hxt, idx_arr]
  simpa [dead] using hd

/-- transfers `condRow_no_dead`, the lemma `C03.no_dead_successor` applies: on a Player 1 or probabilistic state
of a game, no transition kept by the code leads to a dead state -/
theorem code_no_dead_successor {g : Game Float} {strat : Array Strat} {reach : Array Float} {s : Nat} :
    (g.owners.getD s .prob = .p1 →
      ∀ x ∈ Ex.Tad.PlayerOne_prune_paths
          (Ex.Tad.PlayerOne_prune_paths_reachability ((g.tl.getD s []).map encA) ((strat.getD s none).getD []))
          reach.toList, (Py.idx reach.toList x.2 == (0 : Float)) = false) ∧
    (g.owners.getD s .prob = .prob → ∀ row', prunePathsProb reach (g.tl.getD s []) = .ok row' →
      ∀ x ∈ Ex.Tad.ProbabilisticNode_prune_paths ((g.tl.getD s []).map encP) reach.toList,
        (Py.idx reach.toList x.2 == (0 : Float)) = false) := by
  constructor
  · intro ho x hx
    rw [code_p1_condRow ho] at hx
    obtain ⟨t, ht, rfl⟩ := List.mem_map.1 hx
    have := condRow_no_dead (by rw [ho]; decide) ht
    simpa only [encA, idx_arr, dead] using this
  · intro ho row' h x hx
    rw [code_prob_condRow (strat := strat) ho h] at hx
    obtain ⟨t, ht, rfl⟩ := List.mem_map.1 hx
    have := condRow_no_dead (by rw [ho]; decide) ht
    simpa only [encP, idx_arr, dead] using this

/-- transfers `condRow_keeps_live`, the lemma `C03.live_transition_kept` applies: no transition between
positive-probability states is lost — every transition of the row whose successor is not dead (and, for
Player 1, whose action is in the strategy) is still there after the code's pruning, with its action (Player 1)
and target -/
theorem code_live_transition_kept {g : Game Float} {strat : Array Strat} {reach : Array Float} {s : Nat}
    {t : Tr Float} (ht : t ∈ g.tl.getD s []) (hlive : dead reach t = false) :
    (g.owners.getD s .prob = .p1 → ((strat.getD s none).getD []).contains t.act = true →
      encA t ∈ Ex.Tad.PlayerOne_prune_paths
          (Ex.Tad.PlayerOne_prune_paths_reachability ((g.tl.getD s []).map encA) ((strat.getD s none).getD []))
          reach.toList) ∧
    (g.owners.getD s .prob = .prob → ∀ row', prunePathsProb reach (g.tl.getD s []) = .ok row' →
      (t.tgt : Int) ∈ (Ex.Tad.ProbabilisticNode_prune_paths ((g.tl.getD s []).map encP) reach.toList).map
        (·.2)) := by
  constructor
  · intro ho hperm
    rw [code_p1_condRow ho]
    obtain ⟨t', ht', ha, hg⟩ := condRow_keeps_live (strat := strat) ht hlive (fun _ => hperm)
    exact List.mem_map.2 ⟨t', ht', by simp only [encA, ha, hg]⟩
  · intro ho row' h
    rw [code_prob_condRow (strat := strat) ho h]
    obtain ⟨t', ht', -, hg⟩ := condRow_keeps_live (strat := strat) ht hlive
      (fun h1 => by rw [ho] at h1; cases h1)
    exact List.mem_map.2 ⟨encP t', List.mem_map_of_mem ht', by simp only [encP, hg]⟩

/-- the `.ok` hypothesis is satisfiable with a row that is renormalised: one dead successor (state 0) out of
two, the survivor's probability `0.5` becomes `0.5 / 0.5` -/
example : (prunePathsProb (α := Float) #[0, 0.5] [⟨"", 0.5, 0⟩, ⟨"", 0.5, 1⟩]).toBool = true := by
  decide +kernel
example : ∃ row', prunePathsProb (α := Float) #[0, 0.5] [⟨"", 0.5, 0⟩, ⟨"", 0.5, 1⟩] = .ok row' := by
  cases h : prunePathsProb (α := Float) #[0, 0.5] [⟨"", 0.5, 0⟩, ⟨"", 0.5, 1⟩] with
  | ok r => exact ⟨r, rfl⟩
  | error e =>
    have : (prunePathsProb (α := Float) #[0, 0.5] [⟨"", 0.5, 0⟩, ⟨"", 0.5, 1⟩]).toBool = true := by
      decide +kernel
    rw [h] at this
    cases this

end Prune

/-! ## C04 / C05: strategies of a row

`RndAgree rnd2 d rndI` (CR/Tie/Tad.lean, satisfiable: see the example there and `rndAgree_two_valued` below) is
the only link between Python's `round(x, d)` and the scaled integer `rndI` of the model: both order rounded
values, and compare them with the literals 0 and 1, in the same way. -/

section Strategies
variable {rnd2 : Float → Int → Float} {d : Int} {rndI : Float → Int}

/-- transfers `C04.bestStrat_eq_filter` (C04.1): the reachability strategy the code computes for a Player 1 row
is exactly the list, in transition order, of the actions whose successor has the largest ROUNDED value (the
maximum being clamped below by the literal 0) -/
theorem code_best_strat_reach_argmax (h : RndAgree rnd2 d rndI) (vals : Array Float) (row : List (Tr Float)) :
    Ex.Tad.PlayerOne_get_best_strategies_reachability rnd2 (row.map encA) vals.toList d
      = (row.filter (fun t => rndI (vals.getD t.tgt 0) ==
          row.foldl (fun m t => max m (rndI (vals.getD t.tgt 0))) 0)).map (·.act) := by
  rw [← best_strat_reach_tie h]
  exact C04.bestStrat_eq_filter rndI vals row

/-- transfers `C04.bestStrat_eq_nil_iff`: the code returns no action iff every rounded successor value is
negative (or the row is empty) -/
theorem code_best_strat_reach_nil_iff (h : RndAgree rnd2 d rndI) (vals : Array Float) (row : List (Tr Float)) :
    Ex.Tad.PlayerOne_get_best_strategies_reachability rnd2 (row.map encA) vals.toList d = []
      ↔ ∀ t ∈ row, rndI (vals.getD t.tgt 0) < 0 := by
  rw [← best_strat_reach_tie h]
  exact C04.bestStrat_eq_nil_iff rndI vals row

/-- transfers `C04.worstStratFrom_eq_filter` (C04.2): the reachability strategy the code computes for a
Player 2 row is exactly the list, in transition order, of the actions whose successor has the smallest ROUNDED
value (the minimum being clamped above by the rounded literal 1) -/
theorem code_worst_strat_reach_argmin (h : RndAgree rnd2 d rndI) (vals : Array Float) (row : List (Tr Float)) :
    Ex.Tad.PlayerTwo_get_worst_strategies_reachability rnd2 (row.map encA) vals.toList d
      = (row.filter (fun t => rndI (vals.getD t.tgt 0) ==
          row.foldl (fun m t => min m (rndI (vals.getD t.tgt 0))) (rndI 1))).map (·.act) := by
  rw [← worst_strat_reach_tie h]
  exact C04.worstStratFrom_eq_filter rndI (rndI 1) vals row

/-- transfers the row content of `C05.final_argmax_reported`, Player 1 (`bestStrat_eq`): the reward strategy
the code computes for a Player 1 row lists exactly the actions with the largest rounded expected reward -/
theorem code_best_strat_rew_argmax (h : RndAgree rnd2 d rndI) (vals : Array Float) (row : List (Tr Float)) :
    Ex.Tad.PlayerOne_get_best_strategies_total_rewards rnd2 (row.map encA) vals.toList d
      = (row.filter (fun t => rndI (vals.getD t.tgt 0) ==
          row.foldl (fun m t => max m (rndI (vals.getD t.tgt 0))) 0)).map (·.act) := by
  rw [← best_strat_rew_tie h]
  exact C04.bestStrat_eq_filter rndI vals row

/-- transfers `C04.worstStratRew_eq_filter` (C04.3; the row content of `C05.final_argmax_reported`, Player 2):
on a non-empty row the reward strategy the code computes for Player 2 lists exactly the actions with the
smallest rounded expected reward (a minimum that is attained: no clamp), and it is not empty -/
theorem code_worst_strat_rew_argmin (h : RndAgree rnd2 d rndI) (vals : Array Float) (t0 : Tr Float)
    (rest : List (Tr Float)) :
    Ex.Tad.PlayerTwo_get_worst_strategies_total_rewards rnd2 ((t0 :: rest).map encA) vals.toList d
      = ((t0 :: rest).filter (fun t => rndI (vals.getD t.tgt 0) ==
          (t0 :: rest).foldl (fun m t => min m (rndI (vals.getD t.tgt 0)))
            (rndI (vals.getD t0.tgt 0)))).map (·.act) ∧
    (∀ t ∈ t0 :: rest,
      (t0 :: rest).foldl (fun m t => min m (rndI (vals.getD t.tgt 0))) (rndI (vals.getD t0.tgt 0))
        ≤ rndI (vals.getD t.tgt 0)) ∧
    (∃ t ∈ t0 :: rest, rndI (vals.getD t.tgt 0) =
      (t0 :: rest).foldl (fun m t => min m (rndI (vals.getD t.tgt 0))) (rndI (vals.getD t0.tgt 0))) ∧
    Ex.Tad.PlayerTwo_get_worst_strategies_total_rewards rnd2 ((t0 :: rest).map encA) vals.toList d ≠ [] := by
  rw [← worst_strat_rew_tie h]
  exact C04.worstStratRew_eq_filter rndI vals t0 rest

/-- transfers the row content of `C04.strat_shape` / `C05.final_shape` (`bestStrat_sublist`,
`worstStratFrom_sublist`, `worstStratRew_sublist`): each of the four strategies is a sub-list, in transition
order, of the actions of the row -/
theorem code_strat_sublist (h : RndAgree rnd2 d rndI) (vals : Array Float) (row : List (Tr Float)) :
    (Ex.Tad.PlayerOne_get_best_strategies_reachability rnd2 (row.map encA) vals.toList d).Sublist
        (row.map (·.act)) ∧
    (Ex.Tad.PlayerTwo_get_worst_strategies_reachability rnd2 (row.map encA) vals.toList d).Sublist
        (row.map (·.act)) ∧
    (Ex.Tad.PlayerOne_get_best_strategies_total_rewards rnd2 (row.map encA) vals.toList d).Sublist
        (row.map (·.act)) ∧
    (Ex.Tad.PlayerTwo_get_worst_strategies_total_rewards rnd2 (row.map encA) vals.toList d).Sublist
        (row.map (·.act)) := by
  rw [← best_strat_reach_tie h, ← worst_strat_reach_tie h, ← best_strat_rew_tie h, ← worst_strat_rew_tie h]
  exact ⟨bestStrat_sublist rndI vals row, worstStratFrom_sublist rndI _ vals row,
    bestStrat_sublist rndI vals row, worstStratRew_sublist rndI vals row⟩

/-- transfers the row content of `C04.strat_nonempty_p1` / `C04.strat_nonempty_p2` (`bestStrat_ne_nil`,
`worstStratFrom_ne_nil`): on a non-empty row without negative rounded value (Player 1), resp. without rounded
value above the rounded 1 (Player 2), the reachability strategy is not empty -/
theorem code_strat_reach_nonempty (h : RndAgree rnd2 d rndI) (vals : Array Float) (row : List (Tr Float))
    (hne : row ≠ []) :
    ((∀ t ∈ row, 0 ≤ rndI (vals.getD t.tgt 0)) →
      Ex.Tad.PlayerOne_get_best_strategies_reachability rnd2 (row.map encA) vals.toList d ≠ []) ∧
    ((∀ t ∈ row, rndI (vals.getD t.tgt 0) ≤ rndI 1) →
      Ex.Tad.PlayerTwo_get_worst_strategies_reachability rnd2 (row.map encA) vals.toList d ≠ []) := by
  rw [← best_strat_reach_tie h, ← worst_strat_reach_tie h]
  exact ⟨bestStrat_ne_nil rndI vals row hne, worstStratFrom_ne_nil rndI _ vals row hne⟩

end Strategies

/-- `RndAgree` is satisfiable (the two-valued rounding of the example in CR/Tie/Tad.lean) -/
theorem rndAgree_two_valued :
    RndAgree (fun x _ => if x < 0.5 then 0 else 1) 6 (fun x => if x < 0.5 then 0 else 1) := by
  have f00 : ¬ (0 : Float) < 0 := by decide +kernel
  have f01 : (0 : Float) < 1 := by decide +kernel
  have f10 : ¬ (1 : Float) < 0 := by decide +kernel
  have f11 : ¬ (1 : Float) < 1 := by decide +kernel
  have e00 : ((0 : Float) == 0) = true := by decide +kernel
  have e01 : ((0 : Float) == 1) = false := by decide +kernel
  have e10 : ((1 : Float) == 0) = false := by decide +kernel
  have e11 : ((1 : Float) == 1) = true := by decide +kernel
  have h1 : ¬ (1 : Float) < 0.5 := by decide +kernel
  constructor
  · intro x y; by_cases hx : x < 0.5 <;> by_cases hy : y < 0.5 <;> simp [hx, hy, f00, f01, f10, f11]
  · intro x y; by_cases hx : x < 0.5 <;> by_cases hy : y < 0.5 <;> simp [hx, hy, e00, e01, e10, e11]
  · intro x; by_cases hx : x < 0.5 <;> simp [hx, f00, f01]
  · intro x; by_cases hx : x < 0.5 <;> simp [hx, e00, e10]
  · intro x; by_cases hx : x < 0.5 <;> simp [hx, h1, f01, f11]
  · intro x; by_cases hx : x < 0.5 <;> simp [hx, h1, e01, e11]

/-- an instance: under the two-valued rounding the code's Player 1 strategy on a three-action row whose
successors have values 0.9, 0.2, 0.7 is `["a", "c"]` -/
example : Ex.Tad.PlayerOne_get_best_strategies_reachability (fun x _ => if x < 0.5 then 0 else 1)
    (([⟨"a", 0, 0⟩, ⟨"b", 0, 1⟩, ⟨"c", 0, 2⟩] : List (Tr Float)).map encA) (#[0.9, 0.2, 0.7] : Array Float).toList 6
    = ["a", "c"] := by
  rw [code_best_strat_reach_argmax rndAgree_two_valued]
  decide +kernel

end CR.Tie
