/-
Transfer of property theorems from the hand-written model to the mechanically translated code.

Every theorem below is about a definition of CR/Extracted/*.lean (namespaces `CR.Ex.Gen`, `CR.Ex.Tad`:
the output of `harness/py2lean.py`, regenerated from /repo on every run).  Each one is obtained by rewriting
with a tie theorem of CR/Tie/Gen.lean, CR/Tie/Gen2.lean or CR/Tie/Tad.lean and then applying a theorem
already proved about the model (CR/Props/C*.lean, or the generic lemma of CR/Lemmas/*.lean that the property
file itself applies).  The docstring of each theorem names the model theorem it transfers.

Only theorems over an arbitrary carrier (instantiated here at `Float`) or about
`Nat`/`Int`/`String`/`Float`-by-kernel-evaluation transfer: `Float` is not an ordered field.
-/
import CR.Tie.Basic
import CR.Tie.Gen
import CR.Tie.Gen2
import CR.Props.C03
import CR.Props.C04
import CR.Props.C08
import CR.Props.C15
import CR.Props.C17

namespace CR.Tie
open CR CR.Gen

/-! ## C17: file names state the parameters -/

/-- transfers `C17.percent_exact`: the code prints every whole percentage `k/100` exactly as `k` -/
theorem code_percent_exact (k : Nat) (h1 : 1 ≤ k) (h2 : k ≤ 99) :
    Ex.Gen.prob_to_str (Float.ofNat k / 100) = toString k := by
  rw [prob_to_str_tie]
  unfold probToStr
  rw [C17.percent_exact k h1 h2]

/-- transfers `C17.name_states_params`: the file name assembled by the code shows whole-percent probabilities
as their percentage -/
theorem code_name_states_params (seed w l m k1 k2 k3 k4 : Nat) (fd : Bool)
    (h1 : 1 ≤ k1 ∧ k1 ≤ 99) (h2 : 1 ≤ k2 ∧ k2 ≤ 99) (h3 : 1 ≤ k3 ∧ k3 ≤ 99) (h4 : 1 ≤ k4 ∧ k4 ≤ 99) :
    Ex.Gen.main_file_name seed w l m (Float.ofNat k1 / 100) (Float.ofNat k2 / 100) (Float.ofNat k3 / 100)
        (Float.ofNat k4 / 100) fd
      = fileNameN seed w l m k1 k2 k3 k4 fd := by
  rw [main_file_name_tie]
  exact C17.name_states_params seed w l m k1 k2 k3 k4 fd h1 h2 h3 h4

/-- transfers `C17.name_injective_percent`: two whole-percent parameter sets for which the code assembles the
same file name are equal (including the `force_down` flag) -/
theorem code_name_injective_percent {s w l m a b c d s' w' l' m' a' b' c' d' : Nat} {fd fd' : Bool}
    (ha : 1 ≤ a ∧ a ≤ 99) (hb : 1 ≤ b ∧ b ≤ 99) (hc : 1 ≤ c ∧ c ≤ 99) (hd : 1 ≤ d ∧ d ≤ 99)
    (ha' : 1 ≤ a' ∧ a' ≤ 99) (hb' : 1 ≤ b' ∧ b' ≤ 99) (hc' : 1 ≤ c' ∧ c' ≤ 99) (hd' : 1 ≤ d' ∧ d' ≤ 99)
    (h : Ex.Gen.main_file_name s w l m (Float.ofNat a / 100) (Float.ofNat b / 100) (Float.ofNat c / 100)
          (Float.ofNat d / 100) fd
        = Ex.Gen.main_file_name s' w' l' m' (Float.ofNat a' / 100) (Float.ofNat b' / 100)
          (Float.ofNat c' / 100) (Float.ofNat d' / 100) fd') :
    s = s' ∧ w = w' ∧ l = l' ∧ m = m' ∧ a = a' ∧ b = b' ∧ c = c' ∧ d = d' ∧ fd = fd' := by
  rw [main_file_name_tie, main_file_name_tie] at h
  exact C17.name_injective_percent ha hb hc hd ha' hb' hc' hd' h

/-- the code on the documented example call -/
example : Ex.Gen.main_file_name 47 5 5 6 (Float.ofNat 29 / 100) (Float.ofNat 57 / 100) (Float.ofNat 58 / 100)
    (Float.ofNat 1 / 100) true = "inputs/robot_47_w5_l5_r6_rb29_lb57_tb58_lt1_force_down.py" :=
  (code_name_states_params 47 5 5 6 29 57 58 1 true (by decide) (by decide) (by decide) (by decide)).trans
    (by decide +kernel)

/-! ## C15: `check_input` accepts exactly the documented ranges -/

/-- the code's verdict is the model's -/
theorem code_check_input_of_none {seed w l : Int} {pr plt plo pti : Float} {m : Int}
    (h : checkInput seed w l pr plt plo pti m = none) :
    Ex.Gen.check_input seed w l pr plt plo pti m = Except.ok () := by
  rw [check_input_tie, h]

theorem code_check_input_of_some {seed w l : Int} {pr plt plo pti : Float} {m : Int} {k : Nat}
    (h : checkInput seed w l pr plt plo pti m = some k) :
    Ex.Gen.check_input seed w l pr plt plo pti m = Except.error (checkInputMsg k) := by
  rw [check_input_tie, h]

theorem code_check_input_ok_iff_model (seed w l : Int) (pr plt plo pti : Float) (m : Int) :
    Ex.Gen.check_input seed w l pr plt plo pti m = Except.ok ()
      ↔ checkInput seed w l pr plt plo pti m = none := by
  rw [check_input_tie]
  cases checkInput seed w l pr plt plo pti m <;> simp

/-- transfers `C15.check_input_iff` (with `C15.prob_check_iff`): the code accepts a parameter set iff every
documented range holds: seed ≥ 0, width > 0, length > 0, max_reward > 0 and no probability is `≤ 0` or `≥ 1`
(IEEE comparisons: a NaN passes, as in Python) -/
theorem code_check_input_ok_iff (seed w l : Int) (pr plt plo pti : Float) (m : Int) :
    Ex.Gen.check_input seed w l pr plt plo pti m = Except.ok () ↔
      (0 ≤ seed ∧ 0 < w ∧ 0 < l ∧ (¬ pr ≤ 0 ∧ ¬ pr ≥ 1) ∧ (¬ plt ≤ 0 ∧ ¬ plt ≥ 1) ∧
        (¬ plo ≤ 0 ∧ ¬ plo ≥ 1) ∧ (¬ pti ≤ 0 ∧ ¬ pti ≥ 1) ∧ 0 < m) := by
  rw [code_check_input_ok_iff_model, C15.check_input_iff, C15.prob_check_iff, C15.prob_check_iff,
    C15.prob_check_iff, C15.prob_check_iff]

/-- the model only reports one of the eight checks -/
theorem checkInput_lt_eight {seed w l : Int} {pr plt plo pti : Float} {m : Int} {k : Nat}
    (h : checkInput seed w l pr plt plo pti m = some k) : k < 8 := by
  unfold checkInput at h
  split_ifs at h <;> cases h <;> decide

/-- a refused parameter set yields `Except.error` (Python: `ValueError`) of one of the eight messages -/
theorem code_check_input_refused (seed w l : Int) (pr plt plo pti : Float) (m : Int)
    (h : Ex.Gen.check_input seed w l pr plt plo pti m ≠ Except.ok ()) :
    ∃ k < 8, checkInput seed w l pr plt plo pti m = some k ∧
      Ex.Gen.check_input seed w l pr plt plo pti m = Except.error (checkInputMsg k) := by
  cases hc : checkInput seed w l pr plt plo pti m with
  | none => exact absurd (code_check_input_of_none hc) h
  | some k => exact ⟨k, checkInput_lt_eight hc, rfl, code_check_input_of_some hc⟩

/-- the eight messages are pairwise different, so the message identifies the failed check -/
theorem checkInputMsg_injective : ∀ i < 8, ∀ j < 8, checkInputMsg i = checkInputMsg j → i = j := by
  decide

/-- transfers `C15.check_input_first`: when several checks fail the code reports the first one in the
documented order (seed, width, length, robot, light, loose-tile, tile-break probability, max reward) -/
theorem code_check_input_first (seed w l : Int) (pr plt plo pti : Float) (m : Int) :
    let r := Ex.Gen.check_input seed w l pr plt plo pti m
    (seed < 0 → r = .error "The seed must be a nonnegative integer") ∧ (0 ≤ seed →
    (w ≤ 0 → r = .error "The width must be a positive integer") ∧ (0 < w →
    (l ≤ 0 → r = .error "The length must be a positive integer") ∧ (0 < l →
    ((pr ≤ 0 || pr ≥ 1) = true →
      r = .error "The failure probability of the robot must be a float in (0,1)") ∧
    ((pr ≤ 0 || pr ≥ 1) = false →
    ((plt ≤ 0 || plt ≥ 1) = true →
      r = .error "The failure probability of the light must be a float in (0,1)") ∧
    ((plt ≤ 0 || plt ≥ 1) = false →
    ((plo ≤ 0 || plo ≥ 1) = true →
      r = .error "The probability of a tile being loose must be a float in (0,1)") ∧
    ((plo ≤ 0 || plo ≥ 1) = false →
    ((pti ≤ 0 || pti ≥ 1) = true →
      r = .error "The probability of a tile breaking must be a float in (0,1)") ∧
    ((pti ≤ 0 || pti ≥ 1) = false →
    (m ≤ 0 → r = .error "The maximum reward must be a positive integer") ∧
    (0 < m → r = .ok ())))))))) := by
  intro r
  obtain ⟨f0, g0⟩ := C15.check_input_first seed w l pr plt plo pti m
  refine ⟨fun h => code_check_input_of_some (f0 h), fun h0 => ?_⟩
  obtain ⟨f1, g1⟩ := g0 h0
  refine ⟨fun h => code_check_input_of_some (f1 h), fun h1 => ?_⟩
  obtain ⟨f2, g2⟩ := g1 h1
  refine ⟨fun h => code_check_input_of_some (f2 h), fun h2 => ?_⟩
  obtain ⟨f3, g3⟩ := g2 h2
  refine ⟨fun h => code_check_input_of_some (f3 h), fun h3 => ?_⟩
  obtain ⟨f4, g4⟩ := g3 h3
  refine ⟨fun h => code_check_input_of_some (f4 h), fun h4 => ?_⟩
  obtain ⟨f5, g5⟩ := g4 h4
  refine ⟨fun h => code_check_input_of_some (f5 h), fun h5 => ?_⟩
  obtain ⟨f6, g6⟩ := g5 h5
  refine ⟨fun h => code_check_input_of_some (f6 h), fun h6 => ?_⟩
  obtain ⟨f7, g7⟩ := g6 h6
  exact ⟨fun h => code_check_input_of_some (f7 h), fun h7 => code_check_input_of_none (g7 h7)⟩

/-- the documented example call is accepted, a light-failure probability of 1 is refused with the fifth
message even though the loose-tile probability and the maximum reward are out of range as well -/
example : Ex.Gen.check_input 47 5 5 0.1 0.1 0.3 0.1 6 = Except.ok () :=
  code_check_input_of_none (by decide +kernel)
example : Ex.Gen.check_input 47 5 5 0.1 1.0 0.0 0.1 0
    = Except.error "The failure probability of the light must be a float in (0,1)" :=
  code_check_input_of_some (k := 4) (by decide +kernel)

/-! ## C08 / C11: the three generated games

`codeGame v` is the tuple `(rewards, players, transition_list, final_states)` returned by the translated
`write_robot_A/B/C`; its components are `.1`, `.2.1`, `.2.2.1`, `.2.2.2`. -/

section Games
open CR.Roborta CR.GridLemmas

/-- the code's generator of a variant -/
def codeGame (v : Variant) (L W : Nat) (b : Board) (q : Params Float) :
    List Int × List String × List (List (Py.Slot × Int)) × List Int :=
  match v with
  | .A => Ex.Gen.write_robot_A L W (encM b.moves) (encM b.rewards) (encM b.loose) q.pTile
  | .B => Ex.Gen.write_robot_B L W (encM b.moves) (encM b.rewards) (encM b.loose) q.pTile q.pRobot
  | .C => Ex.Gen.write_robot_C L W (encM b.moves) (encM b.rewards) (encM b.loose) q.pTile q.pRobot q.pLight

def encTl (v : Variant) (L W : Nat) (b : Board) (q : Params Float) : List (List (Py.Slot × Int)) :=
  match v with
  | .A => encTlA L W b q.pTile
  | .B => encTlB L W b q.pTile q.pRobot
  | .C => encTlC L W b q.pTile q.pRobot q.pLight

/-- `write_robot_A_tie`, `write_robot_B_tie`, `write_robot_C_tie` in one statement -/
theorem codeGame_tie (v : Variant) (L W : Nat) (b : Board) (q : Params Float) :
    codeGame v L W b q
      = ((genGame v L W b q).rewards.map Int.ofNat, (genGame v L W b q).owners.map ownerStr,
         encTl v L W b q, (genGame v L W b q).finals.map Int.ofNat) := by
  cases v
  · exact write_robot_A_tie L W b q.pTile
  · exact write_robot_B_tie L W b q.pTile q.pRobot
  · exact write_robot_C_tie L W b q.pTile q.pRobot q.pLight

theorem encTl_targets (v : Variant) (L W : Nat) (b : Board) (q : Params Float) :
    (encTl v L W b q).map (·.map (·.2))
      = (genGame v L W b q).tl.map (·.map (fun t => (t.tgt : Int))) := by
  cases v
  · exact encTlA_targets L W b q.pTile
  · exact encTlB_targets L W b q.pTile q.pRobot
  · exact encTlC_targets L W b q.pTile q.pRobot q.pLight

theorem getD_map_default {β γ : Type} (f : β → γ) (l : List β) (k : Nat) (d : β) :
    (l.map f).getD k (f d) = f (l.getD k d) := by
  simp only [List.getD_eq_getElem?_getD, List.getElem?_map]
  cases l[k]? <;> rfl

theorem getD_map_of_lt {β γ : Type} (f : β → γ) (l : List β) (k : Nat) (d : β) (d' : γ)
    (h : k < l.length) : (l.map f).getD k d' = f (l.getD k d) := by
  simp only [List.getD_eq_getElem?_getD, List.getElem?_map, List.getElem?_eq_getElem h]
  rfl

/-- the targets of row `k` of the code's transition list are those of the model's row `k` -/
theorem codeGame_row_targets (v : Variant) (L W : Nat) (b : Board) (q : Params Float) (k : Nat) :
    ((codeGame v L W b q).2.2.1.getD k []).map (·.2)
      = ((genGame v L W b q).tl.getD k []).map (fun t => (t.tgt : Int)) := by
  rw [codeGame_tie]
  show ((encTl v L W b q).getD k []).map (·.2) = _
  rw [← getD_map_default (fun row : List (Py.Slot × Int) => row.map (·.2)), encTl_targets]
  exact getD_map_default (fun row : List (Tr Float) => row.map (fun t => (t.tgt : Int))) _ k []

/-- transfers `C08.gen_sizes`: the code returns `groups·L·W + 2` rewards, players and rows (4, 7, 10 groups),
and the only final state is the last state (the winning state) -/
theorem code_gen_sizes (v : Variant) (L W : Nat) (b : Board) (hb : BoardOK L W b) (q : Params Float) :
    (codeGame v L W b q).1.length = C08.N v L W ∧
    (codeGame v L W b q).2.1.length = C08.N v L W ∧
    (codeGame v L W b q).2.2.1.length = C08.N v L W ∧
    (codeGame v L W b q).2.2.2 = [((C08.N v L W - 1 : Nat) : Int)] := by
  obtain ⟨h1, h2, h3, h4⟩ := C08.gen_sizes v L W b hb q
  rw [codeGame_tie]
  refine ⟨by rw [List.length_map, h3], by rw [List.length_map, h2], ?_, ?_⟩
  · have := congrArg List.length (encTl_targets v L W b q)
    rw [List.length_map, List.length_map] at this
    rw [this, h1]
  · show (genGame v L W b q).finals.map Int.ofNat = _
    rw [h4, enc_win_eq]
    cases v <;> simp [C08.N, nGroups]

/-- transfers `GridLemmas.tl_rows_ok`, the carrier-generic lemma behind `C11.gen_every_state_has_transition`
and `C11.gen_targets_in_range` (those two are stated over a field and cannot be instantiated at `Float`):
every row of the code's transition list is non-empty and all its targets are states -/
theorem code_gen_rows_ok (v : Variant) (L W : Nat) (b : Board) (hb : BoardOK L W b) (q : Params Float) :
    ∀ row ∈ (codeGame v L W b q).2.2.1,
      row ≠ [] ∧ ∀ x ∈ row, 0 ≤ x.2 ∧ x.2 < (C08.N v L W : Int) := by
  intro row hrow
  rw [codeGame_tie] at hrow
  have hmem : row.map (·.2) ∈ (encTl v L W b q).map (·.map (·.2)) := List.mem_map_of_mem hrow
  rw [encTl_targets] at hmem
  obtain ⟨mrow, hm, he⟩ := List.mem_map.1 hmem
  obtain ⟨hne, hlt⟩ := tl_rows_ok hb q mrow hm
  have hN : nGroups v * (L * W) + 2 = C08.N v L W := by cases v <;> rfl
  constructor
  · intro h
    rw [h] at he
    exact hne (List.map_eq_nil_iff.1 he)
  · intro x hx
    have : x.2 ∈ mrow.map (fun t => (t.tgt : Int)) := by
      rw [he]; exact List.mem_map_of_mem (f := fun x : Py.Slot × Int => x.2) hx
    obtain ⟨t, ht, hxt⟩ := List.mem_map.1 this
    have := hlt t ht
    rw [hN] at this
    omega

/-- transfers `C08.gen_bisim_step`: for every valid situation `s` of the board game, row `enc s` of the code's
transition list leads exactly (same order) to the encodings of the successors that the rules of the board game
give to `s`; the code's player string and reward of state `enc s` are the owner and the reward of `s`; and
`enc s` is listed as final iff `s` is the winning situation -/
theorem code_gen_bisim_step (v : Variant) (L W : Nat) (b : Board) (hb : BoardOK L W b) (q : Params Float)
    (s : RState) (hs : Valid v L W b s) :
    enc v L W s < C08.N v L W ∧
    ((codeGame v L W b q).2.2.1.getD (enc v L W s) []).map (·.2)
      = (rules v L W b q s).map (fun x => ((enc v L W x.tgt : Nat) : Int)) ∧
    (codeGame v L W b q).2.1.getD (enc v L W s) "" = ownerStr (owner s) ∧
    (codeGame v L W b q).1.getD (enc v L W s) 0 = ((reward b s : Nat) : Int) ∧
    (((enc v L W s : Nat) : Int) ∈ (codeGame v L W b q).2.2.2 ↔ s = .win) := by
  obtain ⟨h1, h2, h3, h4, h5⟩ := C08.gen_bisim_step v L W b hb q s hs
  obtain ⟨-, g2, g3, -⟩ := C08.gen_sizes v L W b hb q
  refine ⟨h1, ?_, ?_, ?_, ?_⟩
  · rw [codeGame_row_targets, h2, List.map_map]
    rfl
  · rw [codeGame_tie]
    show ((genGame v L W b q).owners.map ownerStr).getD (enc v L W s) "" = _
    rw [getD_map_of_lt ownerStr _ _ Owner.prob "" (by rw [g2]; exact h1), h3]
  · rw [codeGame_tie]
    show ((genGame v L W b q).rewards.map Int.ofNat).getD (enc v L W s) 0 = _
    rw [getD_map_of_lt Int.ofNat _ _ 0 0 (by rw [g3]; exact h1), h4]
    rfl
  · rw [codeGame_tie, ← h5]
    show ((enc v L W s : Nat) : Int) ∈ (genGame v L W b q).finals.map Int.ofNat ↔ _
    rw [List.mem_map]
    constructor
    · rintro ⟨f, hf, he⟩
      have : f = enc v L W s := by simpa using he
      exact this ▸ hf
    · exact fun h => ⟨_, h, rfl⟩

/-- transfers `GridLemmas.lose_win_rows` (the carrier-generic lemma behind
`C11.gen_only_final_is_win_absorbing`): in the code's game the last two states (losing, winning) have a single
transition, to themselves, and carry no reward -/
theorem code_gen_absorbing (v : Variant) (L W : Nat) (b : Board) (hb : BoardOK L W b) (q : Params Float) :
    ((codeGame v L W b q).2.2.1.getD (C08.N v L W - 2) []).map (·.2) = [((C08.N v L W - 2 : Nat) : Int)] ∧
    ((codeGame v L W b q).2.2.1.getD (C08.N v L W - 1) []).map (·.2) = [((C08.N v L W - 1 : Nat) : Int)] ∧
    (codeGame v L W b q).1.getD (C08.N v L W - 2) 0 = 0 ∧
    (codeGame v L W b q).1.getD (C08.N v L W - 1) 0 = 0 := by
  have e1 : C08.N v L W - 1 = enc v L W .win := by rw [enc_win_eq]; cases v <;> rfl
  have e2 : C08.N v L W - 2 = enc v L W .lose := by rw [enc_lose_eq]; cases v <;> rfl
  obtain ⟨-, a2, -, a4, -⟩ := code_gen_bisim_step v L W b hb q .lose trivial
  obtain ⟨-, b2, -, b4, -⟩ := code_gen_bisim_step v L W b hb q .win trivial
  rw [e1, e2]
  exact ⟨a2, b2, a4, b4⟩

/-- the hypotheses are satisfiable: the 2×1 board of `CR.Props.C08`, all three variants -/
example : BoardOK 2 1 C08.b21 := by unfold BoardOK; decide
example : Valid .C 2 1 C08.b21 (.lightY 0 0) := by simp [Valid, C08.b21, Board.mv]
example : (codeGame .A 2 1 C08.b21 ⟨0.1, 0.2, 0.3⟩).2.2.2 = [9] :=
  (code_gen_sizes .A 2 1 C08.b21 (by unfold BoardOK; decide) _).2.2.2

end Games

end CR.Tie
