/-
Tie theorems for `reverse_dfs.py`: the mechanical translation of the table-building functions
(CR/Extracted/Rdfs.lean, regenerated from /repo on every run) against the hand-written model
(CR/Model/Rdfs.lean: `revCore`, `revTable`).  Python dicts are association lists in insertion order
(`Py.dictHas` / `Py.dictGet` / `Py.dictSet`).
-/
import CR.Tie.Basic
import CR.Extracted.Rdfs
import CR.Lemmas.Rdfs

namespace CR.Tie
open CR

/-- a transition list as the code sees it: targets are Python ints -/
def encT {A : Type} (tl : List (List (A × Nat))) : List (List (A × Int)) :=
  tl.map (·.map (fun t => (t.1, (t.2 : Int))))

/-- a transition list as the model sees it: only the targets -/
def tgts {A : Type} (tl : List (List (A × Nat))) : List (List Nat) := tl.map (·.map (·.2))

/-! ## association-list dicts -/

section Dict
variable {κ β : Type} [BEq κ] [LawfulBEq κ]

theorem dictHas_iff (d : List (κ × β)) (k : κ) : Py.dictHas d k = true ↔ ∃ e ∈ d, e.1 = k := by
  simp [Py.dictHas]

theorem dictHas_map_keep (d : List (κ × β)) (k k' : κ) (v : β) :
    Py.dictHas (d.map (fun e => if e.1 == k then (e.1, v) else e)) k' = Py.dictHas d k' := by
  unfold Py.dictHas
  rw [List.any_map]
  congr 1
  funext e
  by_cases h : e.1 = k <;> simp [h]

theorem dictHas_set (d : List (κ × β)) (k k' : κ) (v : β) :
    Py.dictHas (Py.dictSet d k v) k' = (Py.dictHas d k' || k == k') := by
  unfold Py.dictSet
  by_cases h : Py.dictHas d k = true
  · rw [if_pos h, dictHas_map_keep]
    by_cases hk : k = k'
    · subst hk; simp [h]
    · simp [hk]
  · rw [if_neg h]
    simp [Py.dictHas]

omit [LawfulBEq κ] in
theorem dictGet_of_not_has [Inhabited β] (d : List (κ × β)) (k : κ) (h : Py.dictHas d k = false) :
    Py.dictGet d k = default := by
  unfold Py.dictGet
  have : d.find? (fun e => e.1 == k) = none := by
    rw [List.find?_eq_none]
    intro e he
    unfold Py.dictHas at h
    rw [List.any_eq_false] at h
    exact h e he
  rw [this]

theorem dictGet_map [Inhabited β] (d : List (κ × β)) (k k' : κ) (v : β) :
    Py.dictGet (d.map (fun e => if e.1 == k then (e.1, v) else e)) k'
      = if (k == k' && Py.dictHas d k) = true then v else Py.dictGet d k' := by
  induction d with
  | nil => simp [Py.dictGet, Py.dictHas]
  | cons e es ih =>
    unfold Py.dictGet at ih ⊢
    unfold Py.dictHas at ih ⊢
    rw [List.map_cons, List.find?_cons, List.find?_cons, List.any_cons]
    by_cases h1 : e.1 = k
    · by_cases h2 : k = k'
      · subst h1; subst h2; simp
      · subst h1
        have h3 : (e.1 == k') = false := by simpa using h2
        simp only [beq_self_eq_true, if_true, h3]
        simpa [h2] using ih
    · have h1' : (e.1 == k) = false := by simpa using h1
      simp only [h1', Bool.false_eq_true, if_false, Bool.false_or]
      by_cases h3 : e.1 = k'
      · have : ¬ k = k' := fun h => h1 (h3.trans h.symm)
        simp [h3, this]
      · have h3' : (e.1 == k') = false := by simpa using h3
        simp only [h3']
        exact ih

theorem dictGet_set [Inhabited β] (d : List (κ × β)) (k k' : κ) (v : β) :
    Py.dictGet (Py.dictSet d k v) k' = if (k == k') = true then v else Py.dictGet d k' := by
  unfold Py.dictSet
  by_cases h : Py.dictHas d k = true
  · rw [if_pos h, dictGet_map, h, Bool.and_true]
  · rw [if_neg h]
    have h' : Py.dictHas d k = false := by simpa using h
    by_cases hk : k = k'
    · subst hk
      have : d.find? (fun e => e.1 == k) = none := by
        rw [List.find?_eq_none]
        intro e he
        unfold Py.dictHas at h'
        rw [List.any_eq_false] at h'
        exact h' e he
      simp [Py.dictGet, List.find?_append, this]
    · rw [if_neg (by simpa using hk)]
      unfold Py.dictGet
      rw [List.find?_append]
      cases hf : d.find? (fun e => e.1 == k') with
      | some e => simp
      | none => simp [hk]

theorem dictKeys_set (d : List (κ × β)) (k : κ) (v : β) :
    (Py.dictSet d k v).map (·.1) = if Py.dictHas d k = true then d.map (·.1) else d.map (·.1) ++ [k] := by
  unfold Py.dictSet
  by_cases h : Py.dictHas d k = true
  · rw [if_pos h, if_pos h, List.map_map]
    apply List.map_congr_left
    intro e _
    by_cases h1 : e.1 = k <;> simp [h1]
  · rw [if_neg h, if_neg h]; simp

theorem dictKeys_set_nodup (d : List (κ × β)) (k : κ) (v : β) (hd : (d.map (·.1)).Nodup) :
    ((Py.dictSet d k v).map (·.1)).Nodup := by
  rw [dictKeys_set]
  by_cases h : Py.dictHas d k = true
  · rw [if_pos h]; exact hd
  · rw [if_neg h]
    rw [List.nodup_append]
    refine ⟨hd, by simp, ?_⟩
    intro a ha b hb
    have hb' : b = k := by simpa using hb
    subst hb'
    intro hab
    subst hab
    apply h
    rw [dictHas_iff]
    obtain ⟨e, he, rfl⟩ := List.mem_map.1 ha
    exact ⟨e, he, rfl⟩

end Dict

/-! ## 1. `reverse_transition_list_core` -/

/-- a model pair `(next_state, current_state)` as the code sees it -/
def encPair (p : Nat × Nat) : Int × Int := ((p.1 : Int), (p.2 : Int))

theorem core_aux {A : Type} (tl : List (List (A × Nat))) (k : Nat) :
    (((encT tl).zipIdx k).map (fun (x, i) => (Int.ofNat i, x))).flatMap
        (fun it2 => it2.2.map (fun it4 => (it4.2, it2.1)))
      = (((tgts tl).zipIdx k).flatMap (fun p => p.1.map (fun v => (v, p.2)))).map encPair := by
  induction tl generalizing k with
  | nil => simp [encT, tgts]
  | cons row rest ih =>
    have ih' := ih (k + 1)
    unfold encT tgts at ih' ⊢
    simp only [List.map_cons, List.zipIdx_cons, List.flatMap_cons, List.map_append, ih']
    congr 1
    simp [List.map_map, Function.comp_def, encPair]

theorem reverse_core_tie {A : Type} [Inhabited A] (tl : List (List (A × Nat))) :
    Ex.Rdfs.reverse_transition_list_core (encT tl)
      = (revCore (tgts tl)).map (fun vu => ((vu.1 : Int), (vu.2 : Int))) := by
  unfold Ex.Rdfs.reverse_transition_list_core
  dsimp only
  simp only [foldl_append_singleton]
  rw [foldl_flat (fun (it2 : Int × List (A × Int)) => it2.2.map (fun it4 => (it4.2, it2.1)))]
  rw [List.nil_append, RdfsLemmas.revCore_eq]
  exact core_aux tl 0

/-! ## 2. `list_of_tuples_to_dict_of_lists` -/

/-- one iteration of the loop of `list_of_tuples_to_dict_of_lists` -/
def l2dStep (d : List (Int × List Int)) (t : Int × Int) : List (Int × List Int) :=
  let d' := if ¬ (Py.dictHas d t.1 = true) then Py.dictSet d t.1 [] else d
  Py.dictSet d' t.1 (Py.dictGet d' t.1 ++ [t.2])

theorem l2d_eq (ps : List (Int × Int)) :
    Ex.Rdfs.list_of_tuples_to_dict_of_lists ps = ps.foldl l2dStep [] := rfl

theorem l2dStep_pos (d : List (Int × List Int)) (t : Int × Int) (h : Py.dictHas d t.1 = true) :
    l2dStep d t = Py.dictSet d t.1 (Py.dictGet d t.1 ++ [t.2]) := by
  unfold l2dStep
  dsimp only
  rw [if_neg (not_not_intro h)]

theorem l2dStep_neg (d : List (Int × List Int)) (t : Int × Int) (h : ¬ Py.dictHas d t.1 = true) :
    l2dStep d t = Py.dictSet (Py.dictSet d t.1 []) t.1 [t.2] := by
  unfold l2dStep
  dsimp only
  rw [if_pos h, dictGet_set, if_pos (by simp), List.nil_append]

theorem l2dStep_get (d : List (Int × List Int)) (t : Int × Int) (k : Int) :
    Py.dictGet (l2dStep d t) k = if t.1 = k then Py.dictGet d k ++ [t.2] else Py.dictGet d k := by
  by_cases h : Py.dictHas d t.1 = true
  · rw [l2dStep_pos d t h, dictGet_set]
    by_cases hk : t.1 = k
    · subst hk; simp
    · simp [hk]
  · have hn : Py.dictGet d t.1 = [] := dictGet_of_not_has d t.1 (by simpa using h)
    rw [l2dStep_neg d t h, dictGet_set, dictGet_set]
    by_cases hk : t.1 = k
    · subst hk; simp [hn]
    · simp [hk]

theorem l2dStep_has (d : List (Int × List Int)) (t : Int × Int) (k : Int) :
    Py.dictHas (l2dStep d t) k = (Py.dictHas d k || t.1 == k) := by
  by_cases h : Py.dictHas d t.1 = true
  · rw [l2dStep_pos d t h, dictHas_set]
  · rw [l2dStep_neg d t h, dictHas_set, dictHas_set, Bool.or_assoc, Bool.or_self]

theorem l2dStep_nodup (d : List (Int × List Int)) (t : Int × Int) (hd : (d.map (·.1)).Nodup) :
    ((l2dStep d t).map (·.1)).Nodup := by
  by_cases h : Py.dictHas d t.1 = true
  · rw [l2dStep_pos d t h]
    exact dictKeys_set_nodup _ _ _ hd
  · rw [l2dStep_neg d t h]
    exact dictKeys_set_nodup _ _ _ (dictKeys_set_nodup _ _ _ hd)

theorem l2d_fold_get (ps : List (Int × Int)) (d : List (Int × List Int)) (k : Int) :
    Py.dictGet (ps.foldl l2dStep d) k = Py.dictGet d k ++ (ps.filter (fun p => p.1 == k)).map (·.2) := by
  induction ps generalizing d with
  | nil => simp
  | cons p ps ih =>
    rw [List.foldl_cons, ih, l2dStep_get, List.filter_cons]
    by_cases hk : p.1 = k
    · simp [hk]
    · simp [hk]

theorem l2d_fold_has (ps : List (Int × Int)) (d : List (Int × List Int)) (k : Int) :
    Py.dictHas (ps.foldl l2dStep d) k = true ↔ (Py.dictHas d k = true ∨ ∃ p ∈ ps, p.1 = k) := by
  induction ps generalizing d with
  | nil => simp
  | cons p ps ih =>
    rw [List.foldl_cons, ih, l2dStep_has]
    simp [or_assoc]

theorem l2d_fold_nodup (ps : List (Int × Int)) (d : List (Int × List Int)) (hd : (d.map (·.1)).Nodup) :
    ((ps.foldl l2dStep d).map (·.1)).Nodup := by
  induction ps generalizing d with
  | nil => exact hd
  | cons p ps ih => exact ih _ (l2dStep_nodup d p hd)

/-- the dict built from arbitrary Python-int pairs: value under a key -/
theorem dict_get_int (ps : List (Int × Int)) (k : Int) :
    Py.dictGet (Ex.Rdfs.list_of_tuples_to_dict_of_lists ps) k
      = (ps.filter (fun p => p.1 == k)).map (·.2) := by
  rw [l2d_eq, l2d_fold_get]
  show ([] : List Int) ++ _ = _
  rw [List.nil_append]

theorem dict_has_int (ps : List (Int × Int)) (k : Int) :
    Py.dictHas (Ex.Rdfs.list_of_tuples_to_dict_of_lists ps) k = true ↔ ∃ p ∈ ps, p.1 = k := by
  rw [l2d_eq, l2d_fold_has]
  simp [Py.dictHas]

theorem dict_get (ps : List (Nat × Nat)) (v : Nat) :
    Py.dictGet (Ex.Rdfs.list_of_tuples_to_dict_of_lists (ps.map (fun p => ((p.1 : Int), (p.2 : Int))))) (v : Int)
      = ((ps.filter (fun p => p.1 == v)).map (fun p => (p.2 : Int))) := by
  rw [dict_get_int, List.filter_map, List.map_map]
  congr 1
  apply List.filter_congr
  intro p _
  show (((p.1 : Int)) == (v : Int)) = (p.1 == v)
  rw [Bool.eq_iff_iff, beq_iff_eq, beq_iff_eq]
  omega

theorem dict_has (ps : List (Nat × Nat)) (v : Nat) :
    Py.dictHas (Ex.Rdfs.list_of_tuples_to_dict_of_lists (ps.map (fun p => ((p.1 : Int), (p.2 : Int))))) (v : Int) = true
      ↔ ∃ p ∈ ps, p.1 = v := by
  rw [dict_has_int]
  constructor
  · rintro ⟨q, hq, hqv⟩
    obtain ⟨p, hp, rfl⟩ := List.mem_map.1 hq
    exact ⟨p, hp, by omega⟩
  · rintro ⟨p, hp, rfl⟩
    exact ⟨_, List.mem_map.2 ⟨p, hp, rfl⟩, rfl⟩

theorem dict_keys_nodup (ps : List (Nat × Nat)) :
    ((Ex.Rdfs.list_of_tuples_to_dict_of_lists (ps.map (fun p => ((p.1 : Int), (p.2 : Int))))).map (·.1)).Nodup := by
  rw [l2d_eq]
  exact l2d_fold_nodup _ [] (by simp)

/-! ## 3. `add_missing_states` -/

/-- one iteration of the loop of `add_missing_states` -/
def amsStep (d : List (Int × List Int)) (s : Int) : List (Int × List Int) :=
  if ¬ (Py.dictHas d s = true) then Py.dictSet d s [] else d

theorem ams_eq (d : List (Int × List Int)) (n : Int) :
    Ex.Rdfs.add_missing_states d n = (Py.range n).foldl amsStep d := rfl

theorem amsStep_pos (d : List (Int × List Int)) (s : Int) (h : Py.dictHas d s = true) :
    amsStep d s = d := by
  unfold amsStep
  rw [if_neg (not_not_intro h)]

theorem amsStep_neg (d : List (Int × List Int)) (s : Int) (h : ¬ Py.dictHas d s = true) :
    amsStep d s = Py.dictSet d s [] := by
  unfold amsStep
  rw [if_pos h]

theorem amsStep_get (d : List (Int × List Int)) (s k : Int) :
    Py.dictGet (amsStep d s) k = Py.dictGet d k := by
  by_cases h : Py.dictHas d s = true
  · rw [amsStep_pos d s h]
  · rw [amsStep_neg d s h, dictGet_set]
    by_cases hk : s = k
    · subst hk
      rw [if_pos (by simp), dictGet_of_not_has d s (by simpa using h)]
      rfl
    · rw [if_neg (by simpa using hk)]

theorem amsStep_has (d : List (Int × List Int)) (s k : Int) :
    Py.dictHas (amsStep d s) k = (Py.dictHas d k || s == k) := by
  by_cases h : Py.dictHas d s = true
  · rw [amsStep_pos d s h]
    by_cases hk : s = k
    · subst hk; simp [h]
    · simp [hk]
  · rw [amsStep_neg d s h, dictHas_set]

theorem ams_fold_get (l : List Int) (d : List (Int × List Int)) (k : Int) :
    Py.dictGet (l.foldl amsStep d) k = Py.dictGet d k := by
  induction l generalizing d with
  | nil => rfl
  | cons s l ih => rw [List.foldl_cons, ih, amsStep_get]

theorem ams_fold_has (l : List Int) (d : List (Int × List Int)) (k : Int) :
    Py.dictHas (l.foldl amsStep d) k = true ↔ (Py.dictHas d k = true ∨ k ∈ l) := by
  induction l generalizing d with
  | nil => simp
  | cons s l ih =>
    rw [List.foldl_cons, ih, amsStep_has, List.mem_cons, Bool.or_eq_true, beq_iff_eq, or_assoc,
      eq_comm (a := s)]

theorem mem_range_iff (n : Nat) (k : Int) : k ∈ Py.range (n : Int) ↔ (0 ≤ k ∧ k < n) := by
  unfold Py.range
  simp only [List.mem_map, List.mem_range, Int.toNat_natCast]
  constructor
  · rintro ⟨a, ha, rfl⟩
    simp only [Int.ofNat_eq_natCast]
    omega
  · rintro ⟨h0, h1⟩
    refine ⟨k.toNat, by omega, ?_⟩
    simp only [Int.ofNat_eq_natCast]
    omega

/-- the value under any key (not only a state number) is kept -/
theorem add_missing_get_int (d : List (Int × List Int)) (n k : Int) :
    Py.dictGet (Ex.Rdfs.add_missing_states d n) k = Py.dictGet d k := by
  rw [ams_eq, ams_fold_get]

theorem add_missing_get (d : List (Int × List Int)) (n v : Nat) :
    Py.dictGet (Ex.Rdfs.add_missing_states d n) (v : Int) = Py.dictGet d (v : Int) :=
  add_missing_get_int d n v

theorem add_missing_has (d : List (Int × List Int)) (n : Nat) (k : Int) :
    Py.dictHas (Ex.Rdfs.add_missing_states d n) k = true ↔ (Py.dictHas d k = true ∨ (0 ≤ k ∧ k < n)) := by
  rw [ams_eq, ams_fold_has, mem_range_iff]

/-- `add_missing_states` keeps the keys distinct -/
theorem add_missing_keys_nodup (d : List (Int × List Int)) (n : Int) (hd : (d.map (·.1)).Nodup) :
    ((Ex.Rdfs.add_missing_states d n).map (·.1)).Nodup := by
  rw [ams_eq]
  generalize Py.range n = l
  induction l generalizing d with
  | nil => exact hd
  | cons s l ih =>
    rw [List.foldl_cons]
    apply ih
    by_cases h : Py.dictHas d s = true
    · rw [amsStep_pos d s h]; exact hd
    · rw [amsStep_neg d s h]; exact dictKeys_set_nodup d s [] hd

/-! ## 4. `reverse_transition_list` against `revTable` -/

theorem foldl_revStep_getD (ps : List (Nat × Nat)) (tab : Array (List Nat)) (v : Nat) (hv : v < tab.size) :
    (ps.foldl RdfsLemmas.revStep tab).getD v []
      = tab.getD v [] ++ (ps.filter (fun p => p.1 == v)).map (·.2) := by
  induction ps generalizing tab with
  | nil => simp
  | cons p ps ih =>
    have hsz : v < (RdfsLemmas.revStep tab p).size := by simpa [RdfsLemmas.revStep] using hv
    rw [List.foldl_cons, ih _ hsz, List.filter_cons]
    by_cases h1 : p.1 = v
    · subst h1
      simp [RdfsLemmas.revStep, hv]
    · simp [RdfsLemmas.revStep, h1]

/-- the model's table lists under an in-range `v` the sources of the pairs `(v, u)` of `revCore`, in order
(no range hypothesis on the targets: an out-of-range target is dropped and touches no other entry) -/
theorem revTable_getD_eq (tl : List (List Nat)) (v : Nat) (hv : v < tl.length) :
    (revTable tl).getD v [] = ((revCore tl).filter (fun p => p.1 == v)).map (·.2) := by
  rw [RdfsLemmas.revTable_eq, foldl_revStep_getD _ _ _ (by simpa using hv)]
  simp [hv]

theorem tgts_length {A : Type} (tl : List (List (A × Nat))) : (tgts tl).length = tl.length := by
  simp [tgts]

theorem len_encT {A : Type} (tl : List (List (A × Nat))) : Py.len (encT tl) = ((tl.length : Nat) : Int) := by
  simp [Py.len, encT]

theorem tgts_range {A : Type} (tl : List (List (A × Nat)))
    (hr : ∀ row ∈ tl, ∀ t ∈ row, t.2 < tl.length) :
    ∀ row ∈ tgts tl, ∀ v ∈ row, v < (tgts tl).length := by
  intro row hrow v hv
  rw [tgts_length]
  obtain ⟨r, hr1, rfl⟩ := List.mem_map.1 hrow
  obtain ⟨t, ht, rfl⟩ := List.mem_map.1 hv
  exact hr r hr1 t ht

/-- the value under an in-range state; no hypothesis on the targets is needed for this half -/
theorem reverse_table_get {A : Type} [Inhabited A] (tl : List (List (A × Nat))) (v : Nat)
    (hv : v < tl.length) :
    Py.dictGet (Ex.Rdfs.reverse_transition_list (encT tl)) (v : Int)
      = ((revTable (tgts tl)).getD v []).map Int.ofNat := by
  unfold Ex.Rdfs.reverse_transition_list
  dsimp only
  rw [add_missing_get_int, reverse_core_tie, dict_get (revCore (tgts tl)) v,
    revTable_getD_eq _ _ (by rw [tgts_length]; exact hv), List.map_map]
  rfl

/-- the statement as required (C07).  The range hypothesis `hr` is not used for this half
(`reverse_table_get`): it matters for the keys and for the values under out-of-range keys, see the
examples below. -/
theorem reverse_table_tie {A : Type} [Inhabited A] (tl : List (List (A × Nat)))
    (hr : ∀ row ∈ tl, ∀ t ∈ row, t.2 < tl.length) (v : Nat) (hv : v < tl.length) :
    Py.dictGet (Ex.Rdfs.reverse_transition_list (encT tl)) (v : Int)
      = ((revTable (tgts tl)).getD v []).map Int.ofNat :=
  have _ := hr
  reverse_table_get tl v hv

theorem reverse_table_keys {A : Type} [Inhabited A] (tl : List (List (A × Nat)))
    (hr : ∀ row ∈ tl, ∀ t ∈ row, t.2 < tl.length) (k : Int) :
    Py.dictHas (Ex.Rdfs.reverse_transition_list (encT tl)) k = true ↔ (0 ≤ k ∧ k < tl.length) := by
  unfold Ex.Rdfs.reverse_transition_list
  dsimp only
  rw [len_encT, add_missing_has, reverse_core_tie, dict_has_int]
  constructor
  · rintro (⟨q, hq, hqk⟩ | h)
    · obtain ⟨p, hp, rfl⟩ := List.mem_map.1 hq
      obtain ⟨v, u⟩ := p
      have hc : 0 < (revCore (tgts tl)).count (v, u) := List.count_pos_iff.2 hp
      rw [RdfsLemmas.revCore_count] at hc
      have hlt := RdfsLemmas.target_lt_of_edge (tgts tl) (tgts_range tl hr) u v (List.count_pos_iff.1 hc)
      rw [tgts_length] at hlt
      simp only at hqk
      omega
    · exact h
  · exact fun h => Or.inr h

/-- the keys of the whole table are distinct -/
theorem reverse_table_keys_nodup {A : Type} [Inhabited A] (tl : List (List (A × Nat))) :
    ((Ex.Rdfs.reverse_transition_list (encT tl)).map (·.1)).Nodup := by
  unfold Ex.Rdfs.reverse_transition_list
  dsimp only
  apply add_missing_keys_nodup
  rw [reverse_core_tie]
  exact dict_keys_nodup _

/-- the range hypothesis of `reverse_table_tie` / `reverse_table_keys` is satisfiable -/
example : ∀ row ∈ [[((), 1)], [((), 0), ((), 1)]], ∀ t ∈ row, t.2 < [[((), 1)], [((), 0), ((), 1)]].length := by
  decide

/-- the range hypothesis is needed: the model's array drops an out-of-range target, the dict gets a new
key (state 0 has a transition to the non-existent state 1) -/
example : Py.dictGet (Ex.Rdfs.reverse_transition_list (encT [[((), 1)]])) ((1 : Nat) : Int)
    ≠ ((revTable (tgts [[((), 1)]])).getD 1 []).map Int.ofNat := by
  decide

/-- the range hypothesis is needed (keys): key 1 is present although there is only one state -/
example : ¬ (Py.dictHas (Ex.Rdfs.reverse_transition_list (encT [[((), 1)]])) 1 = true
    ↔ ((0 : Int) ≤ 1 ∧ (1 : Int) < ([[((), 1)]] : List (List (Unit × Nat))).length)) := by
  decide

end CR.Tie
