/-
Tie theorems for the search of `reverse_dfs.py`: the mechanical translation of `reverse_dfs_recursive` (the
explicit-stack `while pending:` loop, fuel-bounded) and of `reverse_dfs` (CR/Extracted/Rdfs.lean, regenerated
from /repo on every run) against the hand-written model (CR/Model/Rdfs.lean: `dfsLoop`, `reverseDfs`), and
the C07 theorems transferred to the translated code.

The Python stack `pending` is the reverse of the model's `stack`; `visited` = `rec_reaching_states` = the
reverse of the model's `acc`.  One iteration of the loop is one unfolding of `dfsLoop`.
-/
import CR.Tie.Rdfs
import CR.Props.C07

namespace CR.Tie
open CR

/-- number of transitions -/
def E {A : Type} (tl : List (List A)) : Nat := (tl.map List.length).sum

/-- a list of model states as the code sees it (Python appends, the model prepends) -/
def encL (l : List Nat) : List Int := l.reverse.map Int.ofNat

theorem encL_cons (s : Nat) (l : List Nat) : encL (s :: l) = encL l ++ [(s : Int)] := by
  simp [encL]

theorem encL_append (l₁ l₂ : List Nat) : encL (l₁ ++ l₂) = encL l₂ ++ encL l₁ := by
  simp [encL]

theorem mem_encL (s : Nat) (l : List Nat) : (s : Int) ∈ encL l ↔ s ∈ l := by
  unfold encL
  simp only [List.mem_map, List.mem_reverse, Int.ofNat_eq_natCast]
  constructor
  · rintro ⟨a, ha, h⟩
    have : a = s := by omega
    exact this ▸ ha
  · exact fun h => ⟨s, h, rfl⟩

/-! ## the loop -/

/-- the loop condition of the translated `reverse_dfs_recursive` -/
def loopCond (st : List Int × List Int × List Int) : Bool := decide (st.1 ≠ [])

/-- the loop body of the translated `reverse_dfs_recursive` -/
def loopBody (table : List (Int × List Int)) (st : List Int × List Int × List Int) :
    List Int × List Int × List Int :=
  if Py.last st.1 ∈ st.2.1 then (List.dropLast st.1, st.2.1, st.2.2)
  else (List.dropLast st.1 ++ List.reverse (Py.dictGet table (Py.last st.1)),
        st.2.1 ++ [Py.last st.1], st.2.2 ++ [Py.last st.1])

theorem recursive_eq (fuel : Nat) (state : Int) (table : List (Int × List Int)) (rs : List Int) :
    Ex.Rdfs.reverse_dfs_recursive fuel state table rs
      = (Py.whileFuel fuel loopCond (loopBody table) ([state], rs, rs)).map (·.2.2) := by
  unfold Ex.Rdfs.reverse_dfs_recursive
  dsimp only
  have hb : (fun (st1 : List Int × List Int × List Int) =>
      if Py.last st1.1 ∈ st1.2.1 then (List.dropLast st1.1, st1.2.1, st1.2.2)
      else (List.dropLast st1.1 ++ List.reverse (Py.dictGet table (Py.last st1.1)),
            st1.2.1 ++ [Py.last st1.1], st1.2.2 ++ [Py.last st1.1])) = loopBody table := rfl
  have hc : (fun (st1 : List Int × List Int × List Int) => decide (st1.1 ≠ [])) = loopCond := rfl
  rw [hb, hc]
  cases Py.whileFuel fuel loopCond (loopBody table) ([state], rs, rs) <;> rfl

/-- one iteration on an already visited state -/
theorem loopBody_visited (table : List (Int × List Int)) (s : Nat) (rest acc : List Nat) (R : List Int)
    (h : s ∈ acc) :
    loopBody table (encL (s :: rest), encL acc, R) = (encL rest, encL acc, R) := by
  unfold loopBody
  simp only [encL_cons, Py.last, List.getLastD_concat, List.dropLast_concat]
  rw [if_pos ((mem_encL s acc).2 h)]

/-- one iteration on a new state -/
theorem loopBody_new (table : List (Int × List Int)) (s : Nat) (rest acc preds : List Nat) (R : List Int)
    (h : s ∉ acc) (hp : Py.dictGet table (s : Int) = preds.map Int.ofNat) :
    loopBody table (encL (s :: rest), encL acc, R)
      = (encL (preds ++ rest), encL (s :: acc), R ++ [(s : Int)]) := by
  unfold loopBody
  simp only [encL_cons, Py.last, List.getLastD_concat, List.dropLast_concat]
  rw [if_neg (fun hc => h ((mem_encL s acc).1 hc)), hp, encL_append]
  simp [encL]

theorem loopCond_nil (V R : List Int) : loopCond ([], V, R) = false := by
  simp [loopCond]

theorem loopCond_cons (s : Nat) (rest : List Nat) (V R : List Int) :
    loopCond (encL (s :: rest), V, R) = true := by
  simp [loopCond, encL_cons]

/-! ## the potential bounding the number of iterations -/

/-- transitions (as pairs `(target, source)`) into states not yet visited -/
def pot (L : List (Nat × Nat)) (acc : List Nat) : Nat := (L.filter (fun p => !acc.contains p.1)).length

theorem pot_cons (L : List (Nat × Nat)) (s : Nat) (acc : List Nat) (h : s ∉ acc) :
    pot L (s :: acc) + (L.filter (fun p => p.1 == s)).length = pot L acc := by
  unfold pot
  induction L with
  | nil => rfl
  | cons p ps ih =>
    simp only [List.filter_cons]
    by_cases h1 : p.1 = s
    · have h2 : acc.contains p.1 = false := by rw [h1]; simpa using h
      simp only [h1, List.contains_cons, beq_self_eq_true, Bool.true_or, Bool.not_true, Bool.false_eq_true,
        if_false, if_true, List.length_cons] at ih ⊢
      rw [h1] at h2
      simp only [h2, Bool.not_false, if_true, List.length_cons]
      omega
    · have h3 : (p.1 == s) = false := by simpa using h1
      simp only [List.contains_cons, h3, Bool.false_or, Bool.false_eq_true, if_false] at ih ⊢
      by_cases h4 : acc.contains p.1 = true
      · simp only [h4, Bool.not_true, Bool.false_eq_true, if_false]; exact ih
      · have h4' : acc.contains p.1 = false := by simpa using h4
        simp only [h4', Bool.not_false, if_true, List.length_cons]
        omega

theorem pot_le (L : List (Nat × Nat)) (acc : List Nat) : pot L acc ≤ L.length :=
  List.length_filter_le _ _

theorem revCore_length_aux (tl : List (List Nat)) (k : Nat) :
    ((tl.zipIdx k).flatMap (fun p => p.1.map (fun v => (v, p.2)))).length = E tl := by
  induction tl generalizing k with
  | nil => rfl
  | cons row rest ih =>
    rw [List.zipIdx_cons, List.flatMap_cons, List.length_append, ih]
    simp [E]

theorem revCore_length (tl : List (List Nat)) : (revCore tl).length = E tl := by
  rw [RdfsLemmas.revCore_eq]; exact revCore_length_aux tl 0

theorem E_tgts {A : Type} (tl : List (List (A × Nat))) : E (tgts tl) = E tl := by
  simp [E, tgts, List.map_map, Function.comp_def]

/-- the length of a table entry, in range or not -/
theorem revTable_getD_length (tl : List (List Nat)) (v : Nat) :
    ((revTable tl).getD v []).length ≤ ((revCore tl).filter (fun p => p.1 == v)).length := by
  by_cases hv : v < tl.length
  · rw [revTable_getD_eq tl v hv, List.length_map]; exact Nat.le_refl _
  · rw [RdfsLemmas.revTable_getD_of_ge tl v (by omega)]; exact Nat.zero_le _

/-! ## simulation: the translated loop computes `dfsLoop` -/

/-- the generalised simulation: any stack, any accumulator; `fuel` must cover the stack plus the transitions
into states not yet visited (each iteration pops one element; a new state pushes its table entry) -/
theorem loop_sim (table : List (Int × List Int)) (tl : List (List Nat))
    (htab : ∀ v : Nat, Py.dictGet table (v : Int) = ((revTable tl).getD v []).map Int.ofNat)
    (stack acc : List Nat) :
    ∀ (fuel : Nat), stack.length + pot (revCore tl) acc ≤ fuel →
      Py.whileFuel fuel loopCond (loopBody table) (encL stack, encL acc, encL acc)
        = some ([], encL (dfsLoop (revTable tl) stack acc), encL (dfsLoop (revTable tl) stack acc)) := by
  fun_induction dfsLoop (revTable tl) stack acc with
  | case1 acc =>
    intro fuel _
    have hc : loopCond (encL [], encL acc, encL acc) = false := loopCond_nil _ _
    cases fuel with
    | zero => unfold Py.whileFuel; rw [if_neg (by rw [hc]; simp)]; rfl
    | succ f => unfold Py.whileFuel; rw [if_neg (by rw [hc]; simp)]; rfl
  | case2 acc s rest hc ih =>
    intro fuel hfuel
    have hmem : s ∈ acc := by simpa using hc
    cases fuel with
    | zero => simp at hfuel
    | succ f =>
      unfold Py.whileFuel
      rw [if_pos (loopCond_cons s rest _ _), loopBody_visited table s rest acc _ hmem]
      apply ih
      simp only [List.length_cons] at hfuel
      omega
  | case3 acc s rest hc ih =>
    intro fuel hfuel
    have hmem : s ∉ acc := by simpa using hc
    cases fuel with
    | zero => simp at hfuel
    | succ f =>
      unfold Py.whileFuel
      rw [if_pos (loopCond_cons s rest _ _), loopBody_new table s rest acc _ _ hmem (htab s), ← encL_cons]
      apply ih
      have h1 := pot_cons (revCore tl) s acc hmem
      have h2 := revTable_getD_length tl s
      simp only [List.length_cons, List.length_append] at hfuel ⊢
      omega

/-- under the range hypothesis the translated table agrees with the model's under EVERY natural key
(outside `0..n-1` the dict has no key and the array no slot: both give the empty list) -/
theorem reverse_table_get_all {A : Type} [Inhabited A] (tl : List (List (A × Nat)))
    (hr : ∀ row ∈ tl, ∀ t ∈ row, t.2 < tl.length) (v : Nat) :
    Py.dictGet (Ex.Rdfs.reverse_transition_list (encT tl)) (v : Int)
      = ((revTable (tgts tl)).getD v []).map Int.ofNat := by
  by_cases hv : v < tl.length
  · exact reverse_table_get tl v hv
  · have hno : Py.dictHas (Ex.Rdfs.reverse_transition_list (encT tl)) (v : Int) = false := by
      rw [← Bool.not_eq_true, reverse_table_keys tl hr]
      omega
    rw [dictGet_of_not_has _ _ hno, RdfsLemmas.revTable_getD_of_ge _ _ (by rw [tgts_length]; omega)]
    rfl

/-- the search from an arbitrary stack; fuel: one iteration per popped element -/
theorem dfs_loop_tie {A : Type} [Inhabited A] (tl : List (List (A × Nat)))
    (hr : ∀ row ∈ tl, ∀ t ∈ row, t.2 < tl.length) (stack acc : List Nat)
    (fuel : Nat) (hfuel : stack.length + E tl ≤ fuel) :
    Py.whileFuel fuel loopCond (loopBody (Ex.Rdfs.reverse_transition_list (encT tl)))
        (encL stack, encL acc, encL acc)
      = some ([], encL (dfsLoop (revTable (tgts tl)) stack acc), encL (dfsLoop (revTable (tgts tl)) stack acc)) := by
  apply loop_sim _ (tgts tl) (reverse_table_get_all tl hr) stack acc fuel
  have h1 := pot_le (revCore (tgts tl)) acc
  rw [revCore_length, E_tgts] at h1
  omega

/-- 1. the translated explicit-stack search equals the model's `dfsLoop` (no hypothesis on `acc`; the
hypothesis `hs` is not used by the proof: an out-of-range start state has no table entry on either side) -/
theorem dfs_recursive_tie {A : Type} [Inhabited A] (tl : List (List (A × Nat)))
    (hr : ∀ row ∈ tl, ∀ t ∈ row, t.2 < tl.length) (s : Nat) (hs : s < tl.length) (acc : List Nat)
    (fuel : Nat) (hfuel : E tl + 1 ≤ fuel) :
    Ex.Rdfs.reverse_dfs_recursive fuel (s : Int) (Ex.Rdfs.reverse_transition_list (encT tl))
        (acc.reverse.map Int.ofNat)
      = some ((dfsLoop (revTable (tgts tl)) [s] acc).reverse.map Int.ofNat) := by
  have _ := hs
  rw [recursive_eq]
  have h := dfs_loop_tie tl hr [s] acc fuel (by simp only [List.length_cons, List.length_nil]; omega)
  have he : encL [s] = [(s : Int)] := rfl
  rw [he] at h
  show Option.map _ (Py.whileFuel fuel loopCond _ ([(s : Int)], encL acc, encL acc)) = _
  rw [h]
  rfl

/-! ## `reverse_dfs` -/

theorem fold_finals {A : Type} [Inhabited A] (tl : List (List (A × Nat)))
    (hr : ∀ row ∈ tl, ∀ t ∈ row, t.2 < tl.length) (finals : List Nat) (hf : ∀ f ∈ finals, f < tl.length)
    (fuel : Nat) (hfuel : E tl + 1 ≤ fuel) (acc : List Nat) :
    List.foldl (fun (st1 : List Int) (it2 : Int) =>
        Py.orDefault (Ex.Rdfs.reverse_dfs_recursive fuel it2 (Ex.Rdfs.reverse_transition_list (encT tl)) st1))
      (encL acc) (finals.map Int.ofNat)
      = encL (RdfsLemmas.allFrom (revTable (tgts tl)) finals acc) := by
  induction finals generalizing acc with
  | nil => rfl
  | cons f fs ih =>
    rw [List.map_cons, List.foldl_cons]
    have h1 := dfs_recursive_tie tl hr f (hf f List.mem_cons_self) acc fuel hfuel
    show List.foldl _ (Py.orDefault (Ex.Rdfs.reverse_dfs_recursive fuel (f : Int) _ (acc.reverse.map Int.ofNat))) _ = _
    rw [h1]
    exact ih (fun x hx => hf x (List.mem_cons_of_mem _ hx)) _

/-- sorting the Python-int image of a list (in any order) = image of the sorted list -/
theorem sortInts_encL (l : List Nat) :
    Py.sortInts (encL l) = (l.mergeSort (fun a b => decide (a ≤ b))).map Int.ofNat := by
  unfold Py.sortInts encL
  apply List.Perm.eq_of_pairwise (le := fun (a b : Int) => a ≤ b)
  · intro a b _ _ h1 h2; omega
  · have := List.pairwise_mergeSort (le := fun (a b : Int) => decide (a ≤ b))
      (by intro a b c; simp only [decide_eq_true_eq]; omega)
      (by intro a b; simp only [Bool.or_eq_true, decide_eq_true_eq]; omega)
      (l.reverse.map Int.ofNat)
    simpa using this
  · have := List.pairwise_mergeSort (le := fun (a b : Nat) => decide (a ≤ b))
      (by intro a b c; simp only [decide_eq_true_eq]; omega)
      (by intro a b; simp only [Bool.or_eq_true, decide_eq_true_eq]; omega) l
    rw [List.pairwise_map]
    refine this.imp ?_
    intro a b h
    simp only [decide_eq_true_eq] at h
    simp only [Int.ofNat_eq_natCast]
    omega
  · exact (List.mergeSort_perm _ _).trans
      (((List.reverse_perm l).trans (List.mergeSort_perm l _).symm).map _)

theorem filter_encL (finals l : List Nat) :
    List.filter (fun (state : Int) => decide (¬ state ∈ finals.map Int.ofNat)) (encL l)
      = encL (l.filter (fun s => !finals.contains s)) := by
  unfold encL
  rw [← List.filter_reverse, List.filter_map]
  congr 1
  apply List.filter_congr
  intro s _
  have h := mem_encL s finals.reverse
  unfold encL at h
  simp only [List.reverse_reverse, List.mem_reverse] at h
  simp only [Function.comp, Int.ofNat_eq_natCast, h]
  by_cases hm : s ∈ finals <;> simp [hm]

/-- 2. the translated `reverse_dfs` equals the model's `reverseDfs` -/
theorem reverse_dfs_tie {A : Type} [Inhabited A] (tl : List (List (A × Nat)))
    (hr : ∀ row ∈ tl, ∀ t ∈ row, t.2 < tl.length) (finals : List Nat) (hf : ∀ f ∈ finals, f < tl.length)
    (fuel : Nat) (hfuel : E tl + 1 ≤ fuel) :
    Ex.Rdfs.reverse_dfs fuel (encT tl) (finals.map Int.ofNat) = (reverseDfs (tgts tl) finals).map Int.ofNat := by
  unfold Ex.Rdfs.reverse_dfs
  dsimp only
  have h := fold_finals tl hr finals hf fuel hfuel []
  have he : encL [] = ([] : List Int) := rfl
  rw [he] at h
  rw [h, List.map_id', filter_encL, sortInts_encL, RdfsLemmas.reverseDfs_eq]

/-! ## 3. the C07 theorems, for the translated code -/

section Code
variable {A : Type} [Inhabited A] (tl : List (List (A × Nat)))
  (hr : ∀ row ∈ tl, ∀ t ∈ row, t.2 < tl.length) (finals : List Nat) (hf : ∀ f ∈ finals, f < tl.length)
  (fuel : Nat) (hfuel : E tl + 1 ≤ fuel)
include hr hf hfuel

/-- the code's result is strictly ascending: sorted ascending and every state at most once -/
theorem code_rdfs_sorted :
    (Ex.Rdfs.reverse_dfs fuel (encT tl) (finals.map Int.ofNat)).Pairwise (· < ·) := by
  rw [reverse_dfs_tie tl hr finals hf fuel hfuel, List.pairwise_map]
  refine (C07.rdfs_sorted (tgts tl) finals).imp ?_
  intro a b h
  simp only [Int.ofNat_eq_natCast]
  omega

/-- sorted ascending -/
theorem code_rdfs_sorted_le :
    (Ex.Rdfs.reverse_dfs fuel (encT tl) (finals.map Int.ofNat)).Pairwise (· ≤ ·) :=
  (code_rdfs_sorted tl hr finals hf fuel hfuel).imp (fun h => Int.le_of_lt h)

/-- no duplicates -/
theorem code_rdfs_nodup :
    (Ex.Rdfs.reverse_dfs fuel (encT tl) (finals.map Int.ofNat)).Nodup :=
  (code_rdfs_sorted tl hr finals hf fuel hfuel).imp (fun h => Int.ne_of_lt h)

/-- membership: exactly the (Python-int images of the) non-final states from which a final state is
reachable -/
theorem code_rdfs_mem (x : Int) :
    x ∈ Ex.Rdfs.reverse_dfs fuel (encT tl) (finals.map Int.ofNat)
      ↔ ∃ s : Nat, x = (s : Int) ∧ s ∉ finals ∧ ∃ f ∈ finals, C07.Reach (tgts tl) s f := by
  rw [reverse_dfs_tie tl hr finals hf fuel hfuel, List.mem_map]
  constructor
  · rintro ⟨s, hs, rfl⟩
    exact ⟨s, rfl, (C07.rdfs_mem (tgts tl) finals (tgts_range tl hr) s).1 hs⟩
  · rintro ⟨s, rfl, h⟩
    exact ⟨s, (C07.rdfs_mem (tgts tl) finals (tgts_range tl hr) s).2 h, rfl⟩

/-- membership of a state -/
theorem code_rdfs_mem_nat (s : Nat) :
    (s : Int) ∈ Ex.Rdfs.reverse_dfs fuel (encT tl) (finals.map Int.ofNat)
      ↔ (s ∉ finals ∧ ∃ f ∈ finals, C07.Reach (tgts tl) s f) := by
  rw [code_rdfs_mem tl hr finals hf fuel hfuel]
  constructor
  · rintro ⟨s', h, h'⟩
    have : s' = s := by omega
    exact this ▸ h'
  · exact fun h => ⟨s, rfl, h⟩

/-- the result contains no final state -/
theorem code_rdfs_no_final :
    ∀ x ∈ Ex.Rdfs.reverse_dfs fuel (encT tl) (finals.map Int.ofNat), x ∉ finals.map Int.ofNat := by
  intro x hx hxf
  obtain ⟨s, rfl, hns, _⟩ := (code_rdfs_mem tl hr finals hf fuel hfuel x).1 hx
  obtain ⟨f, hfm, hfe⟩ := List.mem_map.1 hxf
  simp only [Int.ofNat_eq_natCast] at hfe
  have : f = s := by omega
  exact hns (this ▸ hfm)

/-- every member is a state `0..n-1` -/
theorem code_rdfs_range :
    ∀ x ∈ Ex.Rdfs.reverse_dfs fuel (encT tl) (finals.map Int.ofNat), 0 ≤ x ∧ x < (tl.length : Int) := by
  intro x hx
  obtain ⟨s, rfl, hns, f, hfm, hreach⟩ := (code_rdfs_mem tl hr finals hf fuel hfuel x).1 hx
  have hs : s < tl.length := by
    cases Relation.ReflTransGen.cases_head hreach with
    | inl h => exact absurd (h ▸ hfm) hns
    | inr h =>
      obtain ⟨c, hsc, _⟩ := h
      by_cases hlt : s < tl.length
      · exact hlt
      · exfalso
        have : (tgts tl).getD s [] = [] := by
          rw [List.getD_eq_getElem?_getD, List.getElem?_eq_none (by rw [tgts_length]; omega)]; rfl
        unfold C07.Edge at hsc
        rw [this] at hsc
        simp at hsc
  omega

/-- sortedness and membership determine the code's output uniquely -/
theorem code_rdfs_unique (l : List Nat) (hs : l.Pairwise (· < ·))
    (hm : ∀ s, s ∈ l ↔ (s ∉ finals ∧ ∃ f ∈ finals, C07.Reach (tgts tl) s f)) :
    Ex.Rdfs.reverse_dfs fuel (encT tl) (finals.map Int.ofNat) = l.map Int.ofNat := by
  rw [reverse_dfs_tie tl hr finals hf fuel hfuel,
    C07.rdfs_unique (tgts tl) finals (tgts_range tl hr) l hs hm]

end Code

/-! ## Non-vacuity -/

/-- the example graph of `CR.Props.C07` with labels: `tgts gA = C07.g` -/
def gA : List (List (Unit × Nat)) := C07.g.map (·.map (fun v => ((), v)))

example : tgts gA = C07.g := by decide
example : E gA = 13 := by decide

/-- the hypotheses of `dfs_recursive_tie` / `reverse_dfs_tie` / the corollaries are satisfiable -/
example : (∀ row ∈ gA, ∀ t ∈ row, t.2 < gA.length) ∧ 4 < gA.length ∧ (∀ f ∈ [4, 3], f < gA.length)
    ∧ E gA + 1 ≤ 14 := by decide

/-- the tie theorems applied to the example (the sort does not reduce in the kernel, so the code's final value
is obtained through `reverse_dfs_tie`; `#eval` of the left-hand sides gives the same lists); the search
itself, before the sort, is evaluated directly below -/
example : Ex.Rdfs.reverse_dfs 14 (encT gA) ([4].map Int.ofNat) = [0, 1, 2, 3, 7] := by
  rw [reverse_dfs_tie gA (by decide) [4] (by decide) 14 (by decide), show tgts gA = C07.g from by decide]
  simp [reverseDfs, revTable, revCore, C07.g, dfsLoop, List.zipIdx, List.mergeSort,
    List.MergeSort.Internal.splitInTwo]
example : Ex.Rdfs.reverse_dfs 14 (encT gA) ([4, 3].map Int.ofNat) = [0, 1, 2, 7] := by
  rw [reverse_dfs_tie gA (by decide) [4, 3] (by decide) 14 (by decide), show tgts gA = C07.g from by decide]
  simp [reverseDfs, revTable, revCore, C07.g, dfsLoop, List.zipIdx, List.mergeSort,
    List.MergeSort.Internal.splitInTwo]
example : Ex.Rdfs.reverse_dfs_recursive 14 (4 : Nat) (Ex.Rdfs.reverse_transition_list (encT gA)) []
    = some [4, 3, 1, 0, 2, 7] := by decide

/-- the fuel bound `E tl + 1` is tight: a path `2 → 1 → 0` searched from `0` pops `E + 1 = 3` elements,
with fuel `E = 2` the loop is cut off -/
example : Ex.Rdfs.reverse_dfs_recursive 2 (0 : Nat)
      (Ex.Rdfs.reverse_transition_list (encT [[], [((), 0)], [((), 1)]])) [] = none
    ∧ Ex.Rdfs.reverse_dfs_recursive 3 (0 : Nat)
      (Ex.Rdfs.reverse_transition_list (encT [[], [((), 0)], [((), 1)]])) [] = some [0, 1, 2] := by decide

end CR.Tie
