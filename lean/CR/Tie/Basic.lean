/-
Generic lemmas that turn the shape of code emitted by `harness/py2lean.py` (nested `List.foldl` over
`Py.range` appending one element per iteration) into the shape of the hand-written model (`grid`).
-/
import CR.Extracted.Prelude
import CR.Model.Gen
import Mathlib.Tactic.SplitIfs

namespace CR.Tie
open CR CR.Gen

theorem foldl_append_singleton {β γ : Type} (f : γ → β) (l : List γ) (init : List β) :
    List.foldl (fun st x => st ++ [f x]) init l = init ++ l.map f := by
  induction l generalizing init with
  | nil => simp
  | cons x xs ih => simp [ih]

theorem foldl_flat {β γ : Type} (g : γ → List β) (l : List γ) (init : List β) :
    List.foldl (fun st x => st ++ g x) init l = init ++ l.flatMap g := by
  induction l generalizing init with
  | nil => simp
  | cons x xs ih => simp [ih]

/-- two nested `for … in range(…)` loops that append one value per inner iteration build `grid` -/
theorem fold_grid {β : Type} (L W : Nat) (f : Int → Int → β) (init : List β) :
    List.foldl (fun st i => List.foldl (fun st j => st ++ [f i j]) st (Py.range W)) init (Py.range L)
      = init ++ grid L W (fun i j => f i j) := by
  simp only [foldl_append_singleton]
  rw [foldl_flat (fun i => (Py.range (W : Int)).map (f i))]
  simp [grid, Py.range, List.flatMap_map, List.map_map, Function.comp_def]

theorem grid_map {β γ : Type} (L W : Nat) (f : Nat → Nat → β) (g : β → γ) :
    (grid L W f).map g = grid L W (fun i j => g (f i j)) := by
  simp [grid, List.map_flatMap, List.map_map, Function.comp_def]

theorem grid_congr {β : Type} (L W : Nat) (f g : Nat → Nat → β)
    (h : ∀ i < L, ∀ j < W, f i j = g i j) : grid L W f = grid L W g := by
  unfold grid
  have key : ∀ (l : List Nat), (∀ i ∈ l, i < L) →
      l.flatMap (fun i => (List.range W).map (fun j => f i j))
        = l.flatMap (fun i => (List.range W).map (fun j => g i j)) := by
    intro l
    induction l with
    | nil => simp
    | cons x xs ih =>
      intro hl
      simp only [List.flatMap_cons]
      rw [ih (fun i hi => hl i (List.mem_cons_of_mem _ hi))]
      congr 1
      apply List.map_congr_left
      intro j hj
      exact h x (hl x List.mem_cons_self) j (by simpa using hj)
  exact key _ (fun i hi => by simpa using hi)


/-- nested loops whose inner body appends a (possibly empty) list -/
theorem fold_gridL {β : Type} (L W : Nat) (F : List β → Int → Int → List β) (g : Int → Int → List β)
    (hF : ∀ st i j, F st i j = st ++ g i j) (init : List β) :
    List.foldl (fun st i => List.foldl (fun st j => F st i j) st (Py.range W)) init (Py.range L)
      = init ++ (List.range L).flatMap (fun i => (List.range W).flatMap (fun j => g (i : Nat) (j : Nat))) := by
  simp only [hF, foldl_flat]
  simp [Py.range, List.flatMap_map, Function.comp_def]

/-- nested loops over a pair state whose first component is overwritten by a value `h i j` that is also
appended to the second (the shape of `player_two_transitions`: `transition` is carried by the loops) -/
theorem fold_grid_pair {β : Type} (L W : Nat) (F : β × List β → Int → Int → β × List β) (h : Int → Int → β)
    (hF : ∀ st i j, F st i j = (h i j, st.2 ++ [h i j])) (st0 : β × List β) :
    (List.foldl (fun st i => List.foldl (fun st j => F st i j) st (Py.range W)) st0 (Py.range L)).2
      = st0.2 ++ grid L W (fun i j => h i j) := by
  simp only [hF]
  have inner : ∀ (i : Int) (l : List Int) (st : β × List β),
      (List.foldl (fun st j => (h i j, st.2 ++ [h i j])) st l).2 = st.2 ++ l.map (h i) := by
    intro i l
    induction l with
    | nil => simp
    | cons x xs ih => intro st; simp [ih]
  have outer : ∀ (l : List Int) (st : β × List β),
      (List.foldl (fun st i => List.foldl (fun st j => (h i j, st.2 ++ [h i j])) st (Py.range W)) st l).2
        = st.2 ++ l.flatMap (fun i => (Py.range W).map (h i)) := by
    intro l
    induction l with
    | nil => simp
    | cons x xs ih => intro st; simp [ih, inner]
  rw [outer]
  simp [grid, Py.range, List.flatMap_map, List.map_map, Function.comp_def]

theorem gridOpt_eq_flatMap {β : Type} (L W : Nat) (f : Nat → Nat → Option β) :
    gridOpt L W f = (List.range L).flatMap (fun i => (List.range W).flatMap (fun j => (f i j).toList)) := by
  unfold gridOpt
  congr 1
  funext i
  induction (List.range W) with
  | nil => simp
  | cons x xs ih => cases hx : f i x <;> simp [hx, ih]

theorem flatMap_grid_congr {β : Type} (L W : Nat) (f g : Nat → Nat → List β)
    (h : ∀ i < L, ∀ j < W, f i j = g i j) :
    (List.range L).flatMap (fun i => (List.range W).flatMap (fun j => f i j))
      = (List.range L).flatMap (fun i => (List.range W).flatMap (fun j => g i j)) := by
  have key : ∀ (l : List Nat), (∀ i ∈ l, i < L) →
      l.flatMap (fun i => (List.range W).flatMap (fun j => f i j))
        = l.flatMap (fun i => (List.range W).flatMap (fun j => g i j)) := by
    intro l
    induction l with
    | nil => simp
    | cons x xs ih =>
      intro hl
      simp only [List.flatMap_cons]
      rw [ih (fun i hi => hl i (List.mem_cons_of_mem _ hi))]
      congr 1
      have k2 : ∀ (m : List Nat), (∀ j ∈ m, j < W) →
          m.flatMap (fun j => f x j) = m.flatMap (fun j => g x j) := by
        intro m
        induction m with
        | nil => simp
        | cons y ys ih2 =>
          intro hm
          simp only [List.flatMap_cons]
          rw [ih2 (fun j hj => hm j (List.mem_cons_of_mem _ hj)), h x (hl x List.mem_cons_self) y (hm y List.mem_cons_self)]
      exact k2 _ (fun j hj => by simpa using hj)
  exact key _ (fun i hi => by simpa using hi)

/-- a board matrix as the code sees it -/
def encM (m : List (List Nat)) : List (List Int) := m.map (·.map Int.ofNat)

theorem idx_nat {β : Type} [Inhabited β] (xs : List β) (i : Nat) : Py.idx xs (i : Int) = xs.getD i default := by
  unfold Py.idx
  have : ¬ ((i : Int) < 0) := by omega
  simp [this]

theorem idx_encM (m : List (List Nat)) (i j : Nat) :
    Py.idx (Py.idx (encM m) (i : Int)) (j : Int) = (((m.getD i []).getD j 0 : Nat) : Int) := by
  rw [idx_nat, idx_nat]
  unfold encM
  by_cases hi : i < m.length
  · simp [List.getD_eq_getElem?_getD, hi]
    by_cases hj : j < (m[i]).length
    · simp [hj]
    · simp [List.getElem?_eq_none (Nat.le_of_not_lt hj)]
  · simp [List.getD_eq_getElem?_getD, List.getElem?_eq_none (Nat.le_of_not_lt hi)]
    rfl

@[simp] theorem idx_cons_zero {β : Type} [Inhabited β] (a : β) (l : List β) : Py.idx (a :: l) 0 = a := by
  simp [Py.idx]
@[simp] theorem idx_cons_one {β : Type} [Inhabited β] (a b : β) (l : List β) : Py.idx (a :: b :: l) 1 = b := by
  simp [Py.idx]
@[simp] theorem idx_cons_two {β : Type} [Inhabited β] (a b c : β) (l : List β) :
    Py.idx (a :: b :: c :: l) 2 = c := by
  simp [Py.idx]

/-- how a model transition shows in the extracted code: probability rows and action rows -/
def encP (t : Tr Float) : Float × Int := (t.p, (t.tgt : Int))
def encA (t : Tr Float) : String × Int := (t.act, (t.tgt : Int))

end CR.Tie
