/-
Tie theorems, second part, for `roberta_generator.py` and `stochastic_game_from_roborta_board.py`:
`player_one_left_right_transitions`, `check_input`, `prob_to_str`, the file names, `get_max_from_matrix`,
`create_sg_from_board` and the assembly of the three games (`write_robot_A/B/C`).  Left sides are the
mechanical translations (CR/Extracted/Gen.lean, CR/Extracted/Manual.lean), right sides the hand-written model
(CR/Model/Gen.lean); every theorem holds for all arguments.
-/
import CR.Tie.Basic
import CR.Tie.Gen
import CR.Extracted.Gen
import CR.Extracted.Manual

namespace CR.Tie
open CR CR.Gen

/-- the `[Left, Right]` pair computed by the code before it looks at the arrow of the tile -/
def lrI (W offL offR i j : Int) : List (String × Int) :=
  if offL ≠ offR then [("Left", offL + i * W + j), ("Right", offR + i * W + j)]
  else if j = 0 then [("Left", offL + i * W + W - 1), ("Right", offR + i * W + (j + 1).fmod W)]
  else if j = W - 1 then [("Left", offL + i * W + j - 1), ("Right", offR + i * W)]
  else [("Left", offL + i * W + j - 1), ("Right", offR + i * W + j + 1)]

theorem player_one_left_right_tie (L W : Nat) (b : Board) (offL offR : Nat) :
    Ex.Gen.player_one_left_right_transitions L W (encM b.moves) offL offR
      = (playerOneLeftRight (α := Float) L W b offL offR).map (·.map encA) := by
  unfold Ex.Gen.player_one_left_right_transitions playerOneLeftRight
  simp only [List.nil_append, List.cons_append]
  rw [fold_gridL L W _ (fun i j =>
      if Py.idx (Py.idx (encM b.moves) i) j = 0 then [[Py.idx (lrI W offL offR i j) 0]]
      else if Py.idx (Py.idx (encM b.moves) i) j = 1 then [lrI W offL offR i j]
      else if Py.idx (Py.idx (encM b.moves) i) j = 2 then [[Py.idx (lrI W offL offR i j) 1]]
      else if Py.idx (Py.idx (encM b.moves) i) j = 3 then [[("Etha", 0)]]
      else [])
    (by intro st i j
        by_cases h0 : Py.idx (Py.idx (encM b.moves) i) j = 0
        · simp only [if_pos h0, lrI]
        by_cases h1 : Py.idx (Py.idx (encM b.moves) i) j = 1
        · simp only [if_neg h0, if_pos h1, lrI]
        by_cases h2 : Py.idx (Py.idx (encM b.moves) i) j = 2
        · simp only [if_neg h0, if_neg h1, if_pos h2, lrI]
        by_cases h3 : Py.idx (Py.idx (encM b.moves) i) j = 3
        · simp only [if_neg h0, if_neg h1, if_neg h2, if_pos h3, lrI]
        · simp only [if_neg h0, if_neg h1, if_neg h2, if_neg h3, List.append_nil])]
  rw [gridOpt_eq_flatMap, List.map_flatMap]
  simp only [List.nil_append, List.map_flatMap]
  apply flatMap_grid_congr
  intro i hi j hj
  rw [idx_encM]
  have e0 : ((((b.moves.getD i []).getD j 0 : Nat) : Int) = 0) ↔ b.mv i j = 0 := by unfold Board.mv; omega
  have e1 : ((((b.moves.getD i []).getD j 0 : Nat) : Int) = 1) ↔ b.mv i j = 1 := by unfold Board.mv; omega
  have e2 : ((((b.moves.getD i []).getD j 0 : Nat) : Int) = 2) ↔ b.mv i j = 2 := by unfold Board.mv; omega
  have e3 : ((((b.moves.getD i []).getD j 0 : Nat) : Int) = 3) ↔ b.mv i j = 3 := by unfold Board.mv; omega
  simp only [e0, e1, e2, e3]
  generalize hpq : (if offL ≠ offR then (act (α := Float) "Left" (offL + i * W + j), act (α := Float) "Right" (offR + i * W + j))
      else if j = 0 then (act "Left" (offL + i * W + W - 1), act "Right" (offR + i * W + (j + 1) % W))
      else if j = W - 1 then (act "Left" (offL + i * W + j - 1), act "Right" (offR + i * W))
      else (act "Left" (offL + i * W + j - 1), act "Right" (offR + i * W + j + 1))) = pq
  have hl : lrI W offL offR i j = [encA pq.1, encA pq.2] := by
    rw [← hpq]
    unfold lrI
    have c0 : ((offL : Int) ≠ (offR : Int)) ↔ offL ≠ offR := by omega
    have c1 : ((j : Int) = 0) ↔ j = 0 := by omega
    have c2 : ((j : Int) = (W : Int) - 1) ↔ j = W - 1 := by omega
    rw [Int.fmod_eq_emod_of_nonneg _ (Int.natCast_nonneg W)]
    simp only [c0, c1, c2]
    split_ifs <;> simp [encA, act] <;> omega
  rw [hl]
  rcases hm : b.mv i j with _ | _ | _ | _ | n <;> simp [encA, act]

/-! ### `check_input`, `prob_to_str`, file names -/

def checkInputMsg : Nat → String
  | 0 => "The seed must be a nonnegative integer"
  | 1 => "The width must be a positive integer"
  | 2 => "The length must be a positive integer"
  | 3 => "The failure probability of the robot must be a float in (0,1)"
  | 4 => "The failure probability of the light must be a float in (0,1)"
  | 5 => "The probability of a tile being loose must be a float in (0,1)"
  | 6 => "The probability of a tile breaking must be a float in (0,1)"
  | 7 => "The maximum reward must be a positive integer"
  | _ => ""

theorem check_input_tie (seed width length : Int) (pr pl plo pt : Float) (mr : Int) :
    Ex.Gen.check_input seed width length pr pl plo pt mr
      = (match checkInput seed width length pr pl plo pt mr with
         | none => Except.ok ()
         | some k => Except.error (checkInputMsg k)) := by
  unfold Ex.Gen.check_input checkInput
  simp only [Bool.or_eq_true, decide_eq_true_eq]
  split_ifs <;> rfl

theorem toString_ofNat (n : Nat) : toString (Int.ofNat n) = toString n := rfl
theorem toString_natCast (n : Nat) : toString ((n : Nat) : Int) = toString n := rfl

theorem prob_to_str_tie (p : Float) : Ex.Gen.prob_to_str p = probToStr p := by
  unfold Ex.Gen.prob_to_str probToStr probToNat Py.round
  rfl

theorem main_file_name_tie (seed width length maxReward : Nat) (pr pl pt plo : Float) (fd : Bool) :
    Ex.Gen.main_file_name seed width length maxReward pr pl pt plo fd
      = fileName seed width length maxReward pr pl pt plo fd := by
  unfold Ex.Gen.main_file_name fileName
  simp only [prob_to_str_tie, toString_natCast]

theorem foldl_max_cast (xs : List Nat) (a : Nat) :
    (xs.map Int.ofNat).foldl max (a : Int) = ((xs.foldl max a : Nat) : Int) := by
  induction xs generalizing a with
  | nil => rfl
  | cons x xs ih =>
    simp only [List.map_cons, List.foldl_cons]
    rw [← ih]
    congr 1
    show max (a : Int) (x : Int) = ((max a x : Nat) : Int)
    omega

theorem maxList_cast (xs : List Nat) :
    Py.maxList (xs.map Int.ofNat) = ((xs.foldl max 0 : Nat) : Int) := by
  cases xs with
  | nil => rfl
  | cons x xs =>
    simp only [List.map_cons, Py.maxList, List.foldl_cons, Nat.zero_max]
    exact foldl_max_cast xs x

theorem get_max_from_matrix_tie (m : List (List Nat)) :
    Ex.Gen.get_max_from_matrix (encM m) = (((m.map (fun r => r.foldl max 0)).foldl max 0 : Nat) : Int) := by
  unfold Ex.Gen.get_max_from_matrix encM
  rw [List.map_map]
  have : ((fun row => Py.maxList row) ∘ fun x : List Nat => List.map Int.ofNat x)
      = Int.ofNat ∘ (fun r : List Nat => r.foldl max 0) := by
    funext r; simp [maxList_cast]
  rw [this, ← List.map_map, maxList_cast]

theorem ite_force (k : Nat) (a b : String) :
    (if decide (((k : Nat) : Int) + 1 = 4) = true then a else b) = (if k + 1 = 4 then a else b) := by
  have e : (((k : Nat) : Int) + 1 = 4) ↔ k + 1 = 4 := by omega
  by_cases h : k + 1 = 4
  · rw [if_pos h, if_pos (by simpa using e.2 h)]
  · rw [if_neg h, if_neg (by simpa using fun h' => h (e.1 h'))]

theorem create_sg_from_board_tie (b : Board) (pr pl pt : Float) :
    Ex.Gen.create_sg_from_board (encM b.moves) (encM b.rewards) (encM b.loose) pr pl pt = manualFileName b pr pl pt := by
  unfold Ex.Gen.create_sg_from_board manualFileName
  simp only [prob_to_str_tie, get_max_from_matrix_tie]
  have h1 : Py.len (encM b.moves) = ((b.moves.length : Nat) : Int) := by simp [Py.len, encM]
  have h2 : Py.len (Py.idx (encM b.moves) 0) = (((b.moves.getD 0 []).length : Nat) : Int) := by
    have := idx_nat (encM b.moves) 0
    rw [show (0 : Int) = ((0 : Nat) : Int) from rfl, this]
    unfold Py.len encM
    cases b.moves with
    | nil => rfl
    | cons r rs => simp
  rw [h1, h2]
  simp only [toString_natCast]
  rw [ite_force]

/-! ### assembly of the three games -/

def slotA (t : Tr Float) : Py.Slot × Int := (Py.Slot.act t.act, (t.tgt : Int))
def slotP (t : Tr Float) : Py.Slot × Int := (Py.Slot.prob t.p, (t.tgt : Int))
def ownerStr : Owner → String
  | .p1 => "Player 1"
  | .p2 => "Player 2"
  | .prob => "Probabilistic"

def encTlA (L W : Nat) (b : Board) (p : Float) : List (List (Py.Slot × Int)) :=
  let n := L * W
  (playerTwo (α := Float) L W b (1 * n) (2 * n)).map (·.map slotA)
  ++ (playerOneDown (α := Float) L W (3 * n) (some (n * 4 + 1))).map (·.map slotA)
  ++ (playerOneLeftRight (α := Float) L W b (3 * n) (3 * n)).map (·.map slotA)
  ++ (probTileBreak (α := Float) L W p b 0 (n * 4)).map (·.map slotP)
  ++ [[(Py.Slot.prob 1, ((n * 4 : Nat) : Int))], [(Py.Slot.prob 1, ((n * 4 + 1 : Nat) : Int))]]

def encTlB (L W : Nat) (b : Board) (pTile pRobot : Float) : List (List (Py.Slot × Int)) :=
  let n := L * W
  (playerTwo (α := Float) L W b (1 * n) (2 * n)).map (·.map slotA)
  ++ (playerOneDown (α := Float) L W (4 * n) none).map (·.map slotA)
  ++ (playerOneLeftRight (α := Float) L W b (5 * n) (6 * n)).map (·.map slotA)
  ++ (probTileBreak (α := Float) L W pTile b 0 (n * 7)).map (·.map slotP)
  ++ (probRobotDownBreak (α := Float) L W pRobot (3 * n) (n * 7 + 1)).map (·.map slotP)
  ++ (probRobotLeftBreak (α := Float) L W pRobot (3 * n)).map (·.map slotP)
  ++ (probRobotRightBreak (α := Float) L W pRobot (3 * n)).map (·.map slotP)
  ++ [[(Py.Slot.prob 1, ((n * 7 : Nat) : Int))], [(Py.Slot.prob 1, ((n * 7 + 1 : Nat) : Int))]]

def encTlC (L W : Nat) (b : Board) (pTile pRobot pLight : Float) : List (List (Py.Slot × Int)) :=
  let n := L * W
  (playerTwo (α := Float) L W b (8 * n) (9 * n)).map (·.map slotA)
  ++ (playerOneDown (α := Float) L W (5 * n) none).map (·.map slotA)
  ++ (playerOneLeftRight (α := Float) L W b (6 * n) (7 * n)).map (·.map slotA)
  ++ (playerOneDownLeftRight (α := Float) L W b (5 * n) (6 * n) (7 * n)).map (·.map slotA)
  ++ (probTileBreak (α := Float) L W pTile b 0 (n * 10)).map (·.map slotP)
  ++ (probRobotDownBreak (α := Float) L W pRobot (4 * n) (n * 10 + 1)).map (·.map slotP)
  ++ (probRobotLeftBreak (α := Float) L W pRobot (4 * n)).map (·.map slotP)
  ++ (probRobotRightBreak (α := Float) L W pRobot (4 * n)).map (·.map slotP)
  ++ (probLightBreak (α := Float) L W pLight (1 * n) (3 * n)).map (·.map slotP)
  ++ (probLightBreak (α := Float) L W pLight (2 * n) (3 * n)).map (·.map slotP)
  ++ [[(Py.Slot.prob 1, ((n * 10 : Nat) : Int))], [(Py.Slot.prob 1, ((n * 10 + 1 : Nat) : Int))]]

theorem map_act_encA (l : List (List (Tr Float))) :
    List.map (fun c1 => List.map (fun c2 : String × Int => (Py.Slot.act c2.1, c2.2)) c1) (l.map (·.map encA))
      = l.map (·.map slotA) := by
  simp [List.map_map, Function.comp_def, encA, slotA]

theorem map_prob_encP (l : List (List (Tr Float))) :
    List.map (fun c1 => List.map (fun c2 : Float × Int => (Py.Slot.prob c2.1, c2.2)) c1) (l.map (·.map encP))
      = l.map (·.map slotP) := by
  simp [List.map_map, Function.comp_def, encP, slotP]

theorem range_map_const {β : Type} (n : Nat) (s : β) :
    (Py.range (n : Int)).map (fun _ => s) = List.replicate n s := by
  simp [Py.range, List.map_map, Function.comp_def, List.map_const']

theorem listMul_zero (n k : Nat) :
    Py.listMul (Py.listMul [(0 : Int)] (n : Int)) (k : Int) = List.replicate (n * k) 0 := by
  simp [Py.listMul]
  exact Nat.mul_comm _ _

theorem flat_rewards (m : List (List Nat)) :
    List.flatMap (fun sublist => List.map (fun reward : Int => reward) sublist) (encM m)
      = (m.flatMap id).map Int.ofNat := by
  simp [encM, List.flatMap_def, Function.comp_def]

/-- the builders as they are called by `write_robot_*`: any integer offsets that are casts of naturals -/
theorem p2_slot (L W : Nat) (b : Board) (oR oY : Nat) (x y : Int) (hx : x = oR) (hy : y = oY) :
    List.map (fun c1 => List.map (fun c2 : String × Int => (Py.Slot.act c2.1, c2.2)) c1)
        (Ex.Gen.player_two_transitions L W (encM b.moves) x y)
      = (playerTwo (α := Float) L W b oR oY).map (·.map slotA) := by
  subst hx hy; rw [player_two_tie, map_act_encA]

theorem p1d_none_slot (L W : Nat) (o : Nat) (x : Int) (hx : x = o) :
    List.map (fun c1 => List.map (fun c2 : String × Int => (Py.Slot.act c2.1, c2.2)) c1)
        (Ex.Gen.player_one_down_transitions L W x none)
      = (playerOneDown (α := Float) L W o none).map (·.map slotA) := by
  subst hx
  have := player_one_down_tie L W o none (by simp)
  rw [Option.map_none] at this
  rw [this, map_act_encA]

theorem p1d_some_slot (L W : Nat) (o w : Nat) (x y : Int) (hx : x = o) (hy : y = w) (hw : w ≠ 0) :
    List.map (fun c1 => List.map (fun c2 : String × Int => (Py.Slot.act c2.1, c2.2)) c1)
        (Ex.Gen.player_one_down_transitions L W x (some y))
      = (playerOneDown (α := Float) L W o (some w)).map (·.map slotA) := by
  subst hx hy
  have := player_one_down_tie L W o (some w) (by simpa using hw)
  rw [Option.map_some] at this
  rw [← map_act_encA, ← this]
  rfl

theorem p1lr_slot (L W : Nat) (b : Board) (oL oR : Nat) (x y : Int) (hx : x = oL) (hy : y = oR) :
    List.map (fun c1 => List.map (fun c2 : String × Int => (Py.Slot.act c2.1, c2.2)) c1)
        (Ex.Gen.player_one_left_right_transitions L W (encM b.moves) x y)
      = (playerOneLeftRight (α := Float) L W b oL oR).map (·.map slotA) := by
  subst hx hy; rw [player_one_left_right_tie, map_act_encA]

theorem p1dlr_slot (L W : Nat) (b : Board) (oD oL oR : Nat) (z x y : Int) (hz : z = oD) (hx : x = oL) (hy : y = oR) :
    List.map (fun c1 => List.map (fun c2 : String × Int => (Py.Slot.act c2.1, c2.2)) c1)
        (Ex.Gen.player_one_down_left_right_transitions L W (encM b.moves) z x y)
      = (playerOneDownLeftRight (α := Float) L W b oD oL oR).map (·.map slotA) := by
  subst hz hx hy; rw [player_one_down_left_right_tie, map_act_encA]

theorem ptb_slot (L W : Nat) (p : Float) (b : Board) (o l : Nat) (x y : Int) (hx : x = o) (hy : y = l) :
    List.map (fun c1 => List.map (fun c2 : Float × Int => (Py.Slot.prob c2.1, c2.2)) c1)
        (Ex.Gen.prob_tile_break_transitions L W p (encM b.loose) x y)
      = (probTileBreak (α := Float) L W p b o l).map (·.map slotP) := by
  subst hx hy; rw [prob_tile_break_tie, map_prob_encP]

theorem prd_slot (L W : Nat) (p : Float) (o w : Nat) (x y : Int) (hx : x = o) (hy : y = w) :
    List.map (fun c1 => List.map (fun c2 : Float × Int => (Py.Slot.prob c2.1, c2.2)) c1)
        (Ex.Gen.prob_robot_down_break_transitions L W p x y)
      = (probRobotDownBreak (α := Float) L W p o w).map (·.map slotP) := by
  subst hx hy; rw [prob_robot_down_break_tie, map_prob_encP]

theorem prl_slot (L W : Nat) (p : Float) (o : Nat) (x : Int) (hx : x = o) :
    List.map (fun c1 => List.map (fun c2 : Float × Int => (Py.Slot.prob c2.1, c2.2)) c1)
        (Ex.Gen.prob_robot_left_break_transitions L W p x)
      = (probRobotLeftBreak (α := Float) L W p o).map (·.map slotP) := by
  subst hx; rw [prob_robot_left_break_tie, map_prob_encP]

theorem prr_slot (L W : Nat) (p : Float) (o : Nat) (x : Int) (hx : x = o) :
    List.map (fun c1 => List.map (fun c2 : Float × Int => (Py.Slot.prob c2.1, c2.2)) c1)
        (Ex.Gen.prob_robot_right_break_transitions L W p x)
      = (probRobotRightBreak (α := Float) L W p o).map (·.map slotP) := by
  subst hx; rw [prob_robot_right_break_tie, map_prob_encP]

theorem plb_slot (L W : Nat) (p : Float) (o k : Nat) (x y : Int) (hx : x = o) (hy : y = k) :
    List.map (fun c1 => List.map (fun c2 : Float × Int => (Py.Slot.prob c2.1, c2.2)) c1)
        (Ex.Gen.prob_light_break_transitions L W p x y)
      = (probLightBreak (α := Float) L W p o k).map (·.map slotP) := by
  subst hx hy; rw [prob_light_break_tie, map_prob_encP]

/-- the rewards column: the board's rewards, then zeros -/
theorem rewards_col (m : List (List Nat)) (n k : Nat) (x y : Int) (hx : x = n) (hy : y = k) :
    List.flatMap (fun sublist => List.map (fun reward : Int => reward) sublist) (encM m)
        ++ Py.listMul (Py.listMul [(0 : Int)] x) y ++ [0, 0]
      = ((m.flatMap id) ++ List.replicate (n * k) 0 ++ [0, 0]).map Int.ofNat := by
  subst hx hy
  rw [flat_rewards, listMul_zero]
  simp

/-- the players column -/
theorem owners_col (n a c : Nat) (x y z : Int) (hx : x = n) (hy : y = a) (hz : z = c) :
    List.map (fun _ => "Player 2") (Py.range x) ++ List.map (fun _ => "Player 1") (Py.range y)
        ++ List.map (fun _ => "Probabilistic") (Py.range z) ++ ["Probabilistic", "Probabilistic"]
      = (List.replicate n Owner.p2 ++ List.replicate a Owner.p1 ++ List.replicate c Owner.prob
          ++ [Owner.prob, Owner.prob]).map ownerStr := by
  subst hx hy hz
  simp only [range_map_const]
  simp [ownerStr]

theorem write_robot_A_tie (L W : Nat) (b : Board) (p : Float) :
    Ex.Gen.write_robot_A L W (encM b.moves) (encM b.rewards) (encM b.loose) p
      = ((gameA (α := Float) L W b p).rewards.map Int.ofNat, (gameA (α := Float) L W b p).owners.map ownerStr,
         encTlA L W b p, (gameA (α := Float) L W b p).finals.map Int.ofNat) := by
  unfold Ex.Gen.write_robot_A gameA encTlA
  dsimp only
  rw [rewards_col b.rewards (L * W) 3 _ _ (by omega) (by omega),
    owners_col (L * W) (L * W * 2) (L * W * 1) _ _ _ (by omega) (by omega) (by omega),
    p2_slot L W b (1 * (L * W)) (2 * (L * W)) _ _ (by omega) (by omega),
    p1d_some_slot L W (3 * (L * W)) (L * W * 4 + 1) _ _ (by omega) (by omega) (by omega),
    p1lr_slot L W b (3 * (L * W)) (3 * (L * W)) _ _ (by omega) (by omega),
    ptb_slot L W p b 0 (L * W * 4) _ _ (by omega) (by omega)]
  rw [show ((L : Int) * W * 4 + 1) = ((L * W * 4 + 1 : Nat) : Int) by omega,
    show ((L : Int) * W * 4) = ((L * W * 4 : Nat) : Int) by omega]
  simp [flatRewards]

theorem write_robot_B_tie (L W : Nat) (b : Board) (pTile pRobot : Float) :
    Ex.Gen.write_robot_B L W (encM b.moves) (encM b.rewards) (encM b.loose) pTile pRobot
      = ((gameB (α := Float) L W b pTile pRobot).rewards.map Int.ofNat,
         (gameB (α := Float) L W b pTile pRobot).owners.map ownerStr,
         encTlB L W b pTile pRobot, (gameB (α := Float) L W b pTile pRobot).finals.map Int.ofNat) := by
  unfold Ex.Gen.write_robot_B gameB encTlB
  dsimp only
  rw [rewards_col b.rewards (L * W) 6 _ _ (by omega) (by omega),
    owners_col (L * W) (L * W * 2) (L * W * 4) _ _ _ (by omega) (by omega) (by omega),
    p2_slot L W b (1 * (L * W)) (2 * (L * W)) _ _ (by omega) (by omega),
    p1d_none_slot L W (4 * (L * W)) _ (by omega),
    p1lr_slot L W b (5 * (L * W)) (6 * (L * W)) _ _ (by omega) (by omega),
    ptb_slot L W pTile b 0 (L * W * 7) _ _ (by omega) (by omega),
    prd_slot L W pRobot (3 * (L * W)) (L * W * 7 + 1) _ _ (by omega) (by omega),
    prl_slot L W pRobot (3 * (L * W)) _ (by omega),
    prr_slot L W pRobot (3 * (L * W)) _ (by omega)]
  rw [show ((L : Int) * W * 7 + 1) = ((L * W * 7 + 1 : Nat) : Int) by omega,
    show ((L : Int) * W * 7) = ((L * W * 7 : Nat) : Int) by omega]
  simp [flatRewards]

theorem write_robot_C_tie (L W : Nat) (b : Board) (pTile pRobot pLight : Float) :
    Ex.Gen.write_robot_C L W (encM b.moves) (encM b.rewards) (encM b.loose) pTile pRobot pLight
      = ((gameC (α := Float) L W b pTile pRobot pLight).rewards.map Int.ofNat,
         (gameC (α := Float) L W b pTile pRobot pLight).owners.map ownerStr,
         encTlC L W b pTile pRobot pLight, (gameC (α := Float) L W b pTile pRobot pLight).finals.map Int.ofNat) := by
  unfold Ex.Gen.write_robot_C gameC encTlC
  dsimp only
  rw [rewards_col b.rewards (L * W) 9 _ _ (by omega) (by omega),
    owners_col (L * W) (L * W * 3) (L * W * 6) _ _ _ (by omega) (by omega) (by omega),
    p2_slot L W b (8 * (L * W)) (9 * (L * W)) _ _ (by omega) (by omega),
    p1d_none_slot L W (5 * (L * W)) _ (by omega),
    p1lr_slot L W b (6 * (L * W)) (7 * (L * W)) _ _ (by omega) (by omega),
    p1dlr_slot L W b (5 * (L * W)) (6 * (L * W)) (7 * (L * W)) _ _ _ (by omega) (by omega) (by omega),
    ptb_slot L W pTile b 0 (L * W * 10) _ _ (by omega) (by omega),
    prd_slot L W pRobot (4 * (L * W)) (L * W * 10 + 1) _ _ (by omega) (by omega),
    prl_slot L W pRobot (4 * (L * W)) _ (by omega),
    prr_slot L W pRobot (4 * (L * W)) _ (by omega),
    plb_slot L W pLight (1 * (L * W)) (3 * (L * W)) _ _ (by omega) (by omega),
    plb_slot L W pLight (2 * (L * W)) (3 * (L * W)) _ _ (by omega) (by omega)]
  rw [show ((L : Int) * W * 10 + 1) = ((L * W * 10 + 1 : Nat) : Int) by omega,
    show ((L : Int) * W * 10) = ((L * W * 10 : Nat) : Int) by omega]
  simp [flatRewards]

/-! the encoded lists carry exactly the targets of the model's own transition lists -/

theorem slotA_snd (l : List (List (Tr Float))) :
    (l.map (·.map slotA)).map (·.map (·.2)) = l.map (·.map (fun t => (t.tgt : Int))) := by
  simp [List.map_map, Function.comp_def, slotA]

theorem slotP_snd (l : List (List (Tr Float))) :
    (l.map (·.map slotP)).map (·.map (·.2)) = l.map (·.map (fun t => (t.tgt : Int))) := by
  simp [List.map_map, Function.comp_def, slotP]

theorem encTlA_targets (L W : Nat) (b : Board) (p : Float) :
    (encTlA L W b p).map (·.map (·.2)) = (gameA (α := Float) L W b p).tl.map (·.map (fun t => (t.tgt : Int))) := by
  unfold encTlA gameA
  simp only [List.map_append, slotA_snd, slotP_snd]
  rfl

theorem encTlB_targets (L W : Nat) (b : Board) (pTile pRobot : Float) :
    (encTlB L W b pTile pRobot).map (·.map (·.2))
      = (gameB (α := Float) L W b pTile pRobot).tl.map (·.map (fun t => (t.tgt : Int))) := by
  unfold encTlB gameB
  simp only [List.map_append, slotA_snd, slotP_snd]
  rfl

theorem encTlC_targets (L W : Nat) (b : Board) (pTile pRobot pLight : Float) :
    (encTlC L W b pTile pRobot pLight).map (·.map (·.2))
      = (gameC (α := Float) L W b pTile pRobot pLight).tl.map (·.map (fun t => (t.tgt : Int))) := by
  unfold encTlC gameC
  simp only [List.map_append, slotA_snd, slotP_snd]
  rfl

theorem write_robot_keys :
    Ex.Gen.write_robot_A_keys = ["rewards", "players", "transition_list", "final_states"]
    ∧ Ex.Gen.write_robot_B_keys = ["rewards", "players", "transition_list", "final_states"]
    ∧ Ex.Gen.write_robot_C_keys = ["rewards", "players", "transition_list", "final_states"] :=
  ⟨rfl, rfl, rfl⟩

end CR.Tie
