/-
Tie theorems for `roberta_generator.py`: the mechanical translation of each function (CR/Extracted/Gen.lean,
regenerated from /repo on every run) equals the hand-written model (CR/Model/Gen.lean) on every argument.
`encP` / `encA` say how a model transition `Tr Float` shows in the code: `(probability, target)` for
probabilistic rows, `(action, target)` for player rows.
-/
import CR.Tie.Basic
import CR.Extracted.Gen

namespace CR.Tie
open CR CR.Gen

theorem prob_light_break_tie (L W : Nat) (p : Float) (offOk offBreak : Nat) :
    Ex.Gen.prob_light_break_transitions L W p offOk offBreak
      = (probLightBreak (α := Float) L W p offOk offBreak).map (·.map encP) := by
  unfold Ex.Gen.prob_light_break_transitions probLightBreak
  simp only [List.nil_append, List.cons_append]
  rw [fold_grid, grid_map]
  simp only [List.nil_append]
  apply grid_congr
  intro i hi j hj
  simp [encP, pr]

theorem prob_robot_right_break_tie (L W : Nat) (p : Float) (off : Nat) :
    Ex.Gen.prob_robot_right_break_transitions L W p off
      = (probRobotRightBreak (α := Float) L W p off).map (·.map encP) := by
  unfold Ex.Gen.prob_robot_right_break_transitions probRobotRightBreak
  simp only [List.nil_append, List.cons_append]
  rw [fold_grid, grid_map]
  simp only [List.nil_append]
  apply grid_congr
  intro i hi j hj
  have e : ((j : Int) = (W : Int) - 1) ↔ j = W - 1 := by omega
  simp only [e]
  split <;> simp [encP, pr]

theorem prob_robot_left_break_tie (L W : Nat) (p : Float) (off : Nat) :
    Ex.Gen.prob_robot_left_break_transitions L W p off
      = (probRobotLeftBreak (α := Float) L W p off).map (·.map encP) := by
  unfold Ex.Gen.prob_robot_left_break_transitions probRobotLeftBreak
  simp only [List.nil_append, List.cons_append]
  rw [fold_grid, grid_map]
  simp only [List.nil_append]
  apply grid_congr
  intro i hi j hj
  have e : ((j : Int) = 0) ↔ j = 0 := by omega
  simp only [e]
  split <;> simp [encP, pr] <;> omega

theorem prob_robot_down_break_tie (L W : Nat) (p : Float) (off win : Nat) :
    Ex.Gen.prob_robot_down_break_transitions L W p off win
      = (probRobotDownBreak (α := Float) L W p off win).map (·.map encP) := by
  unfold Ex.Gen.prob_robot_down_break_transitions probRobotDownBreak
  simp only [List.nil_append, List.cons_append]
  rw [fold_grid, grid_map]
  simp only [List.nil_append]
  apply grid_congr
  intro i hi j hj
  have e : ((i : Int) < (L : Int) - 1) ↔ i < L - 1 := by omega
  simp only [e]
  split <;> simp [encP, pr]

theorem prob_tile_break_tie (L W : Nat) (p : Float) (b : Board) (off lose : Nat) :
    Ex.Gen.prob_tile_break_transitions L W p (encM b.loose) off lose
      = (probTileBreak (α := Float) L W p b off lose).map (·.map encP) := by
  unfold Ex.Gen.prob_tile_break_transitions probTileBreak
  simp only [List.nil_append, List.cons_append]
  rw [fold_grid, grid_map]
  simp only [List.nil_append]
  apply grid_congr
  intro i hi j hj
  rw [idx_encM]
  have e : ((((b.loose.getD i []).getD j 0 : Nat) : Int) = 1) ↔ b.ls i j = 1 := by
    unfold Board.ls; omega
  simp only [e]
  split <;> simp [encP, pr]

theorem player_two_tie (L W : Nat) (b : Board) (offR offY : Nat) :
    Ex.Gen.player_two_transitions L W (encM b.moves) offR offY
      = (playerTwo (α := Float) L W b offR offY).map (·.map encA) := by
  unfold Ex.Gen.player_two_transitions playerTwo
  dsimp only
  rw [fold_grid_pair L W _ (fun i j =>
      if Py.idx (Py.idx (encM b.moves) i) j = 3 then [("Green", (offR : Int) + i * W + j)]
      else [("Green", (offR : Int) + i * W + j), ("Yellow", (offY : Int) + i * W + j)])
    (by intro st i j; by_cases h : Py.idx (Py.idx (encM b.moves) i) j = 3 <;> simp [h])]
  rw [grid_map]
  simp only [List.nil_append]
  apply grid_congr
  intro i hi j hj
  rw [idx_encM]
  have e : ((((b.moves.getD i []).getD j 0 : Nat) : Int) = 3) ↔ b.mv i j = 3 := by
    unfold Board.mv; omega
  simp only [e]
  split <;> simp [encA, act]

theorem player_one_down_tie (L W : Nat) (off : Nat) (w : Option Nat) (hw : w ≠ some 0) :
    Ex.Gen.player_one_down_transitions L W off (w.map Int.ofNat)
      = (playerOneDown (α := Float) L W off w).map (·.map encA) := by
  unfold Ex.Gen.player_one_down_transitions playerOneDown
  simp only [List.nil_append, List.cons_append]
  rw [fold_grid, grid_map]
  simp only [List.nil_append]
  apply grid_congr
  intro i hi j hj
  have e : ((i : Int) < (L : Int) - 1) ↔ i < L - 1 := by omega
  cases w with
  | none => simp [Py.truthyOpt, encA, act]
  | some n =>
    have hn : n ≠ 0 := fun h => hw (by rw [h])
    simp only [e]
    simp [Py.truthyOpt, Py.unopt, hn]
    split <;> simp [encA, act]

theorem player_one_down_left_right_tie (L W : Nat) (b : Board) (offD offL offR : Nat) :
    Ex.Gen.player_one_down_left_right_transitions L W (encM b.moves) offD offL offR
      = (playerOneDownLeftRight (α := Float) L W b offD offL offR).map (·.map encA) := by
  unfold Ex.Gen.player_one_down_left_right_transitions playerOneDownLeftRight
  simp only [List.nil_append, List.cons_append]
  rw [fold_gridL L W _ (fun i j =>
      if Py.idx (Py.idx (encM b.moves) i) j = 0 then [[("Down", (offD : Int) + i * W + j), ("Left", (offL : Int) + i * W + j)]]
      else if Py.idx (Py.idx (encM b.moves) i) j = 1 then
        [[("Down", (offD : Int) + i * W + j), ("Left", (offL : Int) + i * W + j), ("Right", (offR : Int) + i * W + j)]]
      else if Py.idx (Py.idx (encM b.moves) i) j = 2 then [[("Down", (offD : Int) + i * W + j), ("Right", (offR : Int) + i * W + j)]]
      else if Py.idx (Py.idx (encM b.moves) i) j = 3 then [[("Down", (offD : Int) + i * W + j)]]
      else [])
    (by intro st i j; split_ifs <;> simp)]
  rw [gridOpt_eq_flatMap, List.map_flatMap]
  simp only [List.nil_append, List.map_flatMap]
  apply flatMap_grid_congr
  intro i hi j hj
  rw [idx_encM]
  have e0 : ((((b.moves.getD i []).getD j 0 : Nat) : Int) = 0) ↔ b.mv i j = 0 := by unfold Board.mv; omega
  have e1 : ((((b.moves.getD i []).getD j 0 : Nat) : Int) = 1) ↔ b.mv i j = 1 := by unfold Board.mv; omega
  have e2 : ((((b.moves.getD i []).getD j 0 : Nat) : Int) = 2) ↔ b.mv i j = 2 := by unfold Board.mv; omega
  have e3 : ((((b.moves.getD i []).getD j 0 : Nat) : Int) = 3) ↔ b.mv i j = 3 := by unfold Board.mv; omega
  simp only [e0, e1, e2, e3]
  rcases hm : b.mv i j with _ | _ | _ | _ | n <;> simp [encA, act]

end CR.Tie
