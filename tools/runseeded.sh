#!/bin/sh
# tools/runseeded.sh [pattern] : evaluate every stored seeded change (seeded/<id>/patch.diff) with the quick check of ITS OWN
# property on scratch worktrees /tmp/evalrepo1..4 (CR_REPO, --dev); one line per change.  Development aid.
PAT="${1:-C}"
ls -d /verif/seeded/${PAT}* | xargs -P 4 -I{} sh -c '
  d={}; n=$(basename $d); p=$(echo $n | cut -c1-3)
  k=$(( $(echo $n | cksum | cut -d" " -f1) % 4 + 1 ))
  OUT=$(flock /tmp/evalrepo$k.lock env EVALREPO=/tmp/evalrepo$k /verif/tools/runmut2.sh $p $d/patch.diff 2>&1)
  V=$(echo "$OUT" | grep -c "^VIOLATION"); NF=$(echo "$OUT" | grep -c "no-failing-input-found"); A=$(echo "$OUT" | grep -c "does not apply")
  echo "$n viol=$V nofail=$NF noapply=$A | $(echo "$OUT" | grep "first failing\|first disagreement" | head -1 | cut -c1-140)"'
