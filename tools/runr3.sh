#!/bin/sh
# tools/runr3.sh <src-dir with Cxx/mN.diff> : evaluate every round-3 seeded change on the scratch worktree, one line each
SRC="${1:-/tmp/mutout3}"
for P in C01 C02 C03 C04 C05 C06 C07 C08 C09 C10 C11 C12 C13 C14 C15 C16 C17; do
  for N in 1 2 3 4; do
    D=$SRC/$P/m$N.diff
    [ -f "$D" ] || continue
    OUT=$(/verif/tools/runmut2.sh $P $D 2>&1)
    V=$(echo "$OUT" | grep -c "^VIOLATION")
    NF=$(echo "$OUT" | grep -c "no-failing-input-found")
    A=$(echo "$OUT" | grep -c "does not apply")
    echo "$P m$N viol=$V nofail=$NF noapply=$A | $(echo "$OUT" | grep 'tests:' | cut -c1-40) | $(echo "$OUT" | grep 'first failing\|first disagreement' | head -1 | cut -c1-160)"
  done
done
