#!/bin/sh
# tools/soak.sh [seed] [parallel] : build, then every check in the thorough tier (for `vp run`); one line per check
SEED="${1:-0}"; PAR="${2:-4}"
(cd lean && lake build crmodel CR.All 2>&1 | tail -1)
for i in 01 02 03 04 05 06 07 08 09 10 11 12 13 14 15 16 17; do echo $i; done | SEED=$SEED xargs -P "$PAR" -I{} sh -c '
  i={}; START=$(date +%s)
  OUT=$(VERIF_SEED=$SEED ./check C$i --tier thorough 2>&1); RC=$?
  END=$(date +%s)
  echo "seed=$SEED C$i rc=$RC $((END-START))s $(echo "$OUT" | grep -c "^KNOWN-FINDING") known | $(echo "$OUT" | grep "VIOLATION\|INTERNAL\|first failing\|first disagreement" | head -3 | cut -c1-300 | tr "\n" " ")"
  echo "$OUT" | tail -1 | cut -c1-300'
echo soak-done
