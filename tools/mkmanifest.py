#!/usr/bin/env python3
"""Regenerate MANIFEST.json and lean/CR/All.lean from what exists on disk."""
import json
import os
import re

V = os.path.dirname(os.path.dirname(os.path.abspath(__file__)))
props = [json.loads(l) for l in open(os.path.join(V, "properties.jsonl"))]
pd = os.path.join(V, "lean", "CR", "Props")
ready = set(open(os.path.join(V, "lean", "READY")).read().split())
mods = sorted(m for m in ready if os.path.exists(os.path.join(pd, m + ".lean")))

TEXT = {
 "C01": ("Lean theorems (all games, all thresholds, any fuel): finals report exactly 1; states outside the backward-search set keep their initial value (with C07: no path => exactly 0); 0 <= report <= 1; the report never exceeds ANY pre-fixed point of the Bellman operator, hence never exceeds the max-min value (least pre-fixed point); monotone iterates; residual on exit <= threshold; equality with the value when the last sweep changed nothing; identical in both pruning modes (C04.prune_irrelevant). The clause 'within tolerance of the true value' is FALSE of the algorithm (residual stop) and is a listed known finding. Correspondence: Float instance of the same model vs Solver.solve_reachability on every generated game, bit-level. Oracle: exact values by strategy enumeration.", "5 C01"),
 "C02": ("Lean theorems: the reported rewards satisfy the conditioned game's reward equations up to the threshold (Bellman-consistency form, any game), emptied states are worth 0, rewards >= 0, unpruned mode = Player-1 restriction only; the conditioned lists are exactly the specification of C03. The tolerance-to-the-true-value form is false (residual stop): listed known finding. Correspondence: Float model vs solve()[2] and run_games. Oracle: independently conditioned game + exact max-min total reward (strategy enumeration).", "5 C02"),
 "C03": ("Lean theorems for ALL games, any number/placement of dead successors: no Player-1/probabilistic node keeps a transition into a zero-probability state; node lists equal the presentation-independent condRow specification except that non-Player-1 states unreachable from state 0 may be emptied; survivors keep order and carry p / (surviving total), summing to 1 (ordered field); conditioning never fails or runs out of fuel on well-formed games. Correspondence: node lists after prune_reachability+prune_stochastich_game (and through solve() with a recording Solver) vs the model, incl. every live/dead pattern up to length 4 (quick) / 6 (thorough).", "5 C03"),
 "C04": ("Lean theorems: the reachability strategy of a Player-1 (Player-2) state is EXACTLY the arg-max (arg-min) list, in transition order, of the reported probabilities rounded to the solver's digits; non-empty; none for probabilistic states; identical with pruning on/off. That rounded reported values can split exact ties of true values is a listed known finding. Correspondence + exact optimal sets from exact values.", "5 C04"),
 "C05": ("Lean theorems: for EVERY game and both modes the final strategy of a Player-1 state is a sub-list of its reachability strategy (no hypothesis); shape; the final strategy is exactly the arg-max/arg-min list of the rounded reported conditioned rewards over the permitted actions. Correspondence + exact optimal sets on the conditioned game.", "5 C05"),
 "C06": ("Lean theorems: on well-formed games validation passes, the reachability loop terminates within an explicit sweep bound, 'no solution' is raised iff pruning is on and the reported probability of state 0 is 0, no other error class is possible (never malformed/unbound/zero-division, whatever the arrangement of dead states), results are complete. Termination of the REWARD loop on cyclic stopping games is not proved (its exit test waits for two non-monotone diagnostics): covered by correspondence + oracle with a wall-clock bound. partial.", "5 C06"),
 "C07": ("Lean theorems for all graphs, any size/depth, finals in any order with repetitions: the reversed table has exactly the keys 0..n-1 and lists u under v once per transition; the search result is strictly ascending (each state once) and contains exactly the non-final states that can reach a final state; these determine the output uniquely; the function is total (no recursion). Correspondence: reverse_dfs / reverse_transition_list vs the model on random digraphs, chains up to 20000 states, tall boards, exhaustive tiny graphs.", "5 C07"),
 "C08": ("Lean theorem gen_bisim_step (all L,W >= 1 incl. one-column boards, all boards with arrows 0..3, all probabilities, all three variants): the numbering enc is a functional bisimulation from the rule specification (CR/Spec/Roborta.lean) onto the generated game: same labels, probabilities, ORDER, owners, rewards, final state; enc injective on valid situations; valid situations closed under the rules; enc(light 0 0) = 0. Correspondence: the written file read back vs the model's three games; oracle: independent Python rendering of the rules + partition-refinement bisimulation.", "5 C08"),
 "C09": ("Lean theorems over dynamically typed descriptions: validate g = ok <-> DocWellFormed g (every documented rule at every state/transition/tuple slot, indices n and -1 included); every validation error is a ValueError; solve returns no result unless validation succeeded, in both modes; the batch runner records the message and marks the unpruned entry not solved. Correspondence: every rule x position mutant through solve() and run_games vs the model.", "5 C09"),
 "C10": ("Lean: aliasing (heap) model of the conditioning phase in which every node initially aliases the caller's inner list; theorems: no operation of the current code touches the caller's lists, the heap model refines the pure model, any sequence of solves returns the same outcomes. The heap model's claim about WHICH operations are in-place is tied to the code by the correspondence (post-state of the caller's description, watched over sequences of 2-4 solves on one shared description).", "5 C10"),
 "C11": ("Lean theorems for every board/variant/probabilities in (0,1): every state has a transition, targets in range, probabilistic rows positive and summing to 1, the only final is the absorbing winning state, the losing state is absorbing, each game passes the solver's validation. Text level (C11Text): the four str.replace calls only insert whitespace outside string literals (surgery_preserves_game) and the formatted text determines the game dict uniquely (surgery_text_determines_game); the model's replace/repr are tied to Python's by byte-for-byte comparison of every generated game section (corr.gentext); Python's parser ignoring that whitespace and float repr/eval are trusted. 'Solved or no solution' is covered by correspondence/oracle; ~2% of generated A/B games never return (diverging diagnostic): listed known finding. partial.", "5 C11"),
 "C12": ("Lean theorems: with distinct result keys every entry of the batch equals what running that game alone gives (isolation, order- and subset-independence), keys in run order, failure => message entry + 'not solved' + remaining games unaffected, counts. The key-collision hypothesis is necessary (proved example) and is a listed known finding. Correspondence: run_games vs model and vs solo solves.", "5 C12"),
 "C13": ("Lean theorems (refinement to presentation-independent specifications): reachability relation, Bellman operator, least pre-fixed point (the value), zero set/solvability and optimal-action sets commute with state renumbering fixing 0, per-state transition reordering and injective action renaming; exactly converged runs are related exactly; residual-stopped runs are both lower bounds of the same value. Equality of two floating-point / residual-stopped runs is not provable (and false beyond the tolerance: listed findings). Oracle: metamorphic comparison of real runs. partial.", "5 C13"),
 "C14": ("Lean theorems: the successor the sweep follows for the two diagnostics is the reported final action when the final strategy is a single action (monotone rounding); closed forms of both diagnostic updates per node kind; threshold-consistency of the reported diagnostics with their own equations (probabilistic states always; player states when the last sweep left the rewards unchanged). Equality with the exact chain values within tolerance is false on slow cycles (listed finding). Oracle: exact induced chain from the reported strategies. partial.", "5 C14"),
 "C15": ("Lean theorems with the board as a function of the draws of the random API: dimensions, loose flag = 1 iff its draw < requested probability, rewards <= max, arrows in the allowed set, a down-only tile per row exactly with force-down, check_input accepts iff all eight documented conditions (IEEE comparisons, NaN case explicit), refusal precedes any seeding/drawing/opening; over the reals the un-clamped reward formula is in range for every draw in (0,1). CPython's generator (determinism, uniformity) is assumed. Correspondence: gen_rnd_board under a recording proxy vs the model fed the same draws.", "5 C15"),
 "C16": ("Lean theorems on the report model: fixed-width labels, block shape, every field text reads back verbatim line by line, one block per entry in run order, report name = outputs/<stem>.txt for stems without '/' or '.'. Float repr/eval fidelity is assumed (floats are opaque atoms). Correspondence: the file written by `conditionalrewards.py -f X -s` (subprocess) vs the model's rendering; oracle: parse-back of every line against the in-process batch result. partial.", "5 C16"),
 "C17": ("Lean theorems over REAL IEEE doubles by kernel evaluation of the full table: prob_to_str(k/100) = k for every k in 1..99; the name is the documented pattern of the parameters; the name is injective in (seed,width,length,max reward,4 percentages,flag). Correspondence: prob_to_str on all k/100 + a float grid, main() in a scratch directory.", "5 C17"),
}
PARTIAL = {"C02", "C06", "C11", "C13", "C14", "C16", "C01", "C04"}

checks, na = [], []
for p in props:
    i = p["id"]
    have = any(re.match(i + r"([A-Z][A-Za-z]*)?$", m) for m in mods) and os.path.exists(os.path.join(V, "harness", "props", i.lower() + ".py"))
    if not have:
        na.append({"property_id": i, "reason": "check under construction: Lean theorem file not yet complete (see DESIGN.md section 9)"})
        continue
    text, ref = TEXT[i]
    checks.append({
        "property_id": i,
        "quick_cmd": f"./check {i} --tier quick",
        "thorough_cmd": f"./check {i} --tier thorough",
        "evidence_file": f"evidence/{i}.json",
        "replay_cmd_template": f"./check {i} --replay {{path}}",
        "engine": "lean-cr",
        "level_claimed": {"category": "proof", "text": text, "design_ref": "DESIGN.md section " + ref},
        "level_note": "Trusted: Lean 4.33 kernel; axioms propext/Classical.choice/Quot.sound only (audited every run); hand-written executable model tied to /repo by the correspondence suites of this check (differential, seeded); exact-arithmetic theorems (any ordered field) vs IEEE doubles compared through the Float instance of the same model; CPython random/repr/eval/filesystem not modelled. Known findings are listed in known-findings.txt.",
        "technique": "machine-checked proof in Lean 4 about an executable model + differential correspondence check against the working tree + exact-arithmetic oracle for the failing-input search",
    })
m = {
    "version": 1,
    "setup_cmd": "cd lean && lake build crmodel CR.All",
    "hooks": {"guard": "CONDREWARDS_VERIF", "enable": "no source hooks: all instrumentation is harness-side (recording Solver subclass, recording proxy of the random module, scratch cwd); /repo is imported in-process from its working tree", "baseline_off_cmd": "cd /repo && /venv/bin/python -m pytest -q -p no:cacheprovider", "source_commits": [], "add_only": True},
    "engines": [{"name": "lean-cr", "path": "lean/", "serves_properties": [c["property_id"] for c in checks], "kind_free_text": "Lean 4 project (model CR/Model, specs CR/Spec, lemmas CR/Lemmas, property theorems CR/Props) + compiled line-protocol driver crmodel + Python harness (harness/) calling the repository in-process"}],
    "checks": checks,
    "notes": "Every check: (1) lake build + source/axiom audit of the property's theorems, (2) correspondence suites model vs /repo working tree, (3) direct oracle pass on the implementation, (4) failing-input search when (1)/(2) break. Exit 0/1/2 as documented in DESIGN.md section 2.",
    "not_applicable": na,
}
json.dump(m, open(os.path.join(V, "MANIFEST.json"), "w"), indent=1)
with open(os.path.join(V, "lean", "CR", "All.lean"), "w") as f:
    f.write("-- generated by tools/mkmanifest.py: everything the checks need, built by MANIFEST.setup_cmd\n")
    f.write("import CR\n")
    for mname in mods:
        f.write(f"import CR.Props.{mname}\n")
print(len(checks), "checks;", [x["property_id"] for x in na], "not claimed yet")
