#!/bin/sh
# tools/runref.sh <refactoring.diff> [props...] — apply a behaviour-preserving change to the scratch worktree and run the
# quick checks against it (CR_REPO); any VIOLATION is a false alarm.
D="$1"; shift
PROPS="${*:-C01 C02 C03 C04 C05 C06 C07 C08 C09 C10 C11 C12 C13 C14 C15 C16 C17}"
W="${EVALREPO:-/tmp/evalrepo}"
cd $W && git checkout -q -- . && git apply "$D" || { echo "patch does not apply"; exit 2; }
echo "tests: $(/venv/bin/python -m pytest -q -p no:cacheprovider 2>&1 | tail -1)"
cd /verif
for P in $PROPS; do
  OUT=$(CR_REPO=$W timeout 1800 ./check $P --tier quick --dev 2>&1)
  echo "$OUT" | grep -q "VIOLATION\|INTERNAL" && echo "$P: $(echo "$OUT" | grep 'VIOLATION\|INTERNAL\|first ' | head -3 | cut -c1-300)"
done
git -C $W checkout -q -- .
echo "done $D"
