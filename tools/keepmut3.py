#!/usr/bin/env python3
"""tools/keepmut3.py <runr3-output> <src-dir> <tag>: store every evaluated seeded change of a round under
/verif/seeded/<prop>-<tag>m<N>/ (patch.diff, demo.py, meta.json) with the detection status read from the run."""
import json, os, re, shutil, sys
out, src, tag = sys.argv[1], sys.argv[2], sys.argv[3]
for line in open(out):
    m = re.match(r"(C\d\d) m(\d) viol=(\d+) nofail=(\d+) noapply=(\d+) \| (.*?) \| (.*)", line.strip())
    if not m:
        continue
    prop, n, viol, nofail, noapply, tests, first = m.groups()
    if int(noapply):
        continue
    dst = f"/verif/seeded/{prop}-{tag}m{n}"
    os.makedirs(dst, exist_ok=True)
    shutil.copy(f"{src}/{prop}/m{n}.diff", f"{dst}/patch.diff")
    if os.path.exists(f"{src}/{prop}/demo_{n}.py"):
        shutil.copy(f"{src}/{prop}/demo_{n}.py", f"{dst}/demo.py")
    notes = open(f"{src}/{prop}/notes_{n}.txt").read().strip() if os.path.exists(f"{src}/{prop}/notes_{n}.txt") else ""
    status = "missed" if not int(viol) else ("caught (correspondence break, no failing input found within the quick search budget)" if int(nofail) else "caught")
    meta = {"property": prop, "round": tag, "written_by": "independent sub-agent given only the property text, a scratch worktree and a description of what earlier rounds had already tried",
            "what_it_needs_to_manifest": notes,
            "confirmed": [tests.strip() + " (with the change)", "demo.py fails with the change and passes without (author agent; re-run by tools/runmut2.sh)",
                          f"tools/runmut2.sh {prop} seeded/{prop}-{tag}m{n}/patch.diff  (scratch worktree via CR_REPO; /repo untouched)"],
            "detection": status, "caught_by": first.strip()[:300]}
    json.dump(meta, open(f"{dst}/meta.json", "w"), indent=1)
    print(prop, n, status)
