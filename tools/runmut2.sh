#!/bin/sh
# tools/runmut2.sh <prop> <patch.diff> [demo.py] [tier] — like runmut.sh but on a scratch worktree (/tmp/evalrepo, CR_REPO),
# so that /repo itself is never touched (background runs keep seeing the clean tree)
P="$1"; D="$2"; DEMO="$3"; TIER="${4:-quick}"
W="${EVALREPO:-/tmp/evalrepo}"
cd $W || exit 2
git checkout -q -- . ; git diff --quiet || { echo "worktree dirty"; exit 2; }
git apply "$D" || { echo "patch does not apply"; exit 2; }
T=$(/venv/bin/python -m pytest -q -p no:cacheprovider 2>&1 | tail -1)
echo "tests: $T"
if [ -n "$DEMO" ] && [ -f "$DEMO" ]; then
  (cd /tmp && PYTHONPATH=$W timeout 120 /venv/bin/python "$DEMO" >/tmp/demo2.out 2>&1; echo "demo(with change) rc=$? $(tail -1 /tmp/demo2.out | cut -c1-150)")
fi
cd /verif && CR_REPO=$W VERIF_SEED=${VERIF_SEED:-0} timeout 1800 ./check "$P" --tier "$TIER" --dev 2>&1 | grep -v "^KNOWN" | tail -3 | cut -c1-330
git -C $W checkout -q -- .
