#!/usr/bin/env python3
"""tools/keepmut2.py <prop> <n> <status> "<caught by>" — store a confirmed round-2 seeded change."""
import json, os, shutil, sys
prop, n, status, how = sys.argv[1], sys.argv[2], sys.argv[3], sys.argv[4]
src = f"/tmp/mutout2/{prop}"
dst = f"/verif/seeded/{prop}-r2m{n}"
os.makedirs(dst, exist_ok=True)
shutil.copy(f"{src}/m{n}.diff", f"{dst}/patch.diff")
if os.path.exists(f"{src}/demo_{n}.py"):
    shutil.copy(f"{src}/demo_{n}.py", f"{dst}/demo.py")
notes = open(f"{src}/notes_{n}.txt").read() if os.path.exists(f"{src}/notes_{n}.txt") else ""
meta = {"property": prop, "round": 2, "written_by": "independent sub-agent given only the property text and a scratch worktree",
        "what_it_needs_to_manifest": notes.strip(),
        "confirmed": ["57-test baseline passes with the change", "demo.py fails with the change and passes without (verified by the author agent and re-run here for the missed ones)",
                      f"tools/runmut2.sh {prop} seeded/{prop}-r2m{n}/patch.diff  (scratch worktree /tmp/evalrepo via CR_REPO; /repo untouched)"],
        "detection": status, "caught_by": how}
json.dump(meta, open(f"{dst}/meta.json", "w"), indent=1)
