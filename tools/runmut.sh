#!/bin/sh
# tools/runmut.sh <prop> <patch.diff> [demo.py] [tier]  — apply a seeded change to /repo, run tests + demo + the check, undo.
P="$1"; D="$2"; DEMO="$3"; TIER="${4:-quick}"
cd /repo || exit 2
git diff --quiet || { echo "repo dirty, refusing"; exit 2; }
git apply "$D" || { echo "patch does not apply"; exit 2; }
T=$(/venv/bin/python -m pytest -q -p no:cacheprovider 2>&1 | tail -1)
echo "tests: $T"
if [ -n "$DEMO" ] && [ -f "$DEMO" ]; then
  (cd /tmp && PYTHONPATH=/repo timeout 120 /venv/bin/python "$DEMO" >/tmp/demo.out 2>&1; echo "demo(with change) rc=$? $(tail -1 /tmp/demo.out | cut -c1-150)")
fi
cd /verif && VERIF_SEED=${VERIF_SEED:-0} timeout 1800 ./check "$P" --tier "$TIER" ${DEV:+--dev} 2>&1 | grep -v "^'" | tail -4 | cut -c1-400
echo "check rc=$?"
git -C /repo checkout -- . && git -C /repo status --short
if [ -n "$DEMO" ] && [ -f "$DEMO" ]; then
  (cd /tmp && PYTHONPATH=/repo timeout 120 /venv/bin/python "$DEMO" >/tmp/demo.out 2>&1; echo "demo(clean) rc=$? $(tail -1 /tmp/demo.out | cut -c1-100)")
fi
