#!/bin/sh
# tools/runall.sh [tier] [seed...] : run every check on the unchanged tree, print one line each
TIER="${1:-quick}"; shift
SEEDS="${*:-0}"
cd /verif
for S in $SEEDS; do
 for i in 01 02 03 04 05 06 07 08 09 10 11 12 13 14 15 16 17; do
  START=$(date +%s)
  OUT=$(VERIF_SEED=$S ./check C$i --tier $TIER 2>&1); RC=$?
  END=$(date +%s)
  echo "seed=$S C$i rc=$RC $((END-START))s $(echo "$OUT" | grep -c '^KNOWN-FINDING') known | $(echo "$OUT" | grep 'VIOLATION\|INTERNAL' | head -2 | cut -c1-200)"
 done
done
