#!/usr/bin/env python3
"""tools/automut.py <worker> <nworkers> <outfile> [file ...]
Systematic first-order mutation audit of the checks (development aid, not a registered command).

Every mutation point of the repository's source files (comparison / arithmetic / boolean operator swaps,
constants 0<->1 and n->n+1, negated conditions, dropped `not`, deleted call statements; nothing inside logging
calls) is applied, one at a time, to a scratch worktree ($EVALREPO).  A mutant that still passes the 57-test
baseline is handed to the quick checks anchored in that file (fastest first, CR_REPO, --dev) until one raises
a VIOLATION.  One JSON line per mutant: killed-by-tests / caught-by <check> / SURVIVED.
Survivors are either equivalent mutants or holes in the checks; they are triaged by hand (DESIGN.md 11.10).
"""
import ast, copy, json, os, subprocess, sys, time

REPO = "/repo"
ORDER = {
    "tad.py": ["C03", "C04", "C09", "C14", "C12", "C10", "C13", "C05", "C06", "C02", "C01"],
    "reverse_dfs.py": ["C07", "C03", "C04", "C10", "C01", "C06"],
    "conditionalrewards.py": ["C12", "C16", "C09", "C14", "C06", "C02"],
    "roberta_generator.py": ["C17", "C15", "C08", "C11"],
    "stochastic_game_from_roborta_board.py": ["C17", "C08", "C11"],
}
CMP = {ast.Lt: ast.LtE, ast.LtE: ast.Lt, ast.Gt: ast.GtE, ast.GtE: ast.Gt, ast.Eq: ast.NotEq, ast.NotEq: ast.Eq,
       ast.Is: ast.IsNot, ast.IsNot: ast.Is, ast.In: ast.NotIn, ast.NotIn: ast.In}
BIN = {ast.Add: ast.Sub, ast.Sub: ast.Add, ast.Mult: ast.Div, ast.Div: ast.Mult, ast.Mod: ast.FloorDiv, ast.FloorDiv: ast.Mod}


def in_logging(stack):
    for n in stack:
        if isinstance(n, ast.Call) and isinstance(n.func, ast.Attribute) and isinstance(n.func.value, ast.Name) \
                and n.func.value.id == "logging":
            return True
    return False


def points(tree):
    """yield (description, mutator) where mutator(tree_copy_node) mutates in place; nodes are addressed by index
    in ast.walk order of a deep copy"""
    out = []
    nodes = list(ast.walk(tree))
    parents = {}
    for n in nodes:
        for c in ast.iter_child_nodes(n):
            parents[id(c)] = n

    def stack_of(n):
        s = []
        while id(n) in parents:
            n = parents[id(n)]
            s.append(n)
        return s
    for i, n in enumerate(nodes):
        st = stack_of(n)
        if in_logging(st + [n]):
            continue
        if not any(isinstance(p, (ast.FunctionDef, ast.AsyncFunctionDef)) for p in st):
            continue
        ln = getattr(n, "lineno", 0)
        if isinstance(n, ast.Compare):
            for k, op in enumerate(n.ops):
                if type(op) in CMP:
                    out.append((i, ln, f"cmp {type(op).__name__}->{CMP[type(op)].__name__}", ("cmp", k)))
        elif isinstance(n, ast.BinOp) and type(n.op) in BIN:
            if isinstance(n.op, ast.Mod) and isinstance(n.left, ast.Constant) and isinstance(n.left.value, str):
                continue
            out.append((i, ln, f"bin {type(n.op).__name__}->{BIN[type(n.op)].__name__}", ("bin",)))
        elif isinstance(n, ast.AugAssign) and type(n.op) in BIN:
            out.append((i, ln, f"aug {type(n.op).__name__}->{BIN[type(n.op)].__name__}", ("bin",)))
        elif isinstance(n, ast.BoolOp):
            out.append((i, ln, f"bool {type(n.op).__name__} swapped", ("bool",)))
        elif isinstance(n, ast.UnaryOp) and isinstance(n.op, ast.Not):
            out.append((i, ln, "not dropped", ("not",)))
        elif isinstance(n, ast.Constant) and isinstance(n.value, (int, float)) and not isinstance(n.value, bool):
            if isinstance(parents.get(id(n)), ast.JoinedStr) or any(isinstance(p, (ast.JoinedStr, ast.FormattedValue)) for p in st):
                continue
            out.append((i, ln, f"const {n.value!r}->{(1 if n.value == 0 else 0 if n.value == 1 else n.value + 1)!r}", ("const",)))
        elif isinstance(n, ast.Constant) and isinstance(n.value, bool):
            out.append((i, ln, f"const {n.value}->{not n.value}", ("boolconst",)))
        elif isinstance(n, (ast.If, ast.While)):
            out.append((i, ln, f"{type(n).__name__.lower()} condition negated", ("neg",)))
        elif isinstance(n, ast.Expr) and isinstance(n.value, ast.Call):
            if in_logging([n.value]):
                continue                      # deleting a log line is an equivalent mutant
            out.append((i, ln, "call statement deleted", ("del",)))
        elif isinstance(n, ast.Break):
            out.append((i, ln, "break -> continue", ("brk",)))
    return out


def apply(tree, i, how):
    t = copy.deepcopy(tree)
    nodes = list(ast.walk(t))
    n = nodes[i]
    kind = how[0]
    if kind == "cmp":
        n.ops[how[1]] = CMP[type(n.ops[how[1]])]()
    elif kind == "bin":
        n.op = BIN[type(n.op)]()
    elif kind == "bool":
        n.op = ast.Or() if isinstance(n.op, ast.And) else ast.And()
    elif kind == "not":
        # replace the UnaryOp by its operand
        for p in nodes:
            for f, v in ast.iter_fields(p):
                if v is n:
                    setattr(p, f, n.operand)
                elif isinstance(v, list):
                    for k, x in enumerate(v):
                        if x is n:
                            v[k] = n.operand
    elif kind == "const":
        n.value = 1 if n.value == 0 else 0 if n.value == 1 else n.value + 1
    elif kind == "boolconst":
        n.value = not n.value
    elif kind == "neg":
        n.test = ast.UnaryOp(op=ast.Not(), operand=n.test)
    elif kind == "del":
        n.value = ast.Constant(value=None)
    elif kind == "brk":
        for p in nodes:
            for f, v in ast.iter_fields(p):
                if isinstance(v, list):
                    for k, x in enumerate(v):
                        if x is n:
                            v[k] = ast.Continue()
    return ast.unparse(ast.fix_missing_locations(t))


def main():
    worker, nworkers, outfile = int(sys.argv[1]), int(sys.argv[2]), sys.argv[3]
    files = sys.argv[4:] or list(ORDER)
    W = os.environ.get("EVALREPO", "/tmp/evalrepo")
    env = dict(os.environ, CR_REPO=W, VERIF_SEED="0")
    done = set()
    if os.path.exists(outfile):
        for l in open(outfile):
            try:
                d = json.loads(l); done.add((d["file"], d["index"], d["how"]))
            except ValueError:
                pass
    k = 0
    for fn in files:
        src = open(os.path.join(REPO, fn)).read()
        tree = ast.parse(src)
        base = ast.unparse(tree)
        for (i, ln, desc, how) in points(tree):
            k += 1
            if k % nworkers != worker or (fn, i, desc) in done:
                continue
            rec = {"file": fn, "index": i, "line": ln, "how": desc}
            try:
                mutated = apply(tree, i, how)
            except Exception as e:  # noqa
                rec["status"] = "skipped:" + type(e).__name__
                open(outfile, "a").write(json.dumps(rec) + "\n"); continue
            if mutated == base:
                continue
            subprocess.run(["git", "-C", W, "checkout", "-q", "--", "."], check=True)
            open(os.path.join(W, fn), "w").write(mutated)
            t0 = time.time()
            try:
                p = subprocess.run(["/venv/bin/python", "-m", "pytest", "-q", "-x", "-p", "no:cacheprovider", "--timeout=60"], cwd=W,
                                   capture_output=True, text=True, timeout=300)
                tests_ok = p.returncode == 0
            except subprocess.TimeoutExpired:
                tests_ok = False
            if not tests_ok:
                rec["status"] = "killed-by-tests"
            else:
                rec["status"] = "SURVIVED"
                tried = []
                for chk in ORDER[fn]:
                    try:
                        q = subprocess.run(["/verif/check", chk, "--tier", "quick", "--dev"], env=env, capture_output=True, text=True, timeout=900)
                        out = q.stdout
                    except subprocess.TimeoutExpired:
                        out = "VIOLATION (check timed out)"
                    tried.append(chk)
                    if "VIOLATION" in out or "INTERNAL" in out:
                        v = [l for l in out.split("\n") if l.startswith("VIOLATION") or "first failing" in l or "first disagreement" in l or "timed out" in l or "INTERNAL" in l]
                        rec["status"] = "caught"
                        rec["by"] = chk
                        rec["nofail"] = "no-failing-input-found" in out
                        rec["detail"] = " | ".join(v)[:300]
                        break
                rec["tried"] = tried
            rec["seconds"] = round(time.time() - t0, 1)
            open(outfile, "a").write(json.dumps(rec) + "\n")
    subprocess.run(["git", "-C", W, "checkout", "-q", "--", "."], check=True)


if __name__ == "__main__":
    main()
