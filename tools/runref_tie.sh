#!/bin/sh
# tools/runref_tie.sh — false-alarm regression WITH the Lean step and the translator tie: every stored harmless rewrite
# is applied to a scratch worktree (EVALREPO, CR_REPO) and the checks anchored in the files it touches are run in full
# (no --dev).  Expected: no VIOLATION; "NOTE: translator tie not checked" is allowed (and counted).
# Run from a built /verif (or a `vp run` snapshot: builds first).
W="${EVALREPO:-/tmp/evalrepo2}"
HERE="$(cd "$(dirname "$0")/.." && pwd)"
cd "$HERE/lean" && lake build crmodel CR.All CR.Tie.Gen CR.Tie.Gen2 CR.Tie.Rdfs CR.Tie.RdfsLoop CR.Tie.Tad CR.Tie.TransferGen CR.Tie.TransferTad CR.Tie.Check CR.Tie.PruneStates CR.Extracted.Show >/dev/null 2>&1
cd "$HERE"
for D in refactorings/*.diff; do
  git -C $W checkout -q -- . ; git -C $W apply "$HERE/$D" || { echo "$D: patch does not apply"; continue; }
  FILES=$(git -C $W diff --name-only | tr '\n' ' ')
  PROPS=""
  case "$FILES" in *tad.py*) PROPS="$PROPS C01 C03 C04 C05 C14";; esac
  case "$FILES" in *reverse_dfs.py*) PROPS="$PROPS C07";; esac
  case "$FILES" in *roberta_generator.py*|*stochastic_game*) PROPS="$PROPS C08 C15 C17";; esac
  case "$FILES" in *conditionalrewards.py*) PROPS="$PROPS C12 C16";; esac
  for P in $PROPS; do
    START=$(date +%s)
    OUT=$(CR_REPO=$W timeout 2400 ./check $P --tier quick 2>&1); RC=$?
    END=$(date +%s)
    echo "$D $P rc=$RC $((END-START))s notes=$(echo "$OUT" | grep -c '^NOTE: translator tie') | $(echo "$OUT" | grep 'VIOLATION\|INTERNAL' | head -2 | cut -c1-200)"
  done
  git -C $W checkout -q -- .
done
# leave the generated files as translated from the clean tree
CR_REPO=$W python3 harness/py2lean.py >/dev/null
echo finished
