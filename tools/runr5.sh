#!/bin/sh
# tools/runr5.sh <prop>... — evaluate the round-5 seeded changes of /tmp/w5-<prop>/out/m<N> on the scratch worktree
# /tmp/evalrepo (CR_REPO); one summary line per change; /repo is never touched.
W="${EVALREPO:-/tmp/evalrepo}"
for P in "$@"; do
  for N in 1 2 3; do
    D=${SEEDROOT:-/tmp/w5}-$P/out/m$N
    [ -f $D/patch.diff ] || continue
    cd $W || exit 2
    git checkout -q -- . ; git clean -fdq
    CLEAN=$( (cd /tmp && PYTHONPATH=$W timeout 300 /venv/bin/python $D/demo.py >/tmp/demo5c.out 2>&1; echo $?) )
    if ! git apply $D/patch.diff 2>/dev/null; then echo "$P m$N noapply"; continue; fi
    T=$(/venv/bin/python -m pytest -q -p no:cacheprovider 2>&1 | tail -1)
    DEMO=$( (cd /tmp && PYTHONPATH=$W timeout 300 /venv/bin/python $D/demo.py >/tmp/demo5.out 2>&1; echo $?) )
    OUT=$(cd /verif && CR_REPO=$W VERIF_SEED=${VERIF_SEED:-0} timeout 2400 ./check "$P" --tier quick --dev 2>&1 | grep -v "^KNOWN")
    RC=$?
    V=$(echo "$OUT" | grep -c "^VIOLATION")
    NF=$(echo "$OUT" | grep -c "no-failing-input-found")
    FIRST=$(echo "$OUT" | grep "^first failing input\|^first disagreement" | head -1 | cut -c1-300)
    echo "$P m$N viol=$V nofail=$NF demo_clean=$CLEAN demo_changed=$DEMO | tests: $T | $FIRST"
    git -C $W checkout -q -- . ; git -C $W clean -fdq
  done
done
