#!/usr/bin/env python3
"""tools/keepmut.py <prop> <n> <caught|missed-then-fixed> "<which check clause catches it>" — store a confirmed seeded change."""
import json, os, shutil, sys
prop, n, status, how = sys.argv[1], sys.argv[2], sys.argv[3], sys.argv[4]
src = f"/tmp/mutout/{prop}"
dst = f"/verif/seeded/{prop}-m{n}"
os.makedirs(dst, exist_ok=True)
shutil.copy(f"{src}/m{n}.diff", f"{dst}/patch.diff")
if os.path.exists(f"{src}/demo_{n}.py"):
    shutil.copy(f"{src}/demo_{n}.py", f"{dst}/demo.py")
notes = open(f"{src}/notes_{n}.txt").read() if os.path.exists(f"{src}/notes_{n}.txt") else ""
meta = {"property": prop, "written_by": "independent sub-agent given only the property text and a scratch worktree",
        "what_it_needs_to_manifest": notes.strip(),
        "confirmed": ["57-test baseline passes with the change", "demo.py fails with the change and passes without",
                      f"git -C /repo apply seeded/{prop}-m{n}/patch.diff && ./check {prop} --tier quick ; git -C /repo checkout -- ."],
        "detection": status, "caught_by": how}
json.dump(meta, open(f"{dst}/meta.json", "w"), indent=1)
print("kept", dst)
