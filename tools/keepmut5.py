#!/usr/bin/env python3
"""tools/keepmut5.py <runr5-output> [<prop>-m<N> ...missed at first]: store the evaluated round-5 seeded changes under
/verif/seeded/<prop>-r5m<N>/ (patch.diff, demo.py, meta.json) with the detection status read from the run."""
import json, os, re, shutil, sys
out = sys.argv[1]
missed_first = set(sys.argv[2:])
for line in open(out):
    m = re.match(r"(C\d\d) m(\d) viol=(\d+) nofail=(\d+) demo_clean=(\S+) demo_changed=(\S+) \| tests: (.*?) \| (.*)", line.strip())
    if not m:
        continue
    prop, n, viol, nofail, dclean, dchanged, tests, first = m.groups()
    src = os.environ.get("SEEDROOT", "/tmp/w5") + f"-{prop}/out/m{n}"
    dst = f"/verif/seeded/{prop}-" + os.environ.get("SEEDTAG", "r5") + f"m{n}"
    os.makedirs(dst, exist_ok=True)
    shutil.copy(f"{src}/patch.diff", f"{dst}/patch.diff")
    shutil.copy(f"{src}/demo.py", f"{dst}/demo.py")
    note = open(f"{src}/note.txt").read().strip() if os.path.exists(f"{src}/note.txt") else ""
    confirmed = dclean == "0" and dchanged not in ("0",) and "passed" in tests and "failed" not in tests
    if int(viol):
        status = "caught" + (" (correspondence break, no failing input found within the quick search budget)" if int(nofail) else "")
        if f"{prop}-m{n}" in missed_first:
            status = "missed at first; caught after the strengthening recorded in DESIGN.md 12.6/12.7"
    else:
        status = "missed"
    meta = {"property": prop, "round": os.environ.get("SEEDTAG", "r5"),
            "written_by": "independent sub-agent given only the property text, a scratch worktree and a list of what earlier rounds had produced",
            "what_it_needs_to_manifest": note,
            "confirmed": [f"tests: {tests.strip()} (with the change)",
                          f"demo.py exit status {dchanged} with the change, {dclean} on the unchanged tree (tools/runr5.sh, scratch worktree /tmp/evalrepo)",
                          f"tools/runr5.sh {prop}  (./check {prop} --tier quick --dev with CR_REPO=/tmp/evalrepo; /repo untouched)"],
            "confirmed_by_hand": bool(confirmed), "detection": status, "caught_by": first.strip()[:300]}
    json.dump(meta, open(f"{dst}/meta.json", "w"), indent=1)
    print(prop, n, status, "" if confirmed else "(NOT CONFIRMED: demo/tests)")
